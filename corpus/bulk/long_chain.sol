// SPDX-License-Identifier: MIT
pragma solidity 0.8.17;
contract Chain {
    function sum(uint256 a) external pure returns (uint256) {
        return a + a + a + a + a + a + a + a + a + a + a + a + a + a + a + a + a + a + a + a + a + a + a + a + a + a + a + a + a + a + a + a + a + a + a + a + a + a + a + a + a + a + a + a + a + a + a + a + a + a + a + a + a + a + a + a + a + a + a + a + a + a + a + a + a + a + a + a + a + a + a + a + a + a + a + a + a + a + a + a + a + a + a + a + a + a + a + a + a + a + a + a + a + a + a + a + a + a + a + a + a + a + a + a + a + a + a + a + a + a + a + a + a + a + a + a + a + a + a + a + a + a + a + a + a + a + a + a + a + a + a + a + a + a + a + a + a + a + a + a + a + a + a + a + a + a + a + a + a + a + a + a + a + a + a + a + a + a + a + a;
    }
    function all(bool p) external pure {
        require(p && p && p && p && p && p && p && p && p && p && p && p && p && p && p && p && p && p && p && p && p && p && p && p && p && p && p && p && p && p && p && p && p && p && p && p && p && p && p && p && p && p && p && p && p && p && p && p && p && p && p && p && p && p && p && p && p && p && p && p && p && p && p && p && p && p && p && p && p && p && p && p && p && p && p && p && p && p && p && p && p && p && p && p && p && p && p && p && p && p && p && p && p && p && p && p && p && p && p && p && p && p && p && p && p && p && p && p && p && p && p && p && p && p && p && p && p && p && p && p);
    }
}
