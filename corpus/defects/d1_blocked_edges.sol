pragma solidity 0.8.10;
contract C {
    uint256 total;
    modifier only(uint256 a) { _; }
    function f(uint256 a, uint256[] memory arr) public only(a >= 1 ? 1 : 2) returns (uint256) {
        uint256 p = 2 ** (a >= 1 ? 1 : 2);
        ++arr[a++];
        --arr[total = a];
        try this.g(a) returns (uint256 r) { a = r; } catch Error(string memory reason) { total = a * 4; require(a > 0 && a < 9, reason); } catch (bytes memory data) { a++; data; } catch { total--; }
        return p;
    }
    function g(uint256 a) external returns (uint256) { return a; }
}
function free(uint256 a) only(a <= 3) returns (uint256) { return a; }
