pragma solidity 0.8.10;
contract C {
    uint256 limit;
    address keeper;
    constructor(bytes memory data) {
        limit = abi.decode(data, (uint256));
        keeper = msg.sender;
    }
    function read() public view returns (uint256) { return limit; }
}
