//! Grammar-directed generator of Solidity source text for solang-parser 0.1.18.
//!
//! The generator does not need to control the tree it gets: whatever the parser builds from the
//! text is what both the implementation and the model consume.  It only has to (a) parse most of
//! the time, (b) reach every syntactic position (edge) of the parse tree, and (c) place the forms
//! the detectors look for — canonical ones and near misses — at all of those positions.
use crate::rng::Rng;

pub struct Cfg {
    pub max_depth: usize,
    /// probability (percent) to take a detector-directed snippet where an expression is needed
    pub snippet_pct: usize,
    pub with_pragma: bool,
    pub allow_free_functions: bool,
    pub allow_assembly: bool,
    /// keep state-variable names unique in the file and never reuse them for locals/params
    pub unique_state_names: bool,
    pub max_items: usize,
}

impl Default for Cfg {
    fn default() -> Self {
        Cfg { max_depth: 4, snippet_pct: 35, with_pragma: true, allow_free_functions: true, allow_assembly: true, unique_state_names: false, max_items: 4 }
    }
}

pub const VERSION_POOL: [&str; 14] = [
    "0.4.24", "0.5.17", "0.6.12", "0.7.6", "0.7.99", "0.8.0", "0.8.3", "0.8.4", "0.8.10", "0.8.17", "0.9.0", "0.9.3", "1.0.0", "1.2.40",
];
pub const VERSION_OPS: [&str; 6] = ["", "^", "~", "=", ">=", ">"];

const ELEM_TYPES: [&str; 22] = [
    "uint256", "uint", "uint8", "uint16", "uint32", "uint64", "uint128", "int256", "int8", "int64", "bool", "address", "address payable", "bytes32", "bytes1",
    "bytes4", "bytes16", "string", "bytes", "uint24", "int", "bytes8",
];
const LOCAL_NAMES: [&str; 14] = ["i", "j", "k", "x", "y", "z", "amount", "to", "from", "tmp", "len", "acc", "idx", "val"];
const STATE_NAMES: [&str; 14] = ["owner", "total", "_balance", "count", "_owner", "token", "values", "balances", "rate", "_rate", "admin", "paused", "name_", "supply"];
const FUNC_NAMES: [&str; 14] = ["run", "_run", "withdraw", "kill", "_kill", "update", "set", "_set", "get", "transferAll", "init", "destroy", "_helper", "exec"];
const MODIFIER_NAMES: [&str; 6] = ["onlyOwner", "only", "nonReentrant", "whenNotPaused", "onlyAdmin", "guarded"];
const USER_TYPES: [&str; 5] = ["IERC20", "Data", "Lib.Item", "Kind", "Token"];
const NUM_POOL: [&str; 30] = [
    "0", "1", "2", "3", "4", "6", "8", "10", "16", "31", "32", "33", "64", "100", "256", "1024", "65536", "4294967295", "4294967296", "4294967297",
    "18446744073709551616", "115792089237316195423570985008687907853269984665640564039457584007913129639935", "1_000", "0010", "00", "2e3", "1e18", "2e0", "5e-1", "1_6",
];

pub struct Gen<'a> {
    pub rng: &'a mut Rng,
    pub cfg: Cfg,
    state_vars: Vec<String>,
    params: Vec<String>,
    used_state: Vec<String>,
    in_modifier: bool,
    in_loop: usize,
}

impl<'a> Gen<'a> {
    pub fn new(rng: &'a mut Rng, cfg: Cfg) -> Gen<'a> {
        Gen { rng, cfg, state_vars: vec![], params: vec![], used_state: vec![], in_modifier: false, in_loop: 0 }
    }

    fn pick(&mut self, xs: &[&str]) -> String {
        xs[self.rng.below(xs.len())].to_string()
    }
    fn pct(&mut self, p: usize) -> bool {
        self.rng.below(100) < p
    }

    // ------------------------------------------------------------------ names and atoms
    fn ident(&mut self) -> String {
        let n = self.rng.below(10);
        if n < 4 && !self.state_vars.is_empty() {
            let i = self.rng.below(self.state_vars.len());
            self.state_vars[i].clone()
        } else if n < 6 && !self.params.is_empty() {
            let i = self.rng.below(self.params.len());
            self.params[i].clone()
        } else if n < 9 {
            self.pick(&LOCAL_NAMES)
        } else {
            self.pick(&["msg", "block", "tx", "abi", "this", "owner", "arr", "token", "require", "keccak256", "selfdestruct"])
        }
    }

    fn number(&mut self) -> String {
        if self.rng.chance(2, 3) {
            return self.pick(&NUM_POOL);
        }
        // 2^k for any k up to 300 (beyond every machine integer width), and its neighbours
        let k = match self.rng.below(4) {
            0 => self.rng.below(70),
            1 => [63, 64, 65, 127, 128, 129, 191, 192, 255, 256, 257][self.rng.below(11)],
            _ => self.rng.below(301),
        };
        let mut digits: Vec<u8> = vec![1]; // little-endian decimal
        for _ in 0..k {
            let mut carry = 0;
            for d in digits.iter_mut() {
                let v = *d * 2 + carry;
                *d = v % 10;
                carry = v / 10;
            }
            if carry > 0 {
                digits.push(carry);
            }
        }
        match self.rng.below(6) {
            0 => {
                // 2^k + 1
                let mut i = 0;
                loop {
                    if i == digits.len() {
                        digits.push(1);
                        break;
                    }
                    if digits[i] < 9 {
                        digits[i] += 1;
                        break;
                    }
                    digits[i] = 0;
                    i += 1;
                }
            }
            1 if k > 0 => {
                // 2^k - 1
                let mut i = 0;
                while digits[i] == 0 {
                    digits[i] = 9;
                    i += 1;
                }
                digits[i] -= 1;
                while digits.len() > 1 && *digits.last().unwrap() == 0 {
                    digits.pop();
                }
            }
            _ => {}
        }
        let mut s: String = digits.iter().rev().map(|d| (b'0' + d) as char).collect();
        if self.rng.chance(1, 12) {
            s = format!("0{}", s);
        }
        s
    }

    fn string_lit(&mut self) -> String {
        let pool = [
            "\"\"",
            "\"short\"",
            "\"exactly thirty-one bytes long..\"",
            "\"exactly thirty-two bytes long...\"",
            "\"this is thirty-three bytes long..\"",
            "\"a considerably longer revert string that does not fit in one word\"",
            "\"require(a && b); x >= y; i++\"",
            "unicode\"h\u{e9}llo \u{1F600} w\u{f6}rld, more than 32 bytes of it\"",
            "\"esc \\\" \\n \\x41 \\u0041\"",
            "'single'",
            "\"part one \" \"part two which is long enough to exceed\"",
            "\"ab\" \"cd\"",
            "\"fifteen bytes..\" \"sixteen bytes...\"",
            "\"sixteen bytes...\" \"sixteen bytes...\"",
            "\"a\" \"b\" \"c\"",
            "\"part one \"\n        \"part two on the next line, long enough to exceed\"",
            "\"x\"\n\n  \"y\"\n  \"z\"",
            "\"\u{e9}\u{e9}\u{e9}\u{e9}\u{e9}\u{e9}\u{e9}\u{e9}\u{e9}\u{e9}\u{e9}\u{e9}\u{e9}\u{e9}\u{e9}\u{e9}\"",
        ];
        self.pick(&pool)
    }

    fn literal(&mut self) -> String {
        match self.rng.below(12) {
            0..=4 => self.number(),
            5 => self.pick(&["true", "false"]),
            6 => self.string_lit(),
            7 => self.pick(&["0x10", "0x0", "0xff", "0x1F"]),
            8 => self.pick(&["1.5", "0.5e1", "2.0", ".5"]),
            9 => self.pick(&["hex\"00ff\"", "hex'ab_cd'", "hex\"\""]),
            10 => format!("{} {}", self.number(), self.pick(&["ether", "wei", "gwei", "days", "seconds", "hours", "weeks", "minutes"])),
            _ => self.pick(&["0x5B38Da6a701c568545dCfcB03FcB875f56beddC4", "address\"5GrwvaEF5zXb26Fz9rcQpDWS57CtERHpNehXCPcNoHGKutQY\""]),
        }
    }

    pub fn elem_type(&mut self) -> String {
        self.pick(&ELEM_TYPES)
    }

    fn type_expr(&mut self, depth: usize) -> String {
        match self.rng.below(14) {
            0..=6 => self.elem_type(),
            7 => self.pick(&USER_TYPES),
            8 if depth > 0 => format!("mapping({} => {})", self.elem_type(), self.type_expr(depth - 1)),
            9 if depth > 0 => {
                let t = self.type_expr(depth - 1);
                if self.pct(50) {
                    format!("{}[]", t)
                } else {
                    // array dimension is an expression: a detector pattern can hide here
                    let e = self.expr(depth.saturating_sub(1));
                    format!("{}[{}]", t, e)
                }
            }
            10 if depth > 0 => {
                let p = self.param_list(depth - 1, false);
                let r = if self.pct(50) { format!(" returns {}", self.param_list(depth - 1, false)) } else { String::new() };
                format!("function{} {}{}", p, self.pick(&["external", "internal", "external view", "internal pure", "", "external payable"]), r)
            }
            _ => self.elem_type(),
        }
    }

    /// an operand of varied syntactic shape: identifier, call, cast, member, subscript, parenthesis, literal
    fn operand(&mut self, d: usize) -> String {
        let a = self.ident();
        let b = self.ident();
        match self.rng.below(10) {
            0 | 1 => a,
            2 => format!("{}.{}({})", a, self.pick(&["ownerOf", "get", "balanceOf"]), b),
            3 => format!("address({})", a),
            4 => format!("{}.{}", a, self.pick(&["owner", "x", "token"])),
            5 => format!("{}[{}]", a, b),
            6 => format!("({})", a),
            7 => format!("{}({})", self.pick(&["f", "IERC20", "payable", "uint160"]), b),
            8 => self.expr(d),
            _ => self.number(),
        }
    }

    // ------------------------------------------------------------------ detector-directed snippets
    fn snippet(&mut self, depth: usize) -> String {
        let d = depth.saturating_sub(1);
        let a = self.ident();
        let b = self.ident();
        let n = self.number();
        match self.rng.below(64) {
            // address_balance and near misses
            0 => "address(this).balance".into(),
            1 => format!("address({}).balance", self.expr(d)),
            2 => format!("{}.balance", a),
            3 => format!("payable({}).balance", a),
            4 => "address(this).balanceOf".into(),
            // address_zero
            5 => format!("{} {} address(0)", self.operand(d), self.pick(&["==", "!="])),
            6 => format!("address(0) {} {}", self.pick(&["==", "!="]), self.operand(d)),
            7 => format!("{} == address({})", a, self.pick(&["1", "0x0", "00", "0e0", "x", "0, 1", ""])),
            8 => format!("{} != payable(0)", a),
            // bool_equals_bool
            9 => format!("{} {} {}", self.operand(d), self.pick(&["==", "!="]), self.pick(&["true", "false"])),
            10 => format!("{} != {}", self.pick(&["true", "false"]), self.expr(d)),
            // assign_update_array_value
            11 => {
                let k = self.pick(&["0", "1", "2", "10", "1e1", "01"]);
                let k2 = if self.pct(75) { k.clone() } else { self.pick(&["0", "1", "2", "10", "1e1", "01"]) };
                let op = self.pick(&["+", "-", "*", "/", "%", "<<", ">>", "&", "|", "^", "**", "&&"]);
                let arr2 = if self.pct(80) { a.clone() } else { b.clone() };
                if self.pct(70) {
                    format!("{}[{}] = {}[{}] {} {}", a, k, arr2, k2, op, self.expr(d))
                } else {
                    format!("{}[{}] = {} {} {}[{}]", a, k, self.expr(d), op, arr2, k2)
                }
            }
            12 => format!("{}[{}] += {}[{}] + 1", a, n, a, n),
            13 => format!("{}[{}] = {}[{}][0] + {}[{}]", a, "1", b, "1", a, "1"),
            // cache_array_length
            14 => format!("{}.length", a),
            15 => format!("{}.length > {}", self.expr(d), n),
            16 => format!("{}.len", a),
            // increment / decrement
            17 => format!("{}++", a),
            18 => format!("{}--", a),
            19 => format!("++{}", a),
            20 => format!("--{}", a),
            21 => format!("++{}[{}++]", a, b),
            // multiple_require
            22 => format!("require({} && {})", self.expr(d), self.expr(d)),
            23 => format!("require({} && {}, {})", self.expr(d), self.expr(d), self.string_lit()),
            24 => format!("require(({} && {}))", a, b),
            25 => format!("assert({} && {})", a, b),
            26 => format!("require({}, {})", self.expr(d), self.string_lit()),
            27 => format!("require({})", self.expr(d)),
            28 => format!("{}.require({} && {}, {})", a, a, b, self.string_lit()),
            // optimal_comparison
            29 => format!("{} >= {}", self.expr(d), self.expr(d)),
            30 => format!("{} <= {}", self.expr(d), self.expr(d)),
            // shift_math
            31 => format!("{} * {}", self.expr(d), n),
            32 => format!("{} / {}", n, self.expr(d)),
            33 => format!("{} / {}", self.expr(d), n),
            // keccak
            34 => match self.rng.below(4) {
                0 => format!("keccak256(abi.encodePacked({}, {}))", a, b),
                1 => format!("keccak256(bytes.concat(keccak256(abi.encodePacked({}, {}))))", a, b),
                2 => format!("keccak256(abi.encodePacked(keccak256(abi.encodePacked({})), {}))", a, self.operand(d)),
                _ => format!("keccak256(abi.encode({}))", self.operand(d)),
            },
            35 => format!("{}.keccak256({})", a, b),
            36 => format!("sha256({})", a),
            // safemath
            37 => format!("{}.{}({})", self.expr(d), self.pick(&["add", "sub", "mul", "div", "mod", "addr"]), self.expr(d)),
            // erc20
            38 => {
                let m = self.pick(&["transfer", "transferFrom", "approve", "safeTransfer", "transfer_"]);
                let recv = self.operand(d);
                match self.rng.below(5) {
                    0 => format!("{}.{}{{gas: 60000}}({}, {})", recv, m, b, n),
                    1 => format!("{}.{}({{to: {}, amount: {}}})", recv, m, b, n),
                    2 => format!("{}.{}.selector", recv, m),
                    _ => format!("{}.{}({}, {})", recv, m, b, n),
                }
            }
            39 => format!("{}.transfer", self.operand(d)),
            // divide before multiply
            40 => format!("{} / {} * {}", a, b, n),
            41 => format!("({} / {}) * {} * {}", a, b, n, a),
            42 => format!("{} * ({} / {})", a, b, n),
            43 => format!("{} /= {} * {}", a, b, n),
            44 => format!("{} /= ({} + {} * {}) - 1", a, a, b, n),
            45 => format!("{} /= {} + ({} * {})", a, a, b, n),
            46 => format!("(({} / {})) * {}", a, b, n),
            // selfdestruct and its guards
            47 => format!("selfdestruct({})", self.pick(&["payable(msg.sender)", "payable(owner)", "address(msg.sender)", "msg.sender", "to"])),
            48 => format!("suicide({})", a),
            49 => format!(
                "require({} {} {})",
                self.pick(&["msg.sender", "owner", "msg.value", "msg.sig", "tx.origin", "ctx.sender", "msg.data.length"]),
                self.pick(&["==", "!=", ">="]),
                self.pick(&["msg.sender", "owner", "fee", "bytes4(0)", "msg.value"])
            ),
            50 => format!("{}(msg.sender)", self.pick(&["check", "payable", "address", "_auth", "uint160"])),
            51 => format!("require(msg.sender != {}, {})", a, self.string_lit()),
            52 => "msg.sender".into(),
            // writes to state variables / params in all forms
            53 => format!("{} = {}", a, self.expr(d)),
            54 => format!("{} {} {}", a, self.pick(&["+=", "-=", "*=", "/=", "%=", "|=", "&=", "^=", "<<=", ">>="]), self.expr(d)),
            55 => format!("{}[{}] = {}", a, self.expr(d), self.expr(d)),
            56 => format!("{}[{}][{}] {} {}", a, b, n, self.pick(&["=", "+=", "|="]), self.expr(d)),
            57 => format!("{}.x = {}", a, self.expr(d)),
            58 => format!("({}, {}) = ({}, {})", a, b, n, n),
            59 => format!("{} = {}", a, self.pick(&["\"str\"", "abi.decode(data, (uint256))", "abi.encode(x)", "bytes(\"b\")", "bytes32(0)", "abi.f", "string(\"s\")"])),
            60 => format!("delete {}", a),
            // power (blocked operand position in the pinned tree)
            61 => format!("{} ** {}", self.expr(d), self.expr(d)),
            62 => format!("{} ** ({} >= 1 ? {} : {}--)", n, a, n, b),
            _ => format!("{} = {} = {}", a, b, self.expr(d)),
        }
    }

    // ------------------------------------------------------------------ expressions
    pub fn expr(&mut self, depth: usize) -> String {
        if depth == 0 {
            return match self.rng.below(10) {
                0..=4 => self.ident(),
                5..=7 => self.literal(),
                8 => "msg.sender".into(),
                _ => self.pick(&["this", "block.timestamp", "msg.value", "type(uint256).max", "arr.length"]),
            };
        }
        if self.pct(self.cfg.snippet_pct) {
            let s = self.snippet(depth);
            return if self.pct(30) { format!("({})", s) } else { s };
        }
        let d = depth - 1;
        match self.rng.below(40) {
            0..=9 => {
                let op = self.pick(&[
                    "+", "-", "*", "/", "%", "**", "<<", ">>", "&", "|", "^", "<", ">", "<=", ">=", "==", "!=", "&&", "||",
                ]);
                let l = self.expr(d);
                let r = self.expr(d);
                let l = if self.pct(40) { format!("({})", l) } else { l };
                let r = if self.pct(40) { format!("({})", r) } else { r };
                format!("{} {} {}", l, op, r)
            }
            10 | 11 => {
                let op = self.pick(&["=", "+=", "-=", "*=", "/=", "%=", "|=", "&=", "^=", "<<=", ">>="]);
                format!("{} {} {}", self.lvalue(d), op, self.expr(d))
            }
            12 => format!("{} ? {} : {}", self.paren(d), self.expr(d), self.expr(d)),
            13 => format!("!{}", self.paren(d)),
            14 => format!("~{}", self.paren(d)),
            15 => format!("-{}", self.paren(d)),
            16 => format!("+{}", self.paren(d)),
            17 => format!("delete {}", self.lvalue(d)),
            18 => format!("++{}", self.lvalue(d)),
            19 => format!("--{}", self.lvalue(d)),
            20 => format!("{}++", self.lvalue(d)),
            21 => format!("{}--", self.lvalue(d)),
            22 | 23 => {
                let f = self.callee(d);
                let n = self.rng.below(4);
                let args: Vec<String> = (0..n).map(|_| self.expr(d)).collect();
                format!("{}({})", f, args.join(", "))
            }
            24 => {
                let f = self.callee(d);
                format!("{}({{{}: {}, {}: {}}})", f, self.pick(&LOCAL_NAMES), self.expr(d), self.pick(&LOCAL_NAMES), self.expr(d))
            }
            25 => {
                let f = self.callee(d);
                format!("{}{{value: {}, gas: {}}}({})", f, self.expr(d), self.expr(d), self.expr(d))
            }
            26 => format!("{}.{}", self.postfix_base(d), self.pick(&["length", "balance", "sender", "x", "transfer", "add", "selector", "address"])),
            27 => format!("{}[{}]", self.postfix_base(d), self.expr(d)),
            28 => format!("{}[{}:{}]", self.postfix_base(d), if self.pct(60) { self.expr(d) } else { String::new() }, if self.pct(60) { self.expr(d) } else { String::new() }),
            29 => format!("new {}({})", self.pick(&["Token", "uint256[]", "bytes", "Lib.Item"]), self.expr(d)),
            30 => {
                let n = 1 + self.rng.below(3);
                let xs: Vec<String> = (0..n).map(|_| self.expr(d)).collect();
                format!("[{}]", xs.join(", "))
            }
            31 => format!("({}, {})", self.expr(d), self.expr(d)),
            32 => format!("({}, , {})", self.lvalue(d), self.lvalue(d)),
            33 => format!("{}({})", self.pick(&["address", "payable", "uint256", "uint8", "bytes32", "bytes", "string", "int256", "address payable"]), self.expr(d)),
            34 => format!("({})", self.expr(d)),
            35 => format!("(({}))", self.expr(d)),
            36 => format!("{}[]", self.postfix_base(d)),
            37 => format!("{} {}", self.paren(d), self.pick(&["ether", "days", "wei"])),
            38 => format!("type({}).max", self.elem_type()),
            _ => self.literal(),
        }
    }

    fn paren(&mut self, depth: usize) -> String {
        let e = self.expr(depth);
        if self.pct(70) {
            format!("({})", e)
        } else {
            self.ident()
        }
    }

    fn postfix_base(&mut self, depth: usize) -> String {
        match self.rng.below(6) {
            0..=2 => self.ident(),
            3 => format!("({})", self.expr(depth)),
            4 => format!("{}[{}]", self.ident(), self.expr(depth)),
            _ => format!("{}({})", self.ident(), self.expr(depth)),
        }
    }

    fn callee(&mut self, depth: usize) -> String {
        match self.rng.below(10) {
            0..=2 => self.pick(&["require", "keccak256", "selfdestruct", "suicide", "assert", "check", "f", "_auth"]),
            3..=4 => format!("{}.{}", self.postfix_base(depth), self.pick(&["transfer", "transferFrom", "approve", "add", "sub", "mul", "div", "call", "push", "encode"])),
            5 => self.pick(&["address", "payable", "uint256", "bytes"]),
            6 => self.pick(&FUNC_NAMES),
            7 => format!("({})", self.expr(depth)),
            _ => self.ident(),
        }
    }

    fn lvalue(&mut self, depth: usize) -> String {
        match self.rng.below(8) {
            0..=3 => self.ident(),
            4 => format!("{}[{}]", self.ident(), self.expr(depth)),
            5 => format!("{}[{}][{}]", self.ident(), self.expr(depth), self.expr(depth)),
            6 => format!("{}.{}", self.ident(), self.pick(&["x", "y", "length"])),
            _ => format!("({})", self.ident()),
        }
    }

    // ------------------------------------------------------------------ statements
    fn block(&mut self, depth: usize) -> String {
        let n = self.rng.below(4);
        let mut s = String::from("{ ");
        for _ in 0..n {
            s.push_str(&self.stmt(depth));
            s.push(' ');
        }
        s.push('}');
        s
    }

    fn simple_stmt(&mut self, depth: usize) -> String {
        if self.pct(35) {
            let ty = self.type_expr(1);
            let st = if self.pct(30) { self.pick(&[" memory", " storage", " calldata"]) } else { String::new() };
            let name = self.pick(&LOCAL_NAMES);
            if self.pct(70) {
                format!("{}{} {} = {}", ty, st, name, self.expr(depth))
            } else {
                format!("{}{} {}", ty, st, name)
            }
        } else {
            self.expr(depth)
        }
    }

    pub fn stmt(&mut self, depth: usize) -> String {
        if depth == 0 {
            return format!("{};", self.simple_stmt(1));
        }
        let d = depth - 1;
        match self.rng.below(40) {
            0..=9 => format!("{};", self.simple_stmt(depth)),
            10 | 11 => self.block(d),
            12 | 13 => format!("unchecked {}", self.block(d)),
            14 | 15 => {
                if self.pct(50) {
                    format!("if ({}) {}", self.expr(depth), self.stmt(d))
                } else {
                    format!("if ({}) {} else {}", self.expr(depth), self.block(d), self.stmt(d))
                }
            }
            16 => {
                self.in_loop += 1;
                let s = format!("while ({}) {}", self.expr(depth), self.stmt(d));
                self.in_loop -= 1;
                s
            }
            17 => {
                self.in_loop += 1;
                let s = format!("do {} while ({});", self.stmt(d), self.expr(depth));
                self.in_loop -= 1;
                s
            }
            18..=21 if self.pct(25) => {
                // the canonical cache_array_length loop, with bodies that push / pop / nest another loop
                let arr = self.ident();
                let other = self.ident();
                let body = match self.rng.below(6) {
                    0 => format!("{{ {}.push({}[i]); }}", other, arr),
                    1 => format!("{{ {}.pop(); }}", arr),
                    2 => format!("{{ if ({}[i] > 1) {{ {}.push(i); }} }}", arr, other),
                    3 => format!("{{ for (uint256 j = 0; j < {}.length; ++j) {{ {} += 1; }} }}", other, other),
                    4 => ";".to_string(),
                    _ => format!("{{ {} }}", self.stmt(d)),
                };
                let cond = match self.rng.below(11) {
                    0 => format!("i < {}.length", arr),
                    1 => format!("{}.length > i", arr),
                    2 => format!("i < {}.length && i < {}.length", arr, other),
                    3 => format!("i <= {}.length - 1", arr),
                    // the length is not the first member access of the condition, is an argument, sits under a cast, an
                    // index, a ternary, or belongs to a nested member chain
                    4 => format!("i < cfg.limit && i < {}.length", arr),
                    5 => format!("i < Bounds.min({}.length, {})", arr, other),
                    6 => format!("block.number + i < {}.length", arr),
                    7 => format!("i < uint256({}.length) - cfg.margin", arr),
                    8 => format!("i < self.items[{}.length - 1].length", arr),
                    9 => format!("(i < 10 ? i < {}.length : i < {}.length)", arr, other),
                    _ => format!("msg.sender != owner && {}[i].data.length > 0", arr),
                };
                format!("for (uint256 i = 0; {}; {}) {}", cond, self.pick(&["i++", "++i", "i += 1"]), body)
            }
            18..=21 => {
                let init = if self.pct(80) { self.simple_stmt(d) } else { String::new() };
                let cond = if self.pct(85) { self.expr(depth) } else { String::new() };
                let next = if self.pct(80) { self.expr(d) } else { String::new() };
                self.in_loop += 1;
                let body = if self.pct(90) { self.stmt(d) } else { ";".to_string() };
                self.in_loop -= 1;
                format!("for ({}; {}; {}) {}", init, cond, next, body)
            }
            22 => {
                if self.pct(70) {
                    format!("return {};", self.expr(depth))
                } else {
                    "return;".into()
                }
            }
            23 => format!("emit {}({});", self.pick(&["Transfer", "Log", "Lib.Done"]), self.expr(depth)),
            24 => {
                let args: Vec<String> = (0..self.rng.below(3)).map(|_| self.expr(d)).collect();
                format!("revert {}({});", self.pick(&["", "Unauthorized", "Lib.Bad"]), args.join(", "))
            }
            25 => format!("revert {}({{code: {}, who: {}}});", self.pick(&["", "Failed"]), self.expr(d), self.expr(d)),
            26..=28 => self.try_stmt(d),
            29 if self.cfg.allow_assembly => self.assembly(),
            30 if self.in_loop > 0 => self.pick(&["continue;", "break;"]),
            31 if self.in_modifier => "_;".into(),
            32 => format!("{}{{value: {}}};", self.callee(d), self.expr(d)),
            _ => format!("{};", self.expr(depth)),
        }
    }

    fn try_stmt(&mut self, depth: usize) -> String {
        let call = if self.pct(30) {
            format!("new Token({})", self.expr(depth))
        } else {
            format!("{}.{}({})", self.ident(), self.pick(&["get", "transfer", "run"]), self.expr(depth))
        };
        let rets = if self.pct(50) { format!(" returns {}", self.param_list(depth, true)) } else { String::new() };
        let mut s = format!("try {}{} {}", call, rets, self.block(depth));
        let n = 1 + self.rng.below(3);
        for _ in 0..n {
            match self.rng.below(4) {
                0 => s.push_str(&format!(" catch {}", self.block(depth))),
                1 => s.push_str(&format!(" catch ({} memory {}) {}", self.type_expr(1), self.pick(&LOCAL_NAMES), self.block(depth))),
                2 => s.push_str(&format!(" catch Error(string memory reason) {}", self.block(depth))),
                _ => s.push_str(&format!(" catch Panic({} code) {}", self.type_expr(1), self.block(depth))),
            }
        }
        s
    }

    fn assembly(&mut self) -> String {
        let pool = [
            "assembly { let x := add(1, 2) mstore(0x00, x) }",
            "assembly { if iszero(eq(caller(), sload(0))) { revert(0, 0) } selfdestruct(caller()) }",
            "assembly (\"memory-safe\") { let length := mload(arr) for { let i := 0 } lt(i, length) { i := add(i, 1) } { sstore(i, mul(i, 4)) } }",
            "assembly \"evmasm\" { function f(a, b) -> c { c := div(a, b) } let r := f(8, 2) switch r case 4 { leave } default { r := keccak256(0, 32) } }",
            "assembly { let require := 1 let balance := selfbalance() x := balance }",
        ];
        self.pick(&pool)
    }

    // ------------------------------------------------------------------ declarations
    fn param_list(&mut self, depth: usize, named: bool) -> String {
        let n = self.rng.below(4);
        let mut ps = vec![];
        for _ in 0..n {
            let ty = self.type_expr(depth.min(1));
            let st = match self.rng.below(5) {
                0 | 1 => " memory",
                2 => " calldata",
                3 => " storage",
                _ => "",
            };
            let name = if named || self.pct(85) {
                let nm = if self.pct(15) && !self.cfg.unique_state_names && !self.state_vars.is_empty() {
                    let i = self.rng.below(self.state_vars.len());
                    self.state_vars[i].clone()
                } else {
                    self.pick(&LOCAL_NAMES)
                };
                format!(" {}", nm)
            } else {
                String::new()
            };
            ps.push(format!("{}{}{}", ty, st, name));
        }
        format!("({})", ps.join(", "))
    }

    fn record_params(&mut self, plist: &str) {
        self.params.clear();
        for p in plist.trim_matches(|c| c == '(' || c == ')').split(',') {
            if let Some(last) = p.trim().split(' ').last() {
                if LOCAL_NAMES.contains(&last) || self.state_vars.iter().any(|s| s == last) {
                    self.params.push(last.to_string());
                }
            }
        }
    }

    fn func_attrs(&mut self, depth: usize, free: bool) -> String {
        let mut attrs: Vec<String> = vec![];
        if !free && self.pct(85) {
            attrs.push(self.pick(&["public", "external", "internal", "private", "public", "external"]));
        }
        if self.pct(40) {
            attrs.push(self.pick(&["view", "pure", "payable", "payable"]));
        }
        if self.pct(15) {
            attrs.push("virtual".into());
        }
        if self.pct(10) {
            attrs.push(self.pick(&["override", "override(Base, Lib.Other)"]));
        }
        if !free && self.pct(35) {
            let m = self.pick(&MODIFIER_NAMES);
            if self.pct(50) {
                let args: Vec<String> = (0..1 + self.rng.below(2)).map(|_| self.expr(depth)).collect();
                attrs.push(format!("{}({})", m, args.join(", ")));
            } else {
                attrs.push(m);
            }
        }
        if self.pct(5) {
            let lit = match self.rng.below(3) { 0 => self.number(), 1 => self.string_lit(), _ => self.pick(&["true", "0x10", "hex\"00\""]) };
            attrs.push(format!("{} = {}", self.pick(&["selector", "gasLimit"]), lit));
        }
        if self.pct(5) && !free {
            attrs.push(self.pick(&["public", "internal"]));
        }
        self.rng.shuffle(&mut attrs);
        attrs.join(" ")
    }

    fn function(&mut self, depth: usize, free: bool, allow_special: bool) -> String {
        let kind = if allow_special { self.rng.below(12) } else { 0 };
        let params = self.param_list(1, false);
        self.record_params(&params);
        let body = |g: &mut Gen, has: bool| -> String {
            if has {
                g.block(depth)
            } else {
                ";".into()
            }
        };
        let has_body = self.pct(88);
        let s = match kind {
            8 | 9 => {
                // constructor
                let attrs = self.func_attrs(depth, false);
                let base = if self.pct(30) { format!(" Base({})", self.expr(depth)) } else { String::new() };
                format!("constructor{} {}{} {}", params, attrs, base, body(self, true))
            }
            10 => {
                self.in_modifier = true;
                let name = self.pick(&MODIFIER_NAMES);
                let p = if self.pct(70) { params.clone() } else { String::new() };
                let r = format!("modifier {}{} {} {}", name, p, if self.pct(20) { "virtual" } else { "" }, body(self, has_body));
                self.in_modifier = false;
                r
            }
            11 => {
                let k = self.pick(&["fallback", "receive"]);
                format!("{}() external {} {}", k, self.pick(&["payable", "", "payable virtual"]), body(self, has_body))
            }
            _ => {
                let name = self.pick(&FUNC_NAMES);
                let attrs = self.func_attrs(depth, free);
                let rets = if self.pct(40) { format!(" returns {}", self.param_list(1, false)) } else { String::new() };
                format!("function {}{} {}{} {}", name, params, attrs, rets, body(self, has_body))
            }
        };
        self.params.clear();
        s
    }

    fn fresh_state_name(&mut self) -> String {
        for _ in 0..20 {
            let base = self.pick(&STATE_NAMES);
            let name = if self.cfg.unique_state_names && self.used_state.contains(&base) {
                format!("{}{}", base, self.used_state.len())
            } else {
                base
            };
            if !self.cfg.unique_state_names || !self.used_state.contains(&name) {
                self.used_state.push(name.clone());
                return name;
            }
        }
        let n = format!("sv{}", self.used_state.len());
        self.used_state.push(n.clone());
        n
    }

    fn state_var(&mut self, depth: usize) -> String {
        let ty = match self.rng.below(10) {
            0..=6 => self.elem_type(),
            7 => format!("mapping({} => {})", self.elem_type(), self.type_expr(1)),
            8 => self.pick(&USER_TYPES),
            _ => format!("{}[]", self.elem_type()),
        };
        let mut attrs: Vec<String> = vec![];
        if self.pct(75) {
            attrs.push(self.pick(&["public", "private", "internal", "external"]));
        }
        if self.pct(25) {
            attrs.push("constant".into());
        } else if self.pct(15) {
            attrs.push("immutable".into());
        }
        if self.pct(5) {
            attrs.push("override".into());
        }
        self.rng.shuffle(&mut attrs);
        let name = self.fresh_state_name();
        self.state_vars.push(name.clone());
        let init = if self.pct(45) { format!(" = {}", self.expr(depth)) } else { String::new() };
        format!("{} {} {}{};", ty, attrs.join(" "), name, init)
    }

    fn struct_def(&mut self) -> String {
        let n = 1 + self.rng.below(6);
        let mut fs = String::new();
        for i in 0..n {
            let ty = if self.pct(85) { self.elem_type() } else { self.type_expr(1) };
            fs.push_str(&format!("{} f{}; ", ty, i));
        }
        format!("struct {} {{ {} }}", self.pick(&["Data", "Item", "Packed", "S"]), fs)
    }

    fn misc_part(&mut self, depth: usize, top: bool) -> String {
        match self.rng.below(8) {
            0 => format!("enum {} {{ A, B, C }}", self.pick(&["Kind", "State"])),
            1 => format!("event {}({} indexed {}, {}){};", self.pick(&["Transfer", "Log"]), self.type_expr(1), self.pick(&LOCAL_NAMES), self.type_expr(1), if self.pct(20) { " anonymous" } else { "" }),
            2 => format!("error {}({} {}, {});", self.pick(&["Unauthorized", "Failed"]), self.type_expr(1), self.pick(&LOCAL_NAMES), self.type_expr(1)),
            3 => format!("type {} is {};", self.pick(&["Price", "Id"]), self.elem_type()),
            4 => {
                let lib = self.pick(&["SafeMath", "SafeERC20", "Lib.SafeMath", "Math", "SafeMathExt"]);
                if self.pct(70) {
                    format!("using {} for {};", lib, self.type_expr(1))
                } else if top {
                    format!("using {{f, Lib.g}} for {} global;", self.type_expr(1))
                } else {
                    format!("using {} for *;", lib)
                }
            }
            5 => ";".into(),
            6 => self.struct_def(),
            _ => {
                let _ = depth;
                self.struct_def()
            }
        }
    }

    pub fn contract(&mut self, depth: usize) -> String {
        let kind = self.pick(&["contract", "contract", "contract", "abstract contract", "library", "interface"]);
        let name = self.pick(&["A", "B", "Token", "Vault", "Lib", "IThing"]);
        let bases = if self.pct(35) {
            // 1-4 bases, each with or without constructor arguments, in any order
            let n = 1 + self.rng.below(4);
            let mut bs = vec![];
            for _ in 0..n {
                let b = self.pick(&["Base", "Other", "Ownable", "Lib.Base"]);
                bs.push(match self.rng.below(4) {
                    0 => format!("{}({})", b, self.expr(depth)),
                    1 => format!("{}({}, {})", b, self.expr(depth), self.expr(depth)),
                    2 => format!("{}()", b),
                    _ => b,
                });
            }
            format!(" is {}", bs.join(", "))
        } else {
            String::new()
        };
        let saved = self.state_vars.clone();
        let n = 1 + self.rng.below(7);
        let mut parts: Vec<String> = vec![];
        // declare state variables first so that bodies can refer to them, then shuffle
        let nvars = self.rng.below(5);
        for _ in 0..nvars {
            parts.push(self.state_var(depth));
        }
        for _ in 0..n {
            match self.rng.below(10) {
                0..=6 => parts.push(self.function(depth, false, true)),
                7 => parts.push(self.misc_part(depth, false)),
                8 => parts.push(self.struct_def()),
                _ => parts.push(self.state_var(depth)),
            }
        }
        self.rng.shuffle(&mut parts);
        if !self.pct(50) {
            // half of the time keep names visible to later contracts as well (cross-contract mentions)
            self.state_vars = saved;
        }
        format!("{} {}{} {{\n  {}\n}}", kind, name, bases, parts.join("\n  "))
    }

    pub fn pragma(&mut self) -> String {
        let v = self.pick(&VERSION_POOL);
        let op = self.pick(&VERSION_OPS);
        match self.rng.below(12) {
            0 => format!("pragma solidity {}{} <0.9.0;", ">=", v),
            1 => format!("pragma solidity {} {};", op, v),
            _ => format!("pragma solidity {}{};", op, v),
        }
    }

    pub fn file(&mut self) -> String {
        let mut items: Vec<String> = vec![];
        let n = 1 + self.rng.below(self.cfg.max_items);
        let depth = self.cfg.max_depth;
        for _ in 0..n {
            match self.rng.below(12) {
                0..=6 => items.push(self.contract(depth)),
                7 if self.cfg.allow_free_functions => items.push(self.function(depth, true, false)),
                8 => items.push(self.misc_part(depth, true)),
                9 => items.push(format!("{} constant {} = {};", self.elem_type(), self.pick(&["MAX", "FEE"]), self.expr(2))),
                10 => items.push(format!("import {};", self.pick(&["\"./a.sol\"", "\"b.sol\" as B", "{X as Y, Z} from \"c.sol\"", "* as C from \"c.sol\""]))),
                _ => items.push(self.contract(depth)),
            }
        }
        let mut head: Vec<String> = vec![];
        if self.cfg.with_pragma {
            head.push(self.pragma());
            if self.pct(25) {
                let extra = self.pick(&["pragma experimental ABIEncoderV2;", "pragma abicoder v2;", "pragma experimental SMTChecker;"]);
                if self.pct(50) {
                    head.insert(0, extra);
                } else {
                    head.push(extra);
                }
            }
        }
        let mut all = head;
        all.extend(items);
        if self.pct(10) {
            // a pragma that is not first
            let p = self.pragma();
            let pos = self.rng.below(all.len() + 1);
            all.insert(pos, p);
        }
        let sep = if self.pct(85) { "\n" } else { "\r\n" };
        let mut s = all.join(sep);
        if self.pct(70) {
            s.push_str(sep);
        }
        s
    }
}

/// one random file from a seed
pub fn random_file(seed: u64, cfg: Cfg) -> String {
    let mut rng = Rng::new(seed);
    let mut g = Gen::new(&mut rng, cfg);
    g.file()
}

/// A small, well-formed "scenario" file aimed at the table-based detectors (constant / immutable / sstore /
/// memory_to_calldata / declaration-level ones): unique state-variable names, every combination of where a
/// variable is written (constructor, ordinary function, modifier, receive, fallback, another contract of the file,
/// a derived contract) and how (plain, compound, increment, through one or two indices, tuple), attribute orders,
/// visibilities, function kinds.  Unlike `random_file`, almost everything in it is semantically plausible, so the
/// oracles' hypotheses (unique names, no shadowing) hold and their verdicts apply.
pub fn scenario_file(seed: u64) -> String {
    let mut rng = Rng::new(seed);
    let r = &mut rng;
    let pragma = [
        "pragma solidity 0.8.17;", "pragma solidity ^0.8.4;", "pragma solidity 0.7.6;", "pragma solidity >=0.8.0 <0.9.0;", "pragma solidity 0.8.0;",
        "pragma solidity >=0.6.0 ^0.8.3;", "pragma solidity ^0.8.0;", "pragma solidity 0.8.3;", "pragma solidity 0.8.5;", "pragma solidity ^0.9.0;",
        "pragma solidity 0.10.2;", "pragma solidity 1.0.0;", "pragma solidity 0.7.99;", "pragma solidity =0.8.4;",
    ][r.below(14)];
    let tys = ["uint256", "address", "bool", "uint128", "bytes32", "uint8", "int64", "address payable", "string", "uint256[]", "mapping(address => uint256)", "IERC20", "bytes", "bytes4", "bytes1"];
    let n = 3 + r.below(4);
    let mut vars: Vec<(String, &str)> = vec![];
    let mut decls = String::new();
    for i in 0..n {
        let ty = tys[r.below(tys.len())];
        let name = format!("{}{}", ["v", "_s", "total", "fee_", "_w"][r.below(5)], i);
        let mut attrs: Vec<&str> = vec![];
        if r.chance(3, 4) {
            attrs.push(["public", "private", "internal"][r.below(3)]);
        }
        match r.below(8) {
            0 => attrs.push("constant"),
            1 => attrs.push("immutable"),
            _ => {}
        }
        r.shuffle(&mut attrs);
        let elementary_value = !ty.contains('[') && !ty.contains("mapping") && ty != "string" && ty != "bytes" && ty != "IERC20";
        let init = if attrs.contains(&"constant") || (r.chance(1, 4) && elementary_value) {
            match ty {
                "address" | "address payable" => " = address(0)",
                "bool" => " = true",
                "bytes32" => " = bytes32(0)",
                _ if elementary_value => " = 1",
                _ => "",
            }
        } else {
            ""
        };
        decls.push_str(&format!("  {} {} {}{};\n", ty, attrs.join(" "), name, init));
        vars.push((name, ty));
    }
    let rhs = |r: &mut Rng, ty: &str| -> String {
        match r.below(16) {
            0 if ty == "string" || ty == "bytes" => "\"text\"".to_string(),
            1 => "abi.decode(data, (uint256))".to_string(),
            2 => "bytes(\"x\")".to_string(),
            3 => "x + 1".to_string(),
            // less usual right-hand sides: none of them makes the variable a non-value type
            4 => ["hex\"a9059cbb\"", "hex'00'", "hex\"\""][r.below(3)].to_string(),
            5 => ["0x1234", "1e18", "1_000", "2 days", "1 ether"][r.below(5)].to_string(),
            6 => ["type(uint256).max", "type(int64).min"][r.below(2)].to_string(),
            7 => ["keccak256(data)", "bytes32(x)", "uint8(x)", "payable(msg.sender)", "address(this)"][r.below(5)].to_string(),
            8 => ["msg.sender", "block.timestamp", "tx.origin"][r.below(3)].to_string(),
            9 => "x > 1 ? x : 2".to_string(),
            10 => ["true", "false", "!(x > 1)"][r.below(3)].to_string(),
            11 => ["0x5B38Da6a701c568545dCfcB03FcB875f56beddC4", "IERC20(msg.sender)"][r.below(2)].to_string(),
            _ => "x".to_string(),
        }
    };
    let write = |r: &mut Rng, v: &str| -> String {
        match r.below(9) {
            0 => format!("{} = x;", v),
            1 => format!("{} += 1;", v),
            2 => format!("{}++;", v),
            3 => format!("--{};", v),
            4 => format!("{}[0] = 1;", v),
            5 => format!("{}[0][1] = 1;", v),
            6 => format!("({}, x) = (1, 2);", v),
            7 => format!("y = ({} = 3);", v),
            _ => format!("delete {};", v),
        }
    };
    let mut body = String::new();
    // constructor(s)
    let mut ctor = String::new();
    for (v, ty) in &vars {
        if r.chance(1, 2) {
            ctor.push_str(&format!(" {} = {};", v, rhs(r, ty)));
        }
    }
    let ctor_vis = ["", "public ", "internal ", "payable "][r.below(4)];
    body.push_str(&format!("  constructor(uint256 x, bytes memory data) {}{{{} }}\n", ctor_vis, ctor));
    // writers in various kinds of functions
    let kinds = ["function", "modifier", "receive", "fallback", "function_internal", "function_private", "free"];
    let mut free_fns = String::new();
    for (v, _) in &vars {
        if r.chance(2, 5) {
            let w = write(r, v);
            match kinds[r.below(kinds.len())] {
                "function" => body.push_str(&format!("  function set_{}(uint256 x, uint256 y) {} {{ {} }}\n", v, ["public", "external", "external payable", "public onlyOwner"][r.below(4)], w)),
                "modifier" => body.push_str(&format!("  modifier m_{}(uint256 x) {{ uint256 y; {} _; }}\n", v, w)),
                "receive" => body.push_str(&format!("  receive() external payable {{ uint256 x; uint256 y; {} }}\n", w)),
                "fallback" => body.push_str(&format!("  fallback() external {{ uint256 x; uint256 y; {} }}\n", w)),
                "function_internal" => body.push_str(&format!("  function _i_{}(uint256 x, uint256 y) internal {{ {} }}\n", v, w)),
                "function_private" => body.push_str(&format!("  function p_{}(uint256 x, uint256 y) private {{ {} }}\n", v, w)),
                _ => free_fns.push_str(&format!("function free_{}(uint256 x) pure returns (uint256) {{ return x; }}\n", v)),
            }
        }
    }
    // functions with memory parameters, assigned or not
    for k in 0..r.below(3) {
        let pty = ["uint256[] memory", "string memory", "bytes memory", "uint256[][] memory", "uint256[] calldata", "uint256"][r.below(6)];
        let unnamed = r.chance(1, 8);
        let pname = if unnamed { String::new() } else { format!("arg{}", k) };
        let assign = if unnamed {
            String::new()
        } else {
            match r.below(6) {
                0 => format!("{} = {};", pname, pname),
                1 => format!("{}[0] = 1;", pname),
                2 => format!("{}[0][1] = 2;", pname),
                3 => format!("{}[0] += 2;", pname),
                _ => String::new(),
            }
        };
        let vis = ["public", "external", "internal", "private", "public view", "external payable"][r.below(6)];
        let bodyless = r.chance(1, 10);
        if bodyless {
            body.push_str(&format!("  function g{}({} {}) {} virtual;\n", k, pty, pname, vis));
        } else {
            body.push_str(&format!("  function g{}({} {}) {} {{ {} }}\n", k, pty, pname, vis, assign));
        }
    }
    // the same function name with a selfdestruct in two contracts of the file, each with its own protection
    let twin_kill = r.chance(1, 5);
    let kill_variant = |r: &mut Rng, owner: &str| -> String {
        let guard = ["", "onlyOwner ", "nonReentrant ", "nonReentrant onlyOwner "][r.below(4)];
        let pre = match r.below(7) {
            0 => format!("require(msg.sender == {});", owner),
            1 => format!("if (msg.sender != {}) revert();", owner),
            2 => "require(msg.value == 1 ether);".to_string(),
            3 => "require(msg.sig != bytes4(0));".to_string(),
            4 => format!("address payable to = payable({}); require(msg.sender == {});", owner, owner),
            _ => String::new(),
        };
        let target = [owner.to_string(), owner.to_string(), format!("payable(reg.payoutOf(msg.sender))"), format!("reg.route(payable(msg.sender), {})", owner)][r.below(4)].clone();
        format!("  address payable {};\n  function kill() {} {}{{ {} selfdestruct({}); }}\n", owner, ["external", "public"][r.below(2)], guard, pre, target)
    };
    if twin_kill {
        body.push_str(&kill_variant(r, "owner_"));
    }
    // a selfdestruct in some flavour
    if !twin_kill && r.chance(1, 3) {
        let guard = ["", "onlyOwner ", "nonReentrant onlyOwner ", "nonReentrant "][r.below(4)];
        let pre = ["", "require(msg.sender == owner_);", "require(owner_ == msg.sender, \"no\");", "if (msg.sender != owner_) revert();"][r.below(4)];
        let call = ["selfdestruct(payable(msg.sender));", "selfdestruct(payable(owner_));", "suicide(owner_);",
            "selfdestruct(payable(reg.payoutOf(msg.sender)));", "selfdestruct(reg.payoutOf(msg.sender));", "selfdestruct(payable(address(uint160(uint256(keccak256(abi.encode(msg.sender)))))));",
            "selfdestruct(payable(reg.pick(msg.sender == owner_)));"][r.below(7)];
        let kind = ["function kill() external", "function kill() public", "function _kill() internal", "fallback() external", "receive() external payable", "function kill() private"][r.below(6)];
        body.push_str(&format!("  address payable owner_;\n  {} {}{{ {} {} }}\n", kind, if kind.starts_with("function") { guard } else { "" }, pre, call));
    }
    // version-gated material: SafeMath attached (or not) and used, require with short / long / multi-part messages
    let mut using_line = String::new();
    if r.chance(1, 2) {
        using_line = format!("  using {} for uint256;\n", ["SafeMath", "SafeMath", "Math", "SafeMathExt"][r.below(4)]);
        body.push_str(&format!(
            "  function calc(uint256 a, uint256 b) public pure returns (uint256) {{ return a.{}(b).{}(2); }}\n",
            ["add", "sub", "mul", "div"][r.below(4)],
            ["add", "mod", "mul", "max"][r.below(4)]
        ));
    }
    if r.chance(1, 2) {
        let msg = ["\"short\"", "\"exactly thirty-two bytes long...\"", "\"this message is certainly longer than thirty-two bytes\"", "\"ab\" \"cd\"", "\"sixteen bytes...\" \"sixteen bytes...\"",
            "\"first part, \"\n      \"second part on its own line, long enough\"", "unicode\"\u{e9}\u{e9}\u{e9}\u{e9}\u{e9}\u{e9}\u{e9}\u{e9}\u{e9}\u{e9}\u{e9}\u{e9}\u{e9}\u{e9}\u{e9}\u{e9}\u{e9}\""][r.below(7)];
        body.push_str(&format!("  function chk(uint256 a) public pure {{ require(a > 1, {}); require(a > 2 && a < 9, {}); }}\n", msg, msg));
    }
    let kind = ["contract", "abstract contract", "contract", "library"][r.below(4)];
    // the `using` directive at file level instead of inside the contract, every fourth time it is present
    let mut file_level_using = String::new();
    if !using_line.is_empty() && r.chance(1, 4) {
        file_level_using = using_line.trim_start().to_string();
        using_line = String::new();
    }
    // one file in six: the version pragma does not come first but after a top-level item (an interface, a struct, a free
    // function, an import): it still governs the whole file
    let early = if r.chance(1, 6) {
        ["interface IEarly { function poke() external; }\n", "struct Early { uint128 a; uint128 b; }\n", "function early(uint256 a) pure returns (uint256) { return a; }\n",
         "import \"./Other.sol\";\n", "library EarlyLib { function id(uint256 a) internal pure returns (uint256) { return a; } }\n"][r.below(5)]
    } else {
        ""
    };
    let mut out = format!("{}{}\n{}{}{} Main {{\n{}{}{}}}\n", early, pragma, file_level_using, free_fns, kind, using_line, decls, body);
    // a second contract of the file that writes (or only reads) variables of the first: derived or unrelated
    if twin_kill || r.chance(1, 2) {
        let derived = !twin_kill && r.chance(1, 2);
        let mut b2 = String::new();
        for (v, _) in &vars {
            if r.chance(1, 3) {
                b2.push_str(&format!("  function other_{}(uint256 x, uint256 y) public {{ {} }}\n", v, write(r, v)));
            }
        }
        if r.chance(1, 2) {
            b2.push_str("  uint256 own0;\n  constructor() { own0 = 1; }\n");
        }
        if twin_kill {
            b2.push_str(&kill_variant(r, "boss_"));
        } else if r.chance(1, 2) {
            // a function with the same name as one of the first contract, with its own protection
            let guard = ["", "onlyOwner ", "nonReentrant "][r.below(3)];
            let pre = ["", "require(msg.sender == boss_);"][r.below(2)];
            b2.push_str(&format!("  address payable boss_;\n  function kill() external {}{{ {} selfdestruct(boss_); }}\n", guard, pre));
        }
        out.push_str(&format!("contract Second{} {{\n{}}}\n", if derived { " is Main" } else { "" }, b2));
    }
    out
}
