//! Schema of solang-parser's parse tree, read from `pt.rs` with `syn`.
use std::collections::{BTreeMap, BTreeSet};
use syn::{Fields, Item, Type};

#[derive(Clone, Debug, PartialEq, Eq)]
pub enum Ty {
    Named(String),
    Vec(Box<Ty>),
    Opt(Box<Ty>),
    Tuple(Vec<Ty>),
    Prim(String),
}

/// One step of a path in the generic tree: (tag of the parent term, child index).
/// Children of a `Vec` are all given index 0.
pub type Step = (String, usize);
pub type Path = Vec<Step>;

pub type FieldList = Vec<(Option<String>, Ty)>;

pub struct Schema {
    /// enum name -> variants in declaration order
    pub enums: BTreeMap<String, Vec<(String, FieldList)>>,
    pub structs: BTreeMap<String, FieldList>,
    pub aliases: BTreeMap<String, Ty>,
    /// declaration order of all items (enum / struct names)
    pub order: Vec<(bool, String)>,
}

pub const NODE_ENUMS: [&str; 4] = ["Expression", "Statement", "SourceUnitPart", "ContractPart"];
pub const NODE_TYPES: [&str; 5] = ["Expression", "Statement", "SourceUnitPart", "ContractPart", "SourceUnit"];

fn conv_ty(t: &Type) -> Ty {
    match t {
        Type::Path(p) => {
            let seg = p.path.segments.last().unwrap();
            let name = seg.ident.to_string();
            let arg = || -> Ty {
                if let syn::PathArguments::AngleBracketed(a) = &seg.arguments {
                    if let Some(syn::GenericArgument::Type(t)) = a.args.first() {
                        return conv_ty(t);
                    }
                }
                panic!("no generic arg for {}", name)
            };
            match name.as_str() {
                "Box" => arg(),
                "Vec" => Ty::Vec(Box::new(arg())),
                "Option" => Ty::Opt(Box::new(arg())),
                "String" | "bool" | "u8" | "u16" | "u32" | "u64" | "usize" => Ty::Prim(name),
                _ => Ty::Named(name),
            }
        }
        Type::Tuple(t) => Ty::Tuple(t.elems.iter().map(conv_ty).collect()),
        _ => panic!("unsupported type in pt.rs"),
    }
}

fn conv_fields(f: &Fields) -> FieldList {
    match f {
        Fields::Named(n) => n
            .named
            .iter()
            .map(|f| (Some(f.ident.as_ref().unwrap().to_string()), conv_ty(&f.ty)))
            .collect(),
        Fields::Unnamed(u) => u.unnamed.iter().map(|f| (None, conv_ty(&f.ty))).collect(),
        Fields::Unit => vec![],
    }
}

pub fn load(pt_rs: &str) -> Schema {
    let f = syn::parse_file(&std::fs::read_to_string(pt_rs).expect("pt.rs")).expect("parse pt.rs");
    let mut s = Schema {
        enums: BTreeMap::new(),
        structs: BTreeMap::new(),
        aliases: BTreeMap::new(),
        order: vec![],
    };
    for it in f.items {
        match it {
            Item::Enum(e) => {
                s.order.push((true, e.ident.to_string()));
                s.enums.insert(
                    e.ident.to_string(),
                    e.variants.iter().map(|v| (v.ident.to_string(), conv_fields(&v.fields))).collect(),
                );
            }
            Item::Struct(st) => {
                s.order.push((false, st.ident.to_string()));
                s.structs.insert(st.ident.to_string(), conv_fields(&st.fields));
            }
            Item::Type(t) => {
                s.aliases.insert(t.ident.to_string(), conv_ty(&t.ty));
            }
            _ => {}
        }
    }
    s
}

impl Schema {
    pub fn resolve(&self, t: &Ty) -> Ty {
        if let Ty::Named(n) = t {
            if let Some(a) = self.aliases.get(n) {
                return self.resolve(a);
            }
        }
        t.clone()
    }

    pub fn is_node(&self, t: &Ty) -> bool {
        matches!(t, Ty::Named(n) if NODE_TYPES.contains(&n.as_str()))
    }

    /// named types from which a node-typed position is reachable (least fixpoint)
    pub fn node_reaching(&self) -> BTreeSet<String> {
        let mut set: BTreeSet<String> = NODE_TYPES.iter().map(|s| s.to_string()).collect();
        loop {
            let mut changed = false;
            let mut names: Vec<String> = self.enums.keys().cloned().collect();
            names.extend(self.structs.keys().cloned());
            for n in names {
                if set.contains(&n) {
                    continue;
                }
                let tys: Vec<Ty> = if let Some(fs) = self.structs.get(&n) {
                    fs.iter().map(|f| f.1.clone()).collect()
                } else {
                    self.enums[&n].iter().flat_map(|v| v.1.iter().map(|f| f.1.clone())).collect()
                };
                if tys.iter().any(|t| self.ty_reaches(t, &set)) {
                    set.insert(n);
                    changed = true;
                }
            }
            if !changed {
                return set;
            }
        }
    }

    fn ty_reaches(&self, t: &Ty, set: &BTreeSet<String>) -> bool {
        match self.resolve(t) {
            Ty::Named(n) => set.contains(&n),
            Ty::Vec(e) | Ty::Opt(e) => self.ty_reaches(&e, set),
            Ty::Tuple(es) => es.iter().any(|e| self.ty_reaches(e, set)),
            Ty::Prim(_) => false,
        }
    }

    /// All paths from a value of type `t` down to node-typed positions, not passing through a node.
    /// `problems` receives a message if a recursive non-node type that can reach a node is met
    /// (the set of paths would then be infinite).
    pub fn edges_from(&self, t: &Ty, seen: &mut Vec<String>, reach: &BTreeSet<String>, problems: &mut Vec<String>) -> Vec<Path> {
        let t = self.resolve(t);
        if self.is_node(&t) {
            return vec![vec![]];
        }
        let pre = |step: Step, ps: Vec<Path>| -> Vec<Path> {
            ps.into_iter()
                .map(|mut p| {
                    p.insert(0, step.clone());
                    p
                })
                .collect()
        };
        match &t {
            Ty::Prim(_) => vec![],
            Ty::Vec(e) => pre(("Vec".into(), 0), self.edges_from(e, seen, reach, problems)),
            Ty::Opt(e) => pre(("Some".into(), 0), self.edges_from(e, seen, reach, problems)),
            Ty::Tuple(es) => es
                .iter()
                .enumerate()
                .flat_map(|(i, e)| pre(("Tuple".into(), i), self.edges_from(e, seen, reach, problems)))
                .collect(),
            Ty::Named(n) => {
                if seen.contains(n) {
                    if reach.contains(n) {
                        problems.push(format!("recursive non-node type {} reaches a node", n));
                    }
                    return vec![];
                }
                seen.push(n.clone());
                let mut out = vec![];
                if let Some(fs) = self.structs.get(n) {
                    for (i, (_, ft)) in fs.iter().enumerate() {
                        out.extend(pre((format!("S_{}", n), i), self.edges_from(ft, seen, reach, problems)));
                    }
                } else if let Some(vs) = self.enums.get(n) {
                    for (vn, fs) in vs {
                        for (i, (_, ft)) in fs.iter().enumerate() {
                            out.extend(pre((format!("{}_{}", n, vn), i), self.edges_from(ft, seen, reach, problems)));
                        }
                    }
                } else {
                    problems.push(format!("unknown type {}", n));
                }
                seen.pop();
                out
            }
        }
    }

    /// node-bearing edges of one variant of a node enum, in declaration order
    pub fn variant_edges(&self, en: &str, vn: &str, reach: &BTreeSet<String>, problems: &mut Vec<String>) -> Vec<Path> {
        let fs = &self.enums[en].iter().find(|(n, _)| n == vn).unwrap().1;
        let mut out = vec![];
        for (i, (_, ft)) in fs.iter().enumerate() {
            for mut p in self.edges_from(ft, &mut vec![], reach, problems) {
                p.insert(0, (format!("{}_{}", en, vn), i));
                out.push(p);
            }
        }
        out
    }

    pub fn source_unit_edges(&self, reach: &BTreeSet<String>, problems: &mut Vec<String>) -> Vec<Path> {
        let mut out = vec![];
        for (i, (_, ft)) in self.structs["SourceUnit"].iter().enumerate() {
            for mut p in self.edges_from(ft, &mut vec![], reach, problems) {
                p.insert(0, ("S_SourceUnit".into(), i));
                out.push(p);
            }
        }
        out
    }

    /// every tag of the generic tree, in a stable order
    pub fn all_tags(&self) -> Vec<String> {
        let mut tags = vec!["Vec".to_string(), "Some".into(), "None".into(), "Tuple".into()];
        for (is_enum, n) in &self.order {
            if *is_enum {
                for (vn, _) in &self.enums[n] {
                    tags.push(format!("{}_{}", n, vn));
                }
            } else {
                tags.push(format!("S_{}", n));
            }
        }
        tags
    }
}

pub fn lean_ty(s: &Schema, t: &Ty) -> String {
    match t {
        Ty::Named(n) => {
            if let Some(a) = s.aliases.get(n) {
                lean_ty(s, a)
            } else {
                format!("(.named \"{}\")", n)
            }
        }
        Ty::Vec(e) => format!("(.vec {})", lean_ty(s, e)),
        Ty::Opt(e) => format!("(.opt {})", lean_ty(s, e)),
        Ty::Tuple(es) => format!("(.tuple [{}])", es.iter().map(|e| lean_ty(s, e)).collect::<Vec<_>>().join(", ")),
        Ty::Prim(p) => match p.as_str() {
            "String" => "(.str)".into(),
            "bool" => "(.bool)".into(),
            _ => "(.num)".into(),
        },
    }
}

pub fn lean_path(p: &Path) -> String {
    format!(
        "[{}]",
        p.iter().map(|(t, i)| format!("(Tag.{}, {})", t, i)).collect::<Vec<_>>().join(", ")
    )
}
