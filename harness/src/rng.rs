//! splitmix64: every random choice of the harness derives from one seed.
#[derive(Clone)]
pub struct Rng(pub u64);

impl Rng {
    pub fn new(seed: u64) -> Rng {
        Rng(seed ^ 0x9E37_79B9_7F4A_7C15)
    }
    pub fn next(&mut self) -> u64 {
        self.0 = self.0.wrapping_add(0x9E37_79B9_7F4A_7C15);
        let mut z = self.0;
        z = (z ^ (z >> 30)).wrapping_mul(0xBF58_476D_1CE4_E5B9);
        z = (z ^ (z >> 27)).wrapping_mul(0x94D0_49BB_1331_11EB);
        z ^ (z >> 31)
    }
    /// uniform in 0..n (n > 0)
    pub fn below(&mut self, n: usize) -> usize {
        (self.next() % (n as u64)) as usize
    }
    pub fn chance(&mut self, num: usize, den: usize) -> bool {
        self.below(den) < num
    }
    pub fn pick<'a, T>(&mut self, xs: &'a [T]) -> &'a T {
        &xs[self.below(xs.len())]
    }
    pub fn shuffle<T>(&mut self, xs: &mut Vec<T>) {
        for i in (1..xs.len()).rev() {
            let j = self.below(i + 1);
            xs.swap(i, j);
        }
    }
    pub fn fork(&mut self) -> Rng {
        Rng(self.next())
    }
}
