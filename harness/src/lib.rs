//! Shared pieces of the verification harness: schema of solang-parser's `pt.rs`,
//! a tiny PRNG, hex helpers.
pub mod schema;
pub mod rng;
pub mod gen;
pub mod real;

pub fn hex(bytes: &[u8]) -> String {
    let mut s = String::with_capacity(bytes.len() * 2);
    for b in bytes {
        s.push_str(&format!("{:02x}", b));
    }
    s
}

pub fn unhex(s: &str) -> Vec<u8> {
    (0..s.len() / 2)
        .map(|i| u8::from_str_radix(&s[2 * i..2 * i + 2], 16).unwrap())
        .collect()
}

/// Locate the sources of the solang-parser version locked in /repo/Cargo.lock.
pub fn solang_src_dir(repo: &str) -> String {
    let lock = std::fs::read_to_string(format!("{}/Cargo.lock", repo)).expect("Cargo.lock");
    let mut ver = None;
    let mut lines = lock.lines();
    while let Some(l) = lines.next() {
        if l.trim() == "name = \"solang-parser\"" {
            if let Some(v) = lines.next() {
                ver = Some(v.trim().trim_start_matches("version = ").trim_matches('"').to_string());
            }
        }
    }
    let ver = ver.expect("solang-parser not in Cargo.lock");
    let home = std::env::var("CARGO_HOME").unwrap_or_else(|_| format!("{}/.cargo", std::env::var("HOME").unwrap()));
    let reg = format!("{}/registry/src", home);
    for e in std::fs::read_dir(&reg).expect("cargo registry") {
        let p = e.unwrap().path().join(format!("solang-parser-{}", ver));
        if p.exists() {
            return p.to_str().unwrap().to_string();
        }
    }
    panic!("solang-parser-{} sources not found", ver)
}
