//! File-level observations: detectors and per-file entry points on corpus + generated files,
//! token-preserving re-layouts (C17), item-wise blanking (C19), and replay of recorded requests.
use super::{dbg_oneline, Ctx};
use solang_parser::pt;
use solstat_verif_harness::gen::{self, Cfg};
use solstat_verif_harness::real;
use solstat_verif_harness::rng::Rng;
use solstat_verif_harness::{hex, unhex};
use std::panic::{catch_unwind, AssertUnwindSafe};

fn sol_files(dir: &std::path::Path, out: &mut Vec<std::path::PathBuf>) {
    if let Ok(rd) = std::fs::read_dir(dir) {
        let mut es: Vec<_> = rd.filter_map(|e| e.ok()).map(|e| e.path()).collect();
        es.sort();
        for p in es {
            if p.is_dir() {
                sol_files(&p, out);
            } else if p.extension().map(|e| e == "sol").unwrap_or(false) {
                out.push(p);
            }
        }
    }
}

/// Solidity literals of /repo's own unit tests (follows the tree: read with syn on every run)
fn test_literals(repo: &str) -> Vec<(String, String)> {
    use syn::visit::Visit;
    struct V {
        out: Vec<String>,
    }
    impl<'ast> Visit<'ast> for V {
        fn visit_lit_str(&mut self, l: &'ast syn::LitStr) {
            let v = l.value();
            if v.len() > 30 && (v.contains("contract") || v.contains("pragma")) {
                self.out.push(v);
            }
        }
    }
    let mut res = vec![];
    let mut files = vec![];
    fn rs(dir: &std::path::Path, out: &mut Vec<std::path::PathBuf>) {
        if let Ok(rd) = std::fs::read_dir(dir) {
            let mut es: Vec<_> = rd.filter_map(|e| e.ok()).map(|e| e.path()).collect();
            es.sort();
            for p in es {
                if p.is_dir() {
                    rs(&p, out);
                } else if p.extension().map(|e| e == "rs").unwrap_or(false) {
                    out.push(p);
                }
            }
        }
    }
    rs(std::path::Path::new(&format!("{}/src/analyzer", repo)), &mut files);
    for p in files {
        if let Ok(src) = std::fs::read_to_string(&p) {
            if let Ok(f) = syn::parse_file(&src) {
                for it in &f.items {
                    if let syn::Item::Fn(func) = it {
                        if func.attrs.iter().any(|a| a.path.is_ident("test")) {
                            let mut v = V { out: vec![] };
                            v.visit_item_fn(func);
                            for (i, s) in v.out.into_iter().enumerate() {
                                res.push((format!("test:{}:{}:{}", p.file_name().unwrap().to_str().unwrap(), func.sig.ident, i), s));
                            }
                        }
                    }
                }
            }
        }
    }
    res
}

pub fn file_set(ctx: &mut Ctx, rng: &mut Rng, n_random: usize, cfg_proto: Cfg) -> Vec<(String, String)> {
    let mut out = vec![];
    let mut paths = vec![];
    sol_files(std::path::Path::new(&ctx.corpus), &mut paths);
    for p in paths {
        if let Ok(s) = std::fs::read_to_string(&p) {
            out.push((format!("corpus:{}", p.strip_prefix(&ctx.corpus).unwrap().display()), s));
        }
    }
    ctx.count("corpus_files", out.len() as u64);
    let tl = test_literals(&ctx.repo);
    ctx.count("test_literals", tl.len() as u64);
    out.extend(tl);
    for k in 0..n_random {
        let seed = rng.next();
        let cfg = Cfg {
            max_depth: 2 + (k % 3),
            snippet_pct: [20, 35, 55][k % 3],
            with_pragma: k % 11 != 0 || cfg_proto.with_pragma && k % 22 != 0,
            allow_free_functions: cfg_proto.allow_free_functions,
            allow_assembly: cfg_proto.allow_assembly,
            unique_state_names: cfg_proto.unique_state_names || k % 2 == 0,
            max_items: cfg_proto.max_items,
        };
        out.push((format!("gen:{}", seed), gen::random_file(seed, cfg)));
        // every third slot additionally gets a scenario file (plausible contracts for the table-based detectors)
        if k % 3 == 0 {
            let s2 = rng.next();
            out.push((format!("scn:{}", s2), gen::scenario_file(s2)));
        }
    }
    ctx.count("generated_files", n_random as u64);
    out
}

pub fn emit_file(ctx: &mut Ctx, id: &str, src: &str, file_no: usize) -> Option<pt::SourceUnit> {
    match solang_parser::parse(src, file_no) {
        Ok((su, _)) => {
            ctx.line(&["FILE", id, &hex(src.as_bytes()), &dbg_oneline(&su)]);
            Some(su)
        }
        Err(_) => {
            ctx.count("rejected_by_parser", 1);
            None
        }
    }
}

fn emit_dets(ctx: &mut Ctx, id: &str, su: &pt::SourceUnit, filter: &[String]) {
    for (name, d) in real::detectors() {
        if !filter.is_empty() && !filter.iter().any(|f| name.contains(f.as_str())) {
            continue;
        }
        let r = real::run_detector(&d, su);
        if r.is_none() {
            ctx.count("impl_panics", 1);
        } else if !r.as_ref().unwrap().is_empty() {
            ctx.count(&format!("hit:{}", name), 1);
        }
        ctx.line(&["DET", id, name, &real::fmt_locs(&r)]);
    }
}

fn emit_lines(ctx: &mut Ctx, id: &str, src: &str, file_no: usize, filter: &[String]) {
    let cats: Vec<(&str, Vec<&'static str>)> = vec![
        ("opt", real::optimizations().into_iter().map(|x| x.0).collect()),
        ("vuln", real::vulnerabilities().into_iter().map(|x| x.0).collect()),
        ("qa", real::qas().into_iter().map(|x| x.0).collect()),
    ];
    for (cat, vs) in cats {
        for v in vs {
            if !filter.is_empty() && !filter.iter().any(|f| v.to_lowercase().contains(&f.replace('_', "").to_lowercase())) {
                continue;
            }
            let r = real::run_lines(cat, v, src, file_no);
            ctx.line(&["LINES", id, cat, v, &file_no.to_string(), &real::fmt_lines(&r)]);
        }
    }
}

/// `det [--nolines] [--hostile] [--n N] [filters...]`
pub fn det_requests(ctx: &mut Ctx, rng: &mut Rng, extra: &[String]) {
    let mut filters: Vec<String> = vec![];
    let mut lines = true;
    let mut hostile = false;
    let mut n = if ctx.thorough { 4000 } else { 300 };
    let mut i = 0;
    while i < extra.len() {
        match extra[i].as_str() {
            "--nolines" => lines = false,
            "--hostile" => hostile = true,
            "--n" => {
                n = extra[i + 1].parse().unwrap();
                i += 1;
            }
            f => filters.push(f.to_string()),
        }
        i += 1;
    }
    let mut fs = file_set(ctx, rng, n, Cfg::default());
    if hostile {
        fs.extend(hostile_files(rng));
    }
    for (k, (name, src0)) in fs.iter().enumerate() {
        let id = format!("f{}:{}", k, name);
        let file_no = if k % 5 == 4 { 1 + rng.below(9) } else { 0 };
        // line-end layouts (C02): CRLF, no final line feed, a multi-byte comment line first
        let laid_out = match k % 6 {
            1 => src0.replace("\r\n", "\n").replace('\n', "\r\n"),
            2 => src0.trim_end_matches(|c| c == '\n' || c == '\r').to_string(),
            3 => format!("// \u{8a08}\u{6570}\u{5668} \u{2014} \u{e9}\u{1F600}\r\n{}", src0),
            // constructs that span several lines: the same tokens with random line breaks and comments between them
            4 => relayout(src0, rng, false).map(|x| x.0).unwrap_or_else(|| src0.clone()),
            _ => src0.clone(),
        };
        let src = &laid_out;
        if let Some(su) = emit_file(ctx, &id, src, file_no) {
            emit_dets(ctx, &id, &su, &filters);
            if lines {
                emit_lines(ctx, &id, src, file_no, &filters);
            }
        }
    }
}

/// inputs aimed at totality (C04): no pragma, free functions, huge literals, odd pragmas, many functions
pub fn hostile_files(rng: &mut Rng) -> Vec<(String, String)> {
    let mut v: Vec<(String, String)> = vec![];
    let mut add = |n: &str, s: String| v.push((format!("hostile:{}", n), s));
    add("no_pragma", "contract C { function f(uint a) public { require(a > 0, \"x\"); a.add(1); } }".into());
    add("free_fn", "pragma solidity 0.8.0;\nfunction helper(uint a) pure returns (uint) { return a * 2; }\ncontract C { constructor() {} }".into());
    add("free_fn_only", "function _x() {}".into());
    add("huge_literal", "pragma solidity 0.8.0;\ncontract C { function f(uint a) public { a = a * 4294967296; a = a / 115792089237316195423570985008687907853269984665640564039457584007913129639936; a = 99999999999999999999 * a; } }".into());
    add("exp_literal", "pragma solidity 0.8.0;\ncontract C { function f(uint a) public { a = a * 2e3; a = a * 1e-1; a = a / 2e0; a = a * 0; a = a * 0x10; a = a * 1_0; } }".into());
    add("address_noargs", "pragma solidity 0.8.0;\ncontract C { function f(address a) public { if (a == address()) {} if (address() != a) {} } }".into());
    for p in ["0.8.99999999999", "0.8..4", "^0.8.4 || 0.7.0", ">=0.5.0 <0.9.0", "*", "0.8", "", "v0.8.4", "0.\u{0668}.4", "2147483648.0.0", "0.8.4.5", "^ 0.8 .4"] {
        add(&format!("pragma:{}", p), format!("pragma solidity {};\ncontract C {{ using SafeMath for uint; function f(uint a) public {{ require(a > 0, \"0123456789012345678901234567890123\"); a.add(1); }} }}", p));
    }
    add("abicoder_first", "pragma abicoder v2;\npragma solidity 0.8.4;\ncontract C { using SafeMath for uint; function f(uint a) public { require(a > 0, \"x\"); a.add(1); } }".into());
    add("experimental_only", "pragma experimental ABIEncoderV2;\ncontract C { function f(uint a) public { require(a > 0, \"x\"); } }".into());
    for n in [255usize, 256, 257, 300, 513] {
        let mut s = String::from("pragma solidity 0.8.0;\ncontract C {\n");
        for i in 0..n {
            s.push_str(&format!("  function f{}() public {{}}\n", i));
        }
        s.push_str("  constructor() {}\n}\n");
        add(&format!("many_functions:{}", n), s);
    }
    add("require_noargs", "pragma solidity 0.8.4;\ncontract C { function f() public { require(); keccak256(); selfdestruct(); x.transfer(); } }".into());
    add("empty", "".into());
    add("only_semicolons", ";;;".into());
    add("empty_contract", "pragma solidity ^0.8.0;\ncontract C {}".into());
    add("interface_ctor", "pragma solidity 0.8.0;\ninterface I { function f(uint[] memory a) external; }\nabstract contract A { constructor(uint[] memory a); function g() public virtual; }".into());
    add("unnamed_fn", "pragma solidity 0.4.0;\ncontract C { function() public payable {} function () external; }".into());
    add("struct_empty", "pragma solidity 0.8.0;\nstruct S { }\ncontract C { struct T { } }".into());
    // deep nesting up to 64
    let mut deep = String::from("pragma solidity 0.8.0;\ncontract C { function f(uint a) public { a = ");
    for _ in 0..60 {
        deep.push('(');
    }
    deep.push_str("a >= 1");
    for _ in 0..60 {
        deep.push(')');
    }
    deep.push_str("; } }");
    add("deep_parens", deep);
    let mut deep2 = String::from("pragma solidity 0.8.0;\ncontract C { function f(uint a) public { ");
    for _ in 0..60 {
        deep2.push_str("if (a >= 1) { ");
    }
    deep2.push_str("a++;");
    for _ in 0..60 {
        deep2.push_str(" }");
    }
    deep2.push_str(" } }");
    add("deep_ifs", deep2);
    for k in 0..40 {
        // random files without pragma, with free functions
        let seed = rng.next();
        let cfg = Cfg { with_pragma: k % 2 == 0, max_depth: 3, snippet_pct: 50, ..Cfg::default() };
        add(&format!("gen:{}", seed), gen::random_file(seed, cfg));
    }
    v
}

// ------------------------------------------------------------------------------------------ C10
/// Every sequence (length 2..=4, thorough 5) over seven member types of distinct sizes, once as the state
/// variables of a contract and once as the members of a struct: the real packing detectors on the real parse.
pub fn pack_requests(ctx: &mut Ctx) {
    let tys = ["bool", "uint16", "uint96", "uint128", "address", "uint248", "uint256"];
    let maxlen = if ctx.thorough { 5 } else { 4 };
    let mut seqs: Vec<Vec<usize>> = vec![];
    let mut frontier: Vec<Vec<usize>> = vec![vec![]];
    for len in 1..=maxlen {
        let mut next = vec![];
        for s in &frontier {
            for t in 0..tys.len() {
                let mut u = s.clone();
                u.push(t);
                next.push(u);
            }
        }
        if len >= 2 {
            seqs.extend(next.iter().cloned());
        }
        frontier = next;
    }
    ctx.count("pack_exhaustive_layouts", seqs.len() as u64);
    let filter = vec!["pack_".to_string()];
    for (k, s) in seqs.iter().enumerate() {
        let members: String = s.iter().enumerate().map(|(i, t)| format!("  {} m{};\n", tys[*t], i)).collect();
        let fields: String = s.iter().enumerate().map(|(i, t)| format!("    {} f{};\n", tys[*t], i)).collect();
        let src = format!("pragma solidity 0.8.17;\ncontract C {{\n{}  struct S {{\n{}  }}\n}}\n", members, fields);
        let id = format!("pack{}", k);
        if let Some(su) = emit_file(ctx, &id, &src, 0) {
            emit_dets(ctx, &id, &su, &filter);
        }
    }
    // members of every other kind of type (each a full slot by the rule), mixed with small ones, longer sequences
    let wide = [
        "bool", "uint8", "uint128", "address", "address payable", "bytes4", "bytes16", "bytes32", "int64", "uint256", "uint",
        "mapping(address => uint256)", "mapping(address => mapping(uint256 => bool))", "string", "bytes", "uint256[]", "uint8[4]", "Other", "IThing",
        "function (uint256) external returns (bool)", "uint128[2][]",
    ];
    let mut rng = Rng::new(ctx.seed ^ 0x9ac4_0000);
    let n = if ctx.thorough { 4000 } else { 500 };
    for k in 0..n {
        let len = 2 + rng.below(7);
        let seq: Vec<&str> = (0..len).map(|_| wide[rng.below(wide.len())]).collect();
        let members: String = seq.iter().enumerate().map(|(i, t)| format!("  {} m{};\n", t, i)).collect();
        let fields: String = seq.iter().enumerate().map(|(i, t)| format!("    {} f{};\n", t, i)).collect();
        let holder = ["contract", "abstract contract", "library"][rng.below(3)];
        let src = format!(
            "pragma solidity 0.8.17;\ninterface IThing {{ }}\n{} C {{\n  struct Other {{ uint8 a; }}\n{}  struct S {{\n{}  }}\n}}\n",
            holder, members, fields
        );
        let id = format!("packw{}", k);
        if let Some(su) = emit_file(ctx, &id, &src, 0) {
            emit_dets(ctx, &id, &su, &filter);
        }
    }
    ctx.count("pack_wide_type_layouts", n as u64);
}

// ------------------------------------------------------------------------------------------ C17
fn tokens(src: &str) -> Option<Vec<(usize, usize)>> {
    let mut comments = vec![];
    let lex = solang_parser::lexer::Lexer::new(src, 0, &mut comments);
    let mut out = vec![];
    for item in lex {
        match item {
            Ok((s, _t, e)) => out.push((s, e)),
            Err(_) => return None,
        }
    }
    Some(out)
}

fn trivia(rng: &mut Rng) -> String {
    let pool = [
        " ", " ", " ", "  ", "\n", "\n", "\r\n", "\t", "\n\n", " /* c */ ", " /**/ ", " // line\n", " /* x >= y; i++; require(a && b) */ ", "\n// address(this).balance\n",
        " /* \u{e9}\u{1F600} */ ", "\n\n\n", " /* multi\n line\n */ ", "\r\n\r\n", " /*** doc-ish */ ", "\n/// natspec a * 2\n",
    ];
    pool[rng.below(pool.len())].to_string()
}

pub fn relayout(src: &str, rng: &mut Rng, minimal: bool) -> Option<(String, Vec<(usize, usize)>, Vec<(usize, usize)>)> {
    let toks = tokens(src)?;
    let mut out = String::new();
    let mut new_toks = vec![];
    if !minimal && rng.chance(1, 2) {
        out.push_str(&trivia(rng));
    }
    let mut i = 0;
    while i < toks.len() {
        let (s, e) = toks[i];
        if &src[s..e] == "pragma" {
            // a pragma directive is copied verbatim up to its `;`: its value is one token that runs to the
            // semicolon, so trivia inside it would change the value, not only the layout
            let mut j = i;
            while j < toks.len() && &src[toks[j].0..toks[j].1] != ";" {
                j += 1;
            }
            let j = j.min(toks.len() - 1);
            let base = out.len();
            out.push_str(&src[s..toks[j].1]);
            for k in i..=j {
                new_toks.push((base + toks[k].0 - s, base + toks[k].1 - s));
            }
            i = j + 1;
        } else {
            let start = out.len();
            out.push_str(&src[s..e]);
            new_toks.push((start, out.len()));
            i += 1;
        }
        if minimal {
            out.push(' ');
        } else {
            let k = 1 + rng.below(2);
            for _ in 0..k {
                out.push_str(&trivia(rng));
            }
        }
    }
    if !minimal && rng.chance(1, 3) {
        // no trailing newline / trivia at all after the last token
        if let Some((_, e)) = new_toks.last() {
            out.truncate(*e);
        }
    }
    Some((out, toks, new_toks))
}

/// The same file with the content of every string literal replaced by code-like text of the same byte length
/// (so every token keeps its offsets): no detector may react to what is written inside a string.
pub fn restring(src: &str) -> Option<(String, usize)> {
    let toks = tokens(src)?;
    let filler = "x.balance==0;i++;require(a&&b,c);selfdestruct(a);a=a+1;tx.origin;";
    let mut out = src.as_bytes().to_vec();
    let mut n = 0;
    let mut in_directive = false;
    for (s, e) in toks {
        let t = &src[s..e];
        if t == "pragma" || t == "import" {
            in_directive = true;
        }
        if t == ";" {
            in_directive = false;
        }
        let q = if t.starts_with("unicode") { 7 } else { 0 };
        let body = &t[q..];
        if !in_directive && body.len() >= 2 && (body.starts_with('"') || body.starts_with('\'')) {
            for (k, i) in ((s + q + 1)..(e - 1)).enumerate() {
                out[i] = filler.as_bytes()[k % filler.len()];
            }
            n += 1;
        }
    }
    String::from_utf8(out).ok().map(|s| (s, n))
}

pub fn relayout_requests(ctx: &mut Ctx, rng: &mut Rng) {
    let n = if ctx.thorough { 1500 } else { 120 };
    let fs = file_set(ctx, rng, n, Cfg { allow_assembly: true, ..Cfg::default() });
    for (k, (name, src0)) in fs.iter().enumerate() {
        // base layout: every token separated from the next by one space, so that token starts and token
        // ends are disjoint sets of offsets (a location's end can be the start of the following token)
        let src_owned = match relayout(src0, rng, true) {
            Some((s, _, _)) => s,
            None => {
                ctx.count("relayout_lex_failed", 1);
                continue;
            }
        };
        let src = &src_owned;
        let id1 = format!("a{}:{}", k, name);
        let su1 = match emit_file(ctx, &id1, src, 0) {
            Some(s) => s,
            None => continue,
        };
        if let Some((src3, nlit)) = restring(src) {
            if nlit > 0 {
                let id3 = format!("s{}:{}", k, name);
                match emit_file(ctx, &id3, &src3, 0) {
                    Some(su3) => {
                        ctx.count("restring_files", 1);
                        ctx.count("restring_literals", nlit as u64);
                        for (dname, d) in real::detectors() {
                            let r1 = real::run_detector(&d, &su1);
                            let r3 = real::run_detector(&d, &su3);
                            ctx.line(&["STRLIT", &id1, &id3, dname, &real::fmt_locs(&r1), &real::fmt_locs(&r3)]);
                        }
                    }
                    None => ctx.count("restring_rejected", 1),
                }
            }
        }
        let reps = if ctx.thorough { 3 } else { 2 };
        for r in 0..reps {
            let (src2, toks1, toks2) = match relayout(src, rng, false) {
                Some(x) => x,
                None => {
                    ctx.count("relayout_lex_failed", 1);
                    continue;
                }
            };
            let id2 = format!("b{}.{}:{}", k, r, name);
            let su2 = match emit_file(ctx, &id2, &src2, 0) {
                Some(s) => s,
                None => {
                    ctx.count("relayout_rejected", 1);
                    continue;
                }
            };
            let tm: Vec<String> = toks1.iter().zip(toks2.iter()).map(|(a, b)| format!("{}:{}>{}:{}", a.0, a.1, b.0, b.1)).collect();
            ctx.line(&["TOKMAP", &id1, &id2, &tm.join(";")]);
            for (dname, d) in real::detectors() {
                let r1 = real::run_detector(&d, &su1);
                let r2 = real::run_detector(&d, &su2);
                ctx.line(&["RELAY", &id1, &id2, dname, &real::fmt_locs(&r1), &real::fmt_locs(&r2)]);
            }
            // the reported lines of the re-laid-out file (C02 oracle applies to them as to any file)
            emit_dets(ctx, &id2, &su2, &[]);
            super::files::emit_lines_pub(ctx, &id2, &src2, 0);
        }
    }
    pragma_space_requests(ctx, rng);
}

/// White space between the tokens of a `pragma solidity` value (`^0.7.6||^0.8.4` / `^0.7.6 || ^0.8.4`, a tab or a line
/// break between the bounds of a range).  solang lexes the whole value as one token, so this is not covered by
/// `relayout`; in Solidity's own grammar the operators and versions are separate tokens and the layout between
/// them is free.  Two spacings of the same constraint list, everything else byte-identical: every detector must flag
/// the same constructs (offsets after the pragma shift by the difference in length).
pub fn pragma_space_requests(ctx: &mut Ctx, rng: &mut Rng) {
    let pool: [&[&str]; 12] = [
        &["^", "0.7.6", "||", "^", "0.8.4"], &[">=", "0.7.0", "<", "0.8.5"], &[">=", "0.8.4", "||", "0.7.6"], &["^", "0.8.3", "||", "^", "0.7.0", "||", ">=", "0.8.4"],
        &[">", "0.7.99", "<=", "0.8.3"], &["~", "0.8.0"], &["=", "0.8.4"], &["^", "0.8.0"], &[">=", "0.8.0", "<", "0.7.9"], &["0.8.3", "||", "0.8.4"],
        &[">=", "0.6.0", "<", "0.8.0", "||", "^", "0.8.4"], &["<", "0.8.4", ">", "0.7.0"],
    ];
    let is_version = |t: &str| t.chars().next().map_or(false, |c| c.is_ascii_digit());
    let n = if ctx.thorough { 400 } else { 60 };
    let mut done = 0;
    let mut attempts = 0;
    while done < n && attempts < 20 * n {
        attempts += 1;
        let body = gen::scenario_file(rng.next());
        // the scenario file's own pragma line is replaced
        let rest: String = match body.find('\n') {
            Some(p) if body.starts_with("pragma solidity") => body[p..].to_string(),
            _ => continue,
        };
        let toks = pool[rng.below(pool.len())];
        let space = |rng: &mut Rng, dense: bool| -> String {
            let mut v = String::new();
            for (i, t) in toks.iter().enumerate() {
                if i > 0 {
                    let need = is_version(toks[i - 1]) && *t != "||";
                    let opts: &[&str] = if need { &[" ", "  ", "\t", "\n", " \t "] } else if dense { &["", "", " "] } else { &["", " ", "  ", "\t", "\n"] };
                    v.push_str(opts[rng.below(opts.len())]);
                }
                v.push_str(t);
            }
            v
        };
        let va = { let mut v = String::new(); for (i, t) in toks.iter().enumerate() { if i > 0 && (is_version(toks[i - 1]) || *t == "||" || toks[i - 1] == "||") { v.push(' '); } v.push_str(t); } v };
        let dense = rng.chance(1, 2);
        let vb = space(rng, dense);
        if va == vb {
            continue;
        }
        let head = "pragma solidity ";
        let a = format!("{}{};{}", head, va, rest);
        let b = format!("{}{};{}", head, vb, rest);
        let ida = format!("pa{}", done);
        let idb = format!("pb{}", done);
        let (sua, sub) = match (solang_parser::parse(&a, 0), solang_parser::parse(&b, 0)) {
            (Ok((x, _)), Ok((y, _))) => (x, y),
            _ => {
                ctx.count("pragma_space_rejected", 1);
                continue;
            }
        };
        emit_file(ctx, &ida, &a, 0);
        emit_file(ctx, &idb, &b, 0);
        for (dname, d) in real::detectors() {
            let r1 = real::run_detector(&d, &sua);
            let r2 = real::run_detector(&d, &sub);
            ctx.line(&["PRAGMASP", &ida, &idb, dname, &real::fmt_locs(&r1), &real::fmt_locs(&r2), &head.len().to_string(), &va.len().to_string(), &vb.len().to_string()]);
        }
        done += 1;
    }
    ctx.count("pragma_space_pairs", done as u64);
}

pub fn emit_lines_pub(ctx: &mut Ctx, id: &str, src: &str, file_no: usize) {
    emit_lines(ctx, id, src, file_no, &[]);
}

// ------------------------------------------------------------------------------------------ C19
fn part_loc(p: &pt::SourceUnitPart) -> (usize, usize) {
    let l = p.loc();
    (l.start(), l.end())
}

/// end of a top-level item in the text: function definitions' `loc` covers the header only, so extend to
/// the start of the next item (or the end of file)
pub fn compose_requests(ctx: &mut Ctx, rng: &mut Rng) {
    let n = if ctx.thorough { 2500 } else { 200 };
    let fs = file_set(ctx, rng, n, Cfg { unique_state_names: true, max_items: 5, ..Cfg::default() });
    for (k, (name, src0)) in fs.iter().enumerate() {
        // every fourth file: multi-byte text inside the first item's extent and between items (byte offsets and character
        // offsets then differ from there on, and differently in the whole file and in the blanked copies)
        let src_owned: String = if k % 4 == 1 {
            match solang_parser::parse(src0, 0) {
                Ok((su0, _)) if su0.0.len() >= 2 => {
                    let at = part_loc(&su0.0[su0.0.len() - 1]).0;
                    format!("{}/* \u{e9}\u{e9}\u{e9}\u{e9}\u{e9}\u{e9}\u{e9}\u{e9}\u{e9}\u{e9}\u{e9}\u{e9}\u{e9}\u{e9}\u{e9}\u{e9}\u{e9}\u{e9}\u{e9}\u{e9}\u{e9}\u{e9}\u{e9}\u{e9}\u{e9}\u{e9}\u{e9}\u{e9}\u{e9}\u{e9} \u{1F600}\u{1F600}\u{1F600}\u{1F600}\u{1F600}\u{1F600}\u{1F600}\u{1F600}\u{1F600}\u{1F600}\u{1F600}\u{1F600} */ {}", &src0[..at], &src0[at..])
                }
                _ => src0.clone(),
            }
        } else {
            src0.clone()
        };
        let src = &src_owned;
        let su = match solang_parser::parse(src, 0) {
            Ok((su, _)) => su,
            Err(_) => continue,
        };
        let items: Vec<usize> = su.0.iter().enumerate().filter(|(_, p)| !matches!(p, pt::SourceUnitPart::PragmaDirective(..))).map(|(i, _)| i).collect();
        if items.len() < 2 {
            ctx.count("compose_skipped_single_item", 1);
            continue;
        }
        if items.len() > 12 {
            // the driver keeps a bounded table of files; a file with very many items is cut to its first twelve
            ctx.count("compose_skipped_more_than_12_items", 1);
            continue;
        }
        let idw = format!("w{}:{}", k, name);
        emit_file(ctx, &idw, src, 0);
        let starts: Vec<usize> = su.0.iter().map(|p| part_loc(p).0).collect();
        let mut part_ids = vec![];
        let mut part_sus = vec![];
        let mut part_srcs: Vec<String> = vec![];
        let mut ok = true;
        for &i in &items {
            // blank every non-pragma item other than i: bytes -> spaces, line feeds kept
            let mut bytes = src.as_bytes().to_vec();
            for &j in &items {
                if j == i {
                    continue;
                }
                let s = starts[j];
                let e = if j + 1 < starts.len() { starts[j + 1] } else { bytes.len() };
                for b in &mut bytes[s..e] {
                    if *b != b'\n' && *b != b'\r' {
                        *b = b' ';
                    }
                }
            }
            let s2 = match String::from_utf8(bytes) {
                Ok(s) => s,
                Err(_) => {
                    ok = false;
                    break;
                }
            };
            let idp = format!("p{}.{}:{}", k, i, name);
            match emit_file(ctx, &idp, &s2, 0) {
                Some(sup) => {
                    part_ids.push(format!("{}={}", i, idp));
                    part_sus.push(sup);
                    part_srcs.push(s2.clone());
                }
                None => {
                    ctx.count("compose_part_rejected", 1);
                    ok = false;
                    break;
                }
            }
        }
        if !ok {
            continue;
        }
        for (dname, d) in real::detectors() {
            let rw = real::run_detector(&d, &su);
            let rp: Vec<String> = part_sus.iter().map(|p| real::fmt_locs(&real::run_detector(&d, p))).collect();
            ctx.line(&["COMPOSE", &idw, &part_ids.join(","), dname, &real::fmt_locs(&rw), &rp.join("|")]);
        }
        // the same comparison on the LINES the per-file entry points report (the property speaks of lines)
        let cats: Vec<(&str, Vec<&'static str>)> = vec![
            ("opt", real::optimizations().into_iter().map(|x| x.0).collect()),
            ("vuln", real::vulnerabilities().into_iter().map(|x| x.0).collect()),
            ("qa", real::qas().into_iter().map(|x| x.0).collect()),
        ];
        for (cat, vs) in cats {
            for v in vs {
                let lw = real::fmt_lines(&real::run_lines(cat, v, src, 0));
                let lp: Vec<String> = part_srcs.iter().map(|p| real::fmt_lines(&real::run_lines(cat, v, p, 0))).collect();
                ctx.line(&["COMPOSELINES", &idw, &part_ids.join(","), cat, v, &lw, &lp.join("|")]);
            }
        }
    }
}

// ------------------------------------------------------------------------------------------ replay
pub fn replay(ctx: &mut Ctx, path: &str) {
    let text = std::fs::read_to_string(path).expect("replay file");
    let mut files: std::collections::BTreeMap<String, (String, pt::SourceUnit)> = Default::default();
    for l in text.lines() {
        let f: Vec<&str> = l.split('\t').collect();
        match f[0] {
            "FILE" => {
                let src = String::from_utf8(unhex(f[2])).unwrap();
                // file number as recorded in the tree text
                let file_no = f[3].find("File(").and_then(|p| f[3][p + 5..].split(',').next().and_then(|x| x.trim().parse().ok())).unwrap_or(0);
                if let Some(su) = emit_file(ctx, f[1], &src, file_no) {
                    files.insert(f[1].to_string(), (src, su));
                }
            }
            "DET" => {
                if let (Some((_, su)), Some((_, d))) = (files.get(f[1]), real::detectors().into_iter().find(|d| d.0 == f[2])) {
                    let r = real::run_detector(&d, su);
                    ctx.line(&["DET", f[1], f[2], &real::fmt_locs(&r)]);
                }
            }
            "LINES" => {
                if let Some((src, _)) = files.get(f[1]) {
                    let file_no: usize = f[4].parse().unwrap_or(0);
                    let r = real::run_lines(f[2], f[3], src, file_no);
                    ctx.line(&["LINES", f[1], f[2], f[3], f[4], &real::fmt_lines(&r)]);
                }
            }
            "LINE" => {
                let t = String::from_utf8(unhex(f[1])).unwrap();
                let off: usize = f[2].parse().unwrap();
                let r = catch_unwind(AssertUnwindSafe(move || solstat::analyzer::utils::get_line_number(off, &t)));
                ctx.line(&["LINE", f[1], f[2], &r.map(|v| v.to_string()).unwrap_or_else(|_| "PANIC".into())]);
            }
            "SLOTS" => {
                let v: Vec<u16> = f[1].split(',').filter(|x| !x.is_empty()).map(|x| x.parse().unwrap()).collect();
                let r = catch_unwind(AssertUnwindSafe(move || real::call_slots(solstat::analyzer::utils::storage_slots_used, v)));
                ctx.line(&["SLOTS", f[1], &r.unwrap_or_else(|_| "PANIC".into())]);
            }
            "VER" => {
                let v = String::from_utf8(unhex(f[1])).unwrap();
                let r = catch_unwind(AssertUnwindSafe(move || solstat::analyzer::utils::get_solidity_major_minor_patch_version(&v).join("|")));
                ctx.line(&["VER", f[1], &r.unwrap_or_else(|_| "PANIC".into())]);
            }
            _ => {
                // other request kinds are replayed by re-running their family with the recorded seed
                ctx.count("replay_unsupported_line", 1);
            }
        }
    }
}
