//! Directory-level observations (C03, C15, C16): real directory trees, the three real `analyze_dir`.
//!
//! A tree is created under a scratch root outside /repo and /verif, listed with `read_dir` (the
//! order the implementation will see), analysed by the real code, and removed.  The per-file
//! analysis is observed separately (`analyze_for_*` on each eligible file) and handed to the Lean
//! model as a table: the model of `analyze_dir` is parametric in it.
use super::Ctx;
use solstat::analyzer::{optimizations, qa, vulnerabilities};
use solstat_verif_harness::gen::{self, Cfg};
use solstat_verif_harness::hex;
use solstat_verif_harness::real;
use solstat_verif_harness::rng::Rng;
use std::collections::BTreeMap;
use std::panic::{catch_unwind, AssertUnwindSafe};
use std::path::{Path, PathBuf};

const ELIGIBLE_NAMES: [&str; 16] = [
    "\u{1F600}l.sol", "\u{30e1}\u{30e2}.sol", "a\u{e9}b.sol", "\u{e9}.sol", "A.sol", "b.sol", "Token.sol", "x.t.solver.sol", ".sol", "\u{e9}t\u{e9}.sol", "a b.sol", "UP.sol", "d.t.sol.sol", "t.sol", "my.test.sol", "a-b:c.sol",
];
const INELIGIBLE_NAMES: [&str; 22] = [
    "\u{e9}.json", "\u{30e1}\u{30e2}.txt", "x\u{1F600}.md", "\u{1F600}.rs", "\u{65e5}\u{672c}\u{8a9e}", "\u{e9}\u{e9}\u{e9}\u{e9}", "A.t.sol", "B.T.sol", "c.T.SOL", "e.SOL", "README.md", "f.sol.txt", "noext", "g.sol~", "h.tsol", "i..t.sol", "J.T.Sol", "k.t.SOL", ".t.sol",
    "x.Sol", "notes.t.sol", "\u{1e9e}.T.sol",
];

struct Built {
    /// encoding of the tree in listing order (see `encode`)
    enc: String,
    /// content key -> source, for eligible files
    sources: BTreeMap<String, String>,
}

fn eligible_spec(name: &str) -> bool {
    name.ends_with(".sol") && !name.to_lowercase().ends_with(".t.sol")
}

fn small_contract(rng: &mut Rng) -> String {
    let seed = rng.next();
    let cfg = Cfg { max_depth: 2, snippet_pct: 60, max_items: 2, allow_assembly: false, ..Cfg::default() };
    // one file in three is a scenario file (plausible contracts: SafeMath under various versions, require messages,
    // state variables written in various places), so that version-gated and table-based patterns have findings that
    // differ from file to file within one directory
    let mut s = if rng.chance(1, 3) { gen::scenario_file(seed) } else { gen::random_file(seed, cfg) };
    if solang_parser::parse(&s, 0).is_err() {
        s = "pragma solidity ^0.8.0;\ncontract C { function f(uint a) public { a++; } }\n".to_string();
    }
    // one file in three is re-laid-out with line breaks and comments between its tokens, so that flagged constructs span
    // several lines and nest across lines
    if rng.chance(1, 3) {
        if let Some((s2, _, _)) = super::files::relayout(&s, rng, false) {
            if solang_parser::parse(&s2, 0).is_ok() {
                s = s2;
            }
        }
    }
    s
}

/// a contract for a new file: half of the time one already used in this tree (so that files with the same
/// name in different directories can have exactly the same findings), else a fresh one
fn pooled_contract(rng: &mut Rng, pool: &mut Vec<String>) -> String {
    if !pool.is_empty() && rng.chance(1, 2) {
        return pool[rng.below(pool.len())].clone();
    }
    let s = small_contract(rng);
    pool.push(s.clone());
    s
}

fn populate(dir: &Path, rng: &mut Rng, depth: usize, counter: &mut usize, hostile: bool, pool: &mut Vec<String>) {
    if depth > 0 && rng.chance(1, 6) {
        // directed shape: the same file (name and text) in several sibling directories and here
        let name = ELIGIBLE_NAMES[rng.below(ELIGIBLE_NAMES.len())];
        let src = pooled_contract(rng, pool);
        for k in 0..(2 + rng.below(3)) {
            let sub = dir.join(format!("twin{}", k));
            if std::fs::create_dir(&sub).is_ok() {
                *counter += 1;
                let _ = std::fs::write(sub.join(name), &src);
                if rng.chance(1, 3) {
                    populate(&sub, rng, depth - 1, counter, hostile, pool);
                }
            }
        }
        if rng.chance(1, 2) {
            let _ = std::fs::write(dir.join(name), &src);
        }
    }
    let n = 1 + rng.below(5);
    let mut names: Vec<(String, u8)> = vec![]; // 0 eligible file, 1 ineligible file, 2 dir
    for _ in 0..n {
        match rng.below(10) {
            0..=4 => names.push((ELIGIBLE_NAMES[rng.below(ELIGIBLE_NAMES.len())].to_string(), 0)),
            5..=7 => names.push((INELIGIBLE_NAMES[rng.below(INELIGIBLE_NAMES.len())].to_string(), 1)),
            _ if depth > 0 => {
                // directory names that look like file names of either kind are still directories
                let dn = if rng.chance(1, 4) { ["Vault.t.sol", "pkg.sol", "a.T.SOL", ".t.sol", "x.sol.d"][rng.below(5)].to_string() } else { format!("sub{}", rng.below(4)) };
                names.push((dn, 2))
            }
            _ => names.push((ELIGIBLE_NAMES[rng.below(ELIGIBLE_NAMES.len())].to_string(), 0)),
        }
    }
    rng.shuffle(&mut names);
    for (name, kind) in names {
        let p = dir.join(&name);
        if p.exists() {
            continue;
        }
        *counter += 1;
        match kind {
            0 => {
                let src = if hostile && rng.chance(1, 6) {
                    "\u{0}\u{ff}garbage".to_string()
                } else if rng.chance(1, 9) {
                    // an eligible file with nothing in it (or only blanks / a comment): accepted by the parser, no findings
                    ["", "  \n\t\n", "// nothing\n"][rng.below(3)].to_string()
                } else {
                    pooled_contract(rng, pool)
                };
                let _ = std::fs::write(&p, src);
            }
            1 => {
                let content: Vec<u8> = match rng.below(4) {
                    0 => vec![0xff, 0xfe, 0x00, 0x80, 0xc3],
                    1 => b"contract { this does not parse ;;; ".to_vec(),
                    2 => vec![],
                    _ => small_contract(rng).into_bytes(),
                };
                let _ = std::fs::write(&p, content);
            }
            _ => {
                if std::fs::create_dir(&p).is_ok() {
                    populate(&p, rng, depth - 1, counter, hostile, pool);
                }
            }
        }
    }
}

/// listing-order encoding: `d:<hexname>{..}` and `f:<hexname>:<key>`; key `!` = unreadable as UTF-8
fn encode(dir: &Path, built: &mut Built) {
    let rd = std::fs::read_dir(dir).expect("read_dir");
    let mut first = true;
    for e in rd {
        let path: PathBuf = e.unwrap().path();
        if !first {
            built.enc.push(',');
        }
        first = false;
        let name = path.file_name().unwrap().to_str().unwrap().to_string();
        if path.is_dir() {
            built.enc.push_str(&format!("d:{}{{", hex(name.as_bytes())));
            encode(&path, built);
            built.enc.push('}');
        } else {
            match std::fs::read_to_string(&path) {
                Ok(src) => {
                    let key = format!("k{}", built.sources.len());
                    // identical contents share a key only if identical text
                    let key = built.sources.iter().find(|(_, v)| **v == src).map(|(k, _)| k.clone()).unwrap_or(key);
                    if eligible_spec(&name) {
                        built.sources.insert(key.clone(), src);
                    }
                    built.enc.push_str(&format!("f:{}:{}", hex(name.as_bytes()), key));
                }
                Err(_) => built.enc.push_str(&format!("f:{}:!", hex(name.as_bytes()))),
            }
        }
    }
}

fn fmt_map<K: std::fmt::Debug>(m: std::collections::HashMap<K, Vec<(String, std::collections::BTreeSet<i32>)>>) -> String {
    let mut parts: Vec<String> = m
        .into_iter()
        .map(|(k, v)| {
            format!(
                "{:?}={}",
                k,
                v.iter()
                    .map(|(f, ls)| format!("{}:{}", hex(f.as_bytes()), ls.iter().map(|l| l.to_string()).collect::<Vec<_>>().join(";")))
                    .collect::<Vec<_>>()
                    .join("|")
            )
        })
        .collect();
    parts.sort();
    parts.join(",")
}

pub fn dir_requests(ctx: &mut Ctx, rng: &mut Rng) {
    let n = if ctx.thorough { 1500 } else { 150 };
    let root = std::env::temp_dir().join(format!("solstat-verif-dirs-{}-{}", std::process::id(), ctx.seed));
    let _ = std::fs::remove_dir_all(&root);
    std::fs::create_dir_all(&root).unwrap();
    // the lower-casing assumption of the model: only ASCII letters lower-case to a letter of ".t.sol"
    let mut bad = 0u64;
    for cp in 0..=0x10FFFFu32 {
        if let Some(c) = char::from_u32(cp) {
            if !c.is_ascii() && c.to_lowercase().any(|l| ".tsol".contains(l)) {
                bad += 1;
            }
        }
    }
    ctx.count("non_ascii_chars_lowercasing_into_dot_t_sol", bad);
    let mut total_index_dependent = 0u64;
    let mut total_repeat_calls = 0u64;
    for k in 0..n {
        let dir = root.join(format!("t{}", k));
        std::fs::create_dir_all(&dir).unwrap();
        let mut counter = 0;
        let hostile = k % 17 == 16;
        let depth = 1 + rng.below(3);
        let mut pool: Vec<String> = vec![];
        populate(&dir, rng, depth, &mut counter, hostile, &mut pool);
        // one tree in three: files that fall on different sides of the version thresholds side by side (SafeMath in use,
        // a long and a short require message), at the top and in a sub-directory
        if k % 3 == 0 {
            let body = "library SafeMath { function add(uint256 a, uint256 b) internal pure returns (uint256) { return a + b; } }\ncontract V { using SafeMath for uint256; function f(uint256 a) public pure returns (uint256) { require(a > 1, \"a message that is certainly longer than thirty-two bytes\"); require(a > 2, \"short\"); return a.add(1).add(2); } }\n";
            let versions = ["0.7.6", "0.8.17", "0.8.0", "0.8.3", "0.8.4", "0.6.12"];
            let nfiles = 2 + rng.below(3);
            let subv = dir.join("versions");
            let _ = std::fs::create_dir(&subv);
            for i in 0..nfiles {
                let v = versions[rng.below(versions.len())];
                let holder = if rng.chance(1, 2) { dir.clone() } else { subv.clone() };
                let _ = std::fs::write(holder.join(format!("Ver{}.sol", i)), format!("pragma solidity {};\n{}", v, body));
            }
        }
        // one tree in seven: a chain of 12-30 nested directories with an eligible file at the bottom and one half-way
        // ("at any depth")
        if k % 7 == 2 {
            let levels = 12 + rng.below(19);
            let mut cur = dir.clone();
            for lvl in 0..levels {
                cur = cur.join(format!("n{}", lvl % 10));
                let _ = std::fs::create_dir(&cur);
                if lvl == levels / 2 {
                    let _ = std::fs::write(cur.join("Mid.sol"), pooled_contract(rng, &mut pool));
                }
            }
            let _ = std::fs::write(cur.join("Deep.sol"), pooled_contract(rng, &mut pool));
            ctx.count("dir_trees_with_deep_chain", 1);
        }
        // two trees in five: symbolic links inside the analysed tree to a directory and to a file that lie outside it
        // (the code follows them: `Path::is_dir`, `read_to_string`)
        let ext = root.join(format!("ext{}", k));
        if k % 5 == 3 || k % 5 == 1 {
            std::fs::create_dir_all(&ext).unwrap();
            populate(&ext, rng, 1, &mut counter, false, &mut pool);
            let _ = std::fs::write(ext.join("Linked.sol"), pooled_contract(rng, &mut pool));
            let mut holders: Vec<PathBuf> = vec![dir.clone()];
            if let Ok(rd) = std::fs::read_dir(&dir) {
                for e in rd.flatten() {
                    if e.path().is_dir() {
                        holders.push(e.path());
                    }
                }
            }
            let h = holders[rng.below(holders.len())].clone();
            let link_name = ["vendor", "lib.sol", "linked"][rng.below(3)];
            if std::os::unix::fs::symlink(&ext, h.join(link_name)).is_ok() {
                ctx.count("dir_trees_with_symlinked_directory", 1);
            }
            let h2 = holders[rng.below(holders.len())].clone();
            let file_link = ["Ln.sol", "ln.t.sol", "ln.txt"][rng.below(3)];
            if std::os::unix::fs::symlink(ext.join("Linked.sol"), h2.join(file_link)).is_ok() {
                ctx.count("dir_trees_with_symlinked_file", 1);
            }
        }
        let mut built = Built { enc: String::new(), sources: BTreeMap::new() };
        encode(&dir, &mut built);
        let target = dir.to_str().unwrap().to_string();
        // category and selected patterns
        let cat = ["opt", "vuln", "qa"][k % 3];
        let all: Vec<&'static str> = match cat {
            "opt" => real::optimizations().into_iter().map(|x| x.0).collect(),
            "vuln" => real::vulnerabilities().into_iter().map(|x| x.0).collect(),
            _ => real::qas().into_iter().map(|x| x.0).collect(),
        };
        let mut sel: Vec<&str> = all.iter().copied().filter(|_| rng.chance(2, 3)).collect();
        if sel.is_empty() {
            sel.push(all[rng.below(all.len())]);
        }
        // one run in eight names a pattern more than once (adjacent or not): the code then lists its findings once
        // per mention, whatever the order
        if k % 8 == 5 {
            let dup = sel[rng.below(sel.len())];
            sel.push(dup);
            if rng.chance(1, 2) {
                sel.push(dup);
            }
        }
        rng.shuffle(&mut sel);
        // per-file analysis table (each pattern alone, two different file numbers: C15)
        let mut gt: Vec<String> = vec![];
        let mut index_dependent = 0u64;
        for (key, src) in &built.sources {
            let mut per: Vec<String> = vec![];
            for v in &all {
                let r0 = real::run_lines(cat, v, src, 0);
                let r1 = real::run_lines(cat, v, src, 7);
                if r0 != r1 {
                    index_dependent += 1;
                }
                per.push(format!("{}={}", v, real::fmt_lines(&r0)));
            }
            gt.push(format!("{}:{}", key, per.join(",")));
        }
        ctx.count("file_number_dependent_results", index_dependent);
        total_index_dependent += index_dependent;
        total_repeat_calls += 2 * (built.sources.len() * all.len()) as u64;
        let sel2: Vec<String> = sel.iter().map(|s| s.to_string()).collect();
        let t2 = target.clone();
        let imp = match cat {
            "opt" => {
                let ps: Vec<_> = sel2.iter().map(|s| real::optimizations().into_iter().find(|x| x.0 == s).unwrap().1).collect();
                catch_unwind(AssertUnwindSafe(move || fmt_map(optimizations::analyze_dir(&t2, ps)))).unwrap_or_else(|_| "PANIC".into())
            }
            "vuln" => {
                let ps: Vec<_> = sel2.iter().map(|s| real::vulnerabilities().into_iter().find(|x| x.0 == s).unwrap().1).collect();
                catch_unwind(AssertUnwindSafe(move || fmt_map(vulnerabilities::analyze_dir(&t2, ps)))).unwrap_or_else(|_| "PANIC".into())
            }
            _ => {
                let ps: Vec<_> = sel2.iter().map(|s| real::qas().into_iter().find(|x| x.0 == s).unwrap().1).collect();
                catch_unwind(AssertUnwindSafe(move || fmt_map(qa::analyze_dir(&t2, ps)))).unwrap_or_else(|_| "PANIC".into())
            }
        };
        ctx.line(&["DIR", cat, &sel.join(","), &built.enc, &gt.join("|"), &imp]);
        let _ = std::fs::remove_dir_all(&dir);
        let _ = std::fs::remove_dir_all(&ext);
    }
    // the same file analysed twice (with two different file numbers) must give the same lines: repetition and position
    ctx.line(&["THREADS", &total_repeat_calls.to_string(), &total_index_dependent.to_string()]);
    let _ = std::fs::remove_dir_all(&root);
}

/// C15, runtime part: all detectors on shuffled (file, pattern) pairs from 16 threads, compared with
/// the sequential results
pub fn thread_requests(ctx: &mut Ctx, rng: &mut Rng) {
    let nfiles = if ctx.thorough { 400 } else { 60 };
    let mut files: Vec<String> = vec![];
    for _ in 0..nfiles {
        let mut s = gen::random_file(rng.next(), Cfg::default());
        if rng.chance(1, 3) {
            if let Some((s2, _, _)) = super::files::relayout(&s, rng, false) {
                s = s2;
            }
        }
        if solang_parser::parse(&s, 0).is_ok() {
            files.push(s);
        }
    }
    let mut jobs: Vec<(usize, &'static str, &'static str)> = vec![];
    for (i, _) in files.iter().enumerate() {
        for (v, _) in real::optimizations() {
            jobs.push((i, "opt", v));
        }
        for (v, _) in real::vulnerabilities() {
            jobs.push((i, "vuln", v));
        }
        for (v, _) in real::qas() {
            jobs.push((i, "qa", v));
        }
    }
    let seq: Vec<String> = jobs.iter().map(|(i, c, v)| real::fmt_lines(&real::run_lines(c, v, &files[*i], *i))).collect();
    let rounds = if ctx.thorough { 6 } else { 2 };
    let mut mismatches = 0u64;
    let mut calls = 0u64;
    for _ in 0..rounds {
        let mut order: Vec<usize> = (0..jobs.len()).collect();
        rng.shuffle(&mut order);
        let files_ref = &files;
        let jobs_ref = &jobs;
        let seq_ref = &seq;
        let chunks: Vec<Vec<usize>> = (0..16).map(|t| order.iter().copied().skip(t).step_by(16).collect()).collect();
        let results: Vec<u64> = std::thread::scope(|s| {
            let hs: Vec<_> = chunks
                .iter()
                .map(|chunk| {
                    s.spawn(move || {
                        let mut bad = 0u64;
                        for &j in chunk {
                            let (i, c, v) = jobs_ref[j];
                            // repeat each call twice: repetition must not matter either
                            let r1 = real::fmt_lines(&real::run_lines(c, v, &files_ref[i], i));
                            let r2 = real::fmt_lines(&real::run_lines(c, v, &files_ref[i], i + 3));
                            if r1 != seq_ref[j] || r2 != seq_ref[j] {
                                bad += 1;
                            }
                        }
                        bad
                    })
                })
                .collect();
            hs.into_iter().map(|h| h.join().unwrap_or(1)).collect()
        });
        mismatches += results.iter().sum::<u64>();
        calls += 2 * jobs.len() as u64;
    }
    ctx.line(&["THREADS", &calls.to_string(), &mismatches.to_string()]);
}
