//! Directory-level observations (C03, C15, C16): filled in below.
use super::Ctx;
use solstat_verif_harness::rng::Rng;
pub fn dir_requests(_ctx: &mut Ctx, _rng: &mut Rng) {}
