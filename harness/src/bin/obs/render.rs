//! Report rendering observations (C11-C13): filled in below.
use super::Ctx;
use solstat_verif_harness::rng::Rng;
pub fn render_requests(_ctx: &mut Ctx, _rng: &mut Rng) {}
