//! Report rendering observations (C11-C13): the real `generate_*_report` on random findings maps.
use super::Ctx;
use solstat::analyzer::optimizations::Optimization;
use solstat::analyzer::qa::QualityAssurance;
use solstat::analyzer::vulnerabilities::Vulnerability;
use solstat::report::optimization_report::generate_optimization_report;
use solstat::report::qa_report::generate_qa_report;
use solstat::report::vulnerability_report::generate_vulnerability_report;
use solstat_verif_harness::hex;
use solstat_verif_harness::real;
use solstat_verif_harness::rng::Rng;
use std::collections::{BTreeSet, HashMap};
use std::panic::{catch_unwind, AssertUnwindSafe};

const FILE_NAMES: [&str; 14] = [
    "A.sol", "b.sol", "Token.sol", "a b.sol", "a:b.sol", "dir-x.sol", "- x.sol", "\u{e9}t\u{e9}.sol", "x.t.solver.sol", "Z.sol", "a.sol", "### Lines.sol", "1:2:3.sol", ".sol",
];

pub type Entries = Vec<(String, Vec<(String, BTreeSet<i32>)>)>;

fn random_files(rng: &mut Rng, allow_empty: bool) -> Vec<(String, BTreeSet<i32>)> {
    let n = if allow_empty && rng.chance(1, 10) { 0 } else { 1 + rng.below(6) };
    let mut v = vec![];
    for _ in 0..n {
        let name = FILE_NAMES[rng.below(FILE_NAMES.len())].to_string();
        let k = 1 + rng.below(4);
        let mut ls = BTreeSet::new();
        for _ in 0..k {
            ls.insert(match rng.below(6) {
                0 => 0,
                1 => 1,
                2 => 2147483647,
                _ => rng.below(400) as i32,
            });
        }
        v.push((name, ls));
    }
    v
}

fn enc(entries: &Entries) -> String {
    entries
        .iter()
        .map(|(p, fs)| {
            format!(
                "{}={}",
                p,
                fs.iter()
                    .map(|(f, ls)| format!("{}:{}", hex(f.as_bytes()), ls.iter().map(|l| l.to_string()).collect::<Vec<_>>().join(";")))
                    .collect::<Vec<_>>()
                    .join("|")
            )
        })
        .collect::<Vec<_>>()
        .join(",")
}

fn render_opt(entries: &Entries) -> String {
    let mut m: HashMap<Optimization, Vec<(String, BTreeSet<i32>)>> = HashMap::new();
    for (p, fs) in entries {
        m.insert(real::optimizations().into_iter().find(|x| x.0 == p).unwrap().1, fs.clone());
    }
    catch_unwind(AssertUnwindSafe(move || generate_optimization_report(m))).map(|s| hex(s.as_bytes())).unwrap_or_else(|_| "PANIC".into())
}
fn render_vuln(entries: &Entries) -> String {
    let mut m: HashMap<Vulnerability, Vec<(String, BTreeSet<i32>)>> = HashMap::new();
    for (p, fs) in entries {
        m.insert(real::vulnerabilities().into_iter().find(|x| x.0 == p).unwrap().1, fs.clone());
    }
    catch_unwind(AssertUnwindSafe(move || generate_vulnerability_report(m))).map(|s| hex(s.as_bytes())).unwrap_or_else(|_| "PANIC".into())
}
fn render_qa(entries: &Entries) -> String {
    let mut m: HashMap<QualityAssurance, Vec<(String, BTreeSet<i32>)>> = HashMap::new();
    for (p, fs) in entries {
        m.insert(real::qas().into_iter().find(|x| x.0 == p).unwrap().1, fs.clone());
    }
    catch_unwind(AssertUnwindSafe(move || generate_qa_report(m))).map(|s| hex(s.as_bytes())).unwrap_or_else(|_| "PANIC".into())
}

fn render(cat: &str, entries: &Entries) -> String {
    match cat {
        "opt" => render_opt(entries),
        "vuln" => render_vuln(entries),
        _ => render_qa(entries),
    }
}

fn random_entries(rng: &mut Rng, all: &[&'static str], allow_empty: bool) -> Entries {
    let mut sel: Vec<&str> = all.iter().copied().filter(|_| rng.chance(1, 2)).collect();
    rng.shuffle(&mut sel);
    sel.into_iter().map(|p| (p.to_string(), random_files(rng, allow_empty))).collect()
}

pub fn render_requests(ctx: &mut Ctx, rng: &mut Rng) {
    let n = if ctx.thorough { 3000 } else { 300 };
    let opts: Vec<&'static str> = real::optimizations().into_iter().map(|x| x.0).collect();
    let vulns: Vec<&'static str> = real::vulnerabilities().into_iter().map(|x| x.0).collect();
    let qas: Vec<&'static str> = real::qas().into_iter().map(|x| x.0).collect();
    let mut order_dependent = 0u64;
    let mut emit = |ctx: &mut Ctx, rng: &mut Rng, cat: &str, entries: Entries| {
        let imp = render(cat, &entries);
        // same findings, other insertion order and other file order: the report must not change (C13)
        let mut e2 = entries.clone();
        rng.shuffle(&mut e2);
        for (_, fs) in e2.iter_mut() {
            rng.shuffle(fs);
        }
        let imp2 = render(cat, &e2);
        if imp2 != imp {
            order_dependent += 1;
        }
        ctx.line(&["RENDER", cat, &enc(&entries), &imp, if imp2 == imp { "same" } else { "differs" }]);
    };
    // all 16 subsets of the vulnerability patterns x multiplicities
    for mask in 0..16u32 {
        for rep in 0..(if ctx.thorough { 12 } else { 4 }) {
            let mut entries: Entries = vec![];
            for (i, v) in vulns.iter().enumerate() {
                if mask & (1 << i) != 0 {
                    entries.push((v.to_string(), random_files(rng, rep == 3)));
                }
            }
            rng.shuffle(&mut entries);
            emit(ctx, rng, "vuln", entries);
        }
    }
    for k in 0..n {
        let (cat, all) = match k % 3 {
            0 => ("opt", &opts),
            1 => ("vuln", &vulns),
            _ => ("qa", &qas),
        };
        let entries = random_entries(rng, all, k % 7 == 0);
        emit(ctx, rng, cat, entries);
    }
    // totals at and around every change in the number of digits (and well beyond): one pattern with one file that has
    // exactly N findings, and N findings spread over several patterns and files
    let boundary: [usize; 18] = [9, 10, 11, 99, 100, 101, 999, 1000, 1001, 1005, 1050, 1099, 1100, 2000, 9999, 10000, 10007, 12345];
    for (bi, &total) in boundary.iter().enumerate() {
        if !ctx.thorough && total > 2000 && bi % 2 == 1 {
            continue;
        }
        for (cat, all) in [("opt", &opts), ("vuln", &vulns), ("qa", &qas)] {
            // (a) one pattern, one file
            let p = all[rng.below(all.len())];
            let lines: BTreeSet<i32> = (1..=total as i32).collect();
            emit(ctx, rng, cat, vec![(p.to_string(), vec![("Big.sol".to_string(), lines)])]);
            // (b) spread
            let mut entries: Entries = vec![];
            let mut left = total;
            let mut pi = 0;
            while left > 0 {
                let take = if pi + 1 == all.len() { left } else { (1 + rng.below(left)).min(left) };
                let nfiles = 1 + rng.below(3).min(take - 1);
                let mut files = vec![];
                let mut start = 1i32;
                for f in 0..nfiles {
                    let cnt = if f + 1 == nfiles { take - (start as usize - 1) } else { ((take - (start as usize - 1)) / (nfiles - f)).max(1) };
                    let ls: BTreeSet<i32> = (start..start + cnt as i32).collect();
                    start += cnt as i32;
                    files.push((format!("F{}.sol", f), ls));
                }
                entries.push((all[pi].to_string(), files));
                left -= take;
                pi += 1;
            }
            emit(ctx, rng, cat, entries);
        }
    }
    ctx.count("boundary_totals", boundary.len() as u64);
    ctx.count("order_dependent_renderings", order_dependent);
    // the whole report through generate_report (writes solstat_report.md into the current directory)
    let scratch = std::env::temp_dir().join(format!("solstat-verif-report-{}-{}", std::process::id(), ctx.seed));
    let _ = std::fs::remove_dir_all(&scratch);
    std::fs::create_dir_all(&scratch).unwrap();
    let old = std::env::current_dir().unwrap();
    std::env::set_current_dir(&scratch).unwrap();
    let nfull = if ctx.thorough { 400 } else { 60 };
    for k in 0..nfull {
        // exactly one pattern with findings in a category, regularly: a map with a single key
        let single = |rng: &mut Rng, all: &[&'static str]| -> Entries { vec![(all[rng.below(all.len())].to_string(), random_files(rng, false))] };
        let v = if k % 4 == 0 { vec![] } else if k % 4 == 1 { single(rng, &vulns) } else { random_entries(rng, &vulns, false) };
        let o = if k % 5 == 0 { vec![] } else if k % 5 == 1 { single(rng, &opts) } else { random_entries(rng, &opts, false) };
        let q = if k % 3 == 0 { vec![] } else if k % 3 == 1 { single(rng, &qas) } else { random_entries(rng, &qas, false) };
        let mut mv: HashMap<Vulnerability, Vec<(String, BTreeSet<i32>)>> = HashMap::new();
        for (p, fs) in &v {
            mv.insert(real::vulnerabilities().into_iter().find(|x| x.0 == p).unwrap().1, fs.clone());
        }
        let mut mo: HashMap<Optimization, Vec<(String, BTreeSet<i32>)>> = HashMap::new();
        for (p, fs) in &o {
            mo.insert(real::optimizations().into_iter().find(|x| x.0 == p).unwrap().1, fs.clone());
        }
        let mut mq: HashMap<QualityAssurance, Vec<(String, BTreeSet<i32>)>> = HashMap::new();
        for (p, fs) in &q {
            mq.insert(real::qas().into_iter().find(|x| x.0 == p).unwrap().1, fs.clone());
        }
        // a previous report, every other time longer than any report this run can produce
        let _ = std::fs::write("solstat_report.md", "stale report of a previous run\n".repeat(if k % 2 == 0 { 1 } else { 60000 }));
        let r = catch_unwind(AssertUnwindSafe(move || solstat::report::generation::generate_report(mv, mo, mq)));
        let imp = match r {
            Ok(()) => std::fs::read("solstat_report.md").map(|b| hex(&b)).unwrap_or_else(|_| "MISSING".into()),
            Err(_) => "PANIC".into(),
        };
        ctx.line(&["FULLREPORT", &enc(&v), &enc(&o), &enc(&q), &imp]);
    }
    std::env::set_current_dir(old).unwrap();
    let _ = std::fs::remove_dir_all(&scratch);
}
