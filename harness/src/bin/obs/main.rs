//! Observation generator: runs the real solstat code on inputs and writes one request per line
//! (with the implementation's answer) for the Lean driver.
//!
//! usage: obs <family> --seed N --tier quick|thorough --out FILE [--corpus DIR] [--repo DIR]
use solang_parser::pt;
use solstat::analyzer::ast::{self, Node};
use solstat::analyzer::utils;
use solstat_verif_harness::gen::{self, Cfg};
use solstat_verif_harness::real;
use solstat_verif_harness::rng::Rng;
use solstat_verif_harness::{hex, unhex};
use std::io::Write;
use std::panic::{catch_unwind, AssertUnwindSafe};

mod dirs;
mod files;
mod render;

pub struct Ctx {
    pub seed: u64,
    pub thorough: bool,
    pub corpus: String,
    pub repo: String,
    pub out: std::io::BufWriter<std::fs::File>,
    pub stats: std::collections::BTreeMap<String, u64>,
}

impl Ctx {
    pub fn line(&mut self, fields: &[&str]) {
        let l = fields.join("\t");
        debug_assert!(!l.contains('\n'));
        self.out.write_all(l.as_bytes()).unwrap();
        self.out.write_all(b"\n").unwrap();
        *self.stats.entry(fields[0].to_string()).or_insert(0) += 1;
    }
    pub fn count(&mut self, k: &str, n: u64) {
        *self.stats.entry(k.to_string()).or_insert(0) += n;
    }
}

fn dbg_oneline<T: std::fmt::Debug>(x: &T) -> String {
    // derived Debug never emits a raw newline inside strings (they are escaped)
    format!("{:?}", x)
}

// ------------------------------------------------------------------------------------------ WALK
fn node_head(n: &Node) -> String {
    let d = format!("{:?}", n);
    let outer_end = d.find('(').unwrap_or(d.len());
    let outer = &d[..outer_end];
    let tag = if outer == "SourceUnit" {
        "S_SourceUnit".to_string()
    } else {
        let rest = &d[outer_end + 1..];
        let vend = rest.find(|c: char| !(c.is_alphanumeric() || c == '_')).unwrap_or(rest.len());
        format!("{}_{}", outer, &rest[..vend])
    };
    let (s, e) = first_loc(&d);
    format!("{}:{}:{}", tag, s, e)
}

fn first_loc(d: &str) -> (usize, usize) {
    if let Some(p) = d.find("File(") {
        let rest = &d[p + 5..];
        if let Some(end) = rest.find(')') {
            let nums: Vec<usize> = rest[..end].split(',').filter_map(|x| x.trim().parse().ok()).collect();
            if nums.len() == 3 {
                return (nums[1], nums[2]);
            }
        }
    }
    (0, 0)
}

fn collect_roots(su: &pt::SourceUnit) -> Vec<Node> {
    let mut roots: Vec<Node> = vec![Node::SourceUnit(su.clone())];
    fn stmts(s: &pt::Statement, roots: &mut Vec<Node>, depth: usize) {
        roots.push(Node::Statement(s.clone()));
        if depth > 2 {
            return;
        }
        match s {
            pt::Statement::Block { statements, .. } => {
                for st in statements {
                    stmts(st, roots, depth + 1);
                }
            }
            pt::Statement::Expression(_, e) => roots.push(Node::Expression(e.clone())),
            pt::Statement::If(_, c, a, b) => {
                roots.push(Node::Expression(c.clone()));
                stmts(a, roots, depth + 1);
                if let Some(b) = b {
                    stmts(b, roots, depth + 1);
                }
            }
            pt::Statement::Try(_, e, _, _) => roots.push(Node::Expression(e.clone())),
            pt::Statement::For(_, _, Some(c), _, _) => roots.push(Node::Expression((**c).clone())),
            _ => {}
        }
    }
    for part in &su.0 {
        roots.push(Node::SourceUnitPart(part.clone()));
        match part {
            pt::SourceUnitPart::ContractDefinition(c) => {
                for cp in &c.parts {
                    roots.push(Node::ContractPart(cp.clone()));
                    if let pt::ContractPart::FunctionDefinition(f) = cp {
                        if let Some(b) = &f.body {
                            stmts(b, &mut roots, 0);
                        }
                    }
                    if let pt::ContractPart::VariableDefinition(v) = cp {
                        roots.push(Node::Expression(v.ty.clone()));
                        if let Some(i) = &v.initializer {
                            roots.push(Node::Expression(i.clone()));
                        }
                    }
                }
            }
            pt::SourceUnitPart::FunctionDefinition(f) => {
                if let Some(b) = &f.body {
                    stmts(b, &mut roots, 0);
                }
            }
            _ => {}
        }
    }
    roots
}

fn root_wire(n: &Node) -> (&'static str, String) {
    match n {
        Node::SourceUnit(x) => ("SourceUnit", dbg_oneline(x)),
        Node::SourceUnitPart(x) => ("SourceUnitPart", dbg_oneline(x)),
        Node::ContractPart(x) => ("ContractPart", dbg_oneline(x)),
        Node::Statement(x) => ("Statement", dbg_oneline(x)),
        Node::Expression(x) => ("Expression", dbg_oneline(x)),
    }
}

/// the target sets the detectors use (kept in step with the sources by hand; only a sampling aid)
const DETECTOR_SETS: [&[&str]; 12] = [
    &["MemberAccess"],
    &["Equal", "NotEqual"],
    &["Assign"],
    &["For"],
    &["Assign", "PreIncrement", "PostIncrement", "PreDecrement", "PostDecrement", "AssignAdd", "AssignAnd", "AssignDivide", "AssignModulo", "AssignMultiply", "AssignOr", "AssignShiftLeft", "AssignShiftRight", "AssignSubtract", "AssignXor"],
    &["Block"],
    &["PreIncrement", "PreDecrement", "PostIncrement", "PostDecrement"],
    &["FunctionDefinition"],
    &["FunctionCall"],
    &["MoreEqual", "LessEqual"],
    &["Multiply", "Divide", "AssignDivide", "Add", "Subtract"],
    &["ContractDefinition", "StructDefinition", "PragmaDirective", "Using", "None"],
];

fn walk_requests(ctx: &mut Ctx, src: &str, rng: &mut Rng) {
    let su = match solang_parser::parse(src, 0) {
        Ok((su, _)) => su,
        Err(_) => {
            ctx.count("rejected_by_parser", 1);
            return;
        }
    };
    let all = real::all_targets();
    let roots = collect_roots(&su);
    let mut chosen: Vec<usize> = vec![0];
    let extra = if ctx.thorough { 12 } else { 6 };
    for _ in 0..extra {
        if roots.len() > 1 {
            chosen.push(1 + rng.below(roots.len() - 1));
        }
    }
    chosen.sort();
    chosen.dedup();
    for (ci, ri) in chosen.iter().enumerate() {
        let root = &roots[*ri];
        let (ty, text) = root_wire(root);
        let rid = format!("r{}", ctx.stats.get("ROOT").copied().unwrap_or(0));
        ctx.line(&["ROOT", &rid, ty, &text]);
        let mut sets: Vec<Vec<&str>> = vec![all.iter().map(|t| t.0).collect()];
        if ci == 0 {
            for s in DETECTOR_SETS.iter() {
                sets.push(s.to_vec());
            }
        }
        let nrand = if ci == 0 { 6 } else { 2 };
        for _ in 0..nrand {
            if rng.chance(1, 2) {
                sets.push(vec![all[rng.below(all.len())].0]);
            } else {
                let k = 1 + rng.below(8);
                let mut s: Vec<&str> = (0..k).map(|_| all[rng.below(all.len())].0).collect();
                if rng.chance(1, 3) {
                    let d = s[0];
                    s.push(d); // a duplicate in the vector must not matter
                }
                sets.push(s);
            }
        }
        for set in sets {
            let tv: Vec<_> = set.iter().map(|n| all.iter().find(|t| t.0 == *n).unwrap().1).collect();
            let single = set.len() == 1 && rng.chance(1, 2);
            let root2 = root.clone();
            let res = catch_unwind(AssertUnwindSafe(move || {
                if single {
                    ast::extract_target_from_node(tv[0], root2)
                } else {
                    ast::extract_targets_from_node(tv, root2)
                }
            }));
            let imp = match res {
                Ok(nodes) => nodes.iter().map(node_head).collect::<Vec<_>>().join(";"),
                Err(_) => "PANIC".to_string(),
            };
            ctx.line(&["WALK", &rid, &set.join(","), &imp]);
        }
    }
}

// ------------------------------------------------------------------------------------------ LINE
fn line_requests(ctx: &mut Ctx, rng: &mut Rng) {
    // exhaustive: all texts up to length L over a small alphabet (multi-byte char included) x every byte offset
    let alphabet: [&str; 4] = ["a", "\n", "\r", "\u{e9}"];
    let maxlen = if ctx.thorough { 7 } else { 6 };
    let mut texts: Vec<String> = vec![String::new()];
    let mut frontier: Vec<String> = vec![String::new()];
    for _ in 0..maxlen {
        let mut next = vec![];
        for t in &frontier {
            for a in alphabet {
                next.push(format!("{}{}", t, a));
            }
        }
        texts.extend(next.iter().cloned());
        frontier = next;
    }
    for t in &texts {
        for off in 0..=t.len() {
            let t2 = t.clone();
            let r = catch_unwind(AssertUnwindSafe(move || utils::get_line_number(off, &t2)));
            let imp = r.map(|v| v.to_string()).unwrap_or_else(|_| "PANIC".into());
            ctx.line(&["LINE", &hex(t.as_bytes()), &off.to_string(), &imp]);
        }
    }
    ctx.count("line_exhaustive_texts", texts.len() as u64);
    // random long texts
    let n = if ctx.thorough { 3000 } else { 400 };
    for _ in 0..n {
        let len = rng.below(400);
        let mut t = String::new();
        for _ in 0..len {
            match rng.below(12) {
                0 | 1 => t.push('\n'),
                2 => t.push_str("\r\n"),
                3 => t.push('\u{1F600}'),
                4 => t.push('\u{e9}'),
                5 => t.push('\r'),
                _ => t.push((b'a' + rng.below(26) as u8) as char),
            }
        }
        for _ in 0..4 {
            let off = rng.below(t.len() + 2);
            let t2 = t.clone();
            let r = catch_unwind(AssertUnwindSafe(move || utils::get_line_number(off, &t2)));
            let imp = r.map(|v| v.to_string()).unwrap_or_else(|_| "PANIC".into());
            ctx.line(&["LINE", &hex(t.as_bytes()), &off.to_string(), &imp]);
        }
    }
}

// ------------------------------------------------------------------------------------------ SLOTS / TYSZ
fn slots_requests(ctx: &mut Ctx, rng: &mut Rng) {
    let sizes: Vec<u16> = (1..=32).map(|b| b * 8).collect();
    let maxlen = if ctx.thorough { 4 } else { 3 };
    // exhaustive up to maxlen over all 32 byte-granular sizes (32^4 ≈ 1M lines in thorough)
    let mut seqs: Vec<Vec<u16>> = vec![vec![]];
    let mut frontier: Vec<Vec<u16>> = vec![vec![]];
    for _ in 0..maxlen {
        let mut next = vec![];
        for s in &frontier {
            for z in &sizes {
                let mut t = s.clone();
                t.push(*z);
                next.push(t);
            }
        }
        seqs.extend(next.iter().cloned());
        frontier = next;
    }
    ctx.count("slots_exhaustive_seqs", seqs.len() as u64);
    let n = if ctx.thorough { 20000 } else { 3000 };
    for _ in 0..n {
        let len = 4 + rng.below(40);
        seqs.push((0..len).map(|_| sizes[rng.below(32)]).collect());
    }
    // sizes outside the byte-granular range too (the function is total on u16 sequences that do not overflow)
    for _ in 0..200 {
        let len = rng.below(8);
        seqs.push((0..len).map(|_| rng.below(300) as u16).collect());
    }
    for s in seqs {
        let s2 = s.clone();
        let r = catch_unwind(AssertUnwindSafe(move || real::call_slots(utils::storage_slots_used, s2)));
        let imp = r.unwrap_or_else(|_| "PANIC".into());
        ctx.line(&["SLOTS", &s.iter().map(|x| x.to_string()).collect::<Vec<_>>().join(","), &imp]);
    }
    files::pack_requests(ctx);
    // every elementary type and some non-types
    let mut tys: Vec<String> = vec!["bool".into(), "address".into(), "address payable".into(), "payable".into(), "string".into(), "bytes".into(), "uint".into(), "int".into(), "byte".into(), "mapping(uint => bool)".into(), "function() external".into(), "IERC20".into(), "uint[]".into(), "Lib.T".into(), "fixed".into()];
    for n in 1..=32 {
        tys.push(format!("uint{}", n * 8));
        tys.push(format!("int{}", n * 8));
        tys.push(format!("bytes{}", n));
    }
    for t in tys {
        let src = format!("contract C {{ {} x; }}", t);
        if let Ok((su, _)) = solang_parser::parse(&src, 0) {
            if let pt::SourceUnitPart::ContractDefinition(c) = &su.0[0] {
                if let pt::ContractPart::VariableDefinition(v) = &c.parts[0] {
                    let e = v.ty.clone();
                    let e2 = e.clone();
                    let r = catch_unwind(AssertUnwindSafe(move || utils::get_type_size(e2)));
                    let imp = r.map(|v| v.to_string()).unwrap_or_else(|_| "PANIC".into());
                    ctx.line(&["TYSZ", &dbg_oneline(&e), &imp]);
                }
            }
        } else {
            ctx.count("tysz_rejected", 1);
        }
    }
}

// ------------------------------------------------------------------------------------------ VER
fn ver_requests(ctx: &mut Ctx, rng: &mut Rng) {
    let mut vals: Vec<String> = vec![];
    // the property's own table: 6 operators x 0.0.0 .. 1.2.40
    for op in gen::VERSION_OPS {
        for a in 0..=1 {
            for b in 0..=(if a == 0 { 9 } else { 2 }) {
                for c in 0..=40 {
                    if ctx.thorough || (c % 4 == 0 || c < 6 || c == 40 - (b % 3)) {
                        vals.push(format!("{}{}.{}.{}", op, a, b, c));
                    }
                }
            }
        }
    }
    // exhaustive short strings over a small alphabet
    let alphabet = ["0", "1", "8", "9", ".", " ", "^", ">", "="];
    let maxlen = if ctx.thorough { 6 } else { 5 };
    let mut frontier: Vec<String> = vec![String::new()];
    for _ in 0..maxlen {
        let mut next = vec![];
        for t in &frontier {
            for a in alphabet {
                next.push(format!("{}{}", t, a));
            }
        }
        vals.extend(next.iter().cloned());
        frontier = next;
    }
    for _ in 0..500 {
        let len = rng.below(24);
        let pool = ["0", "1", "2", "4", "8", "9", ".", "..", " ", "^", ">=", "<", "=", "~", "||", "-", "x", "*", "\u{0661}", "10", "99999999999", "2147483647", "2147483648"];
        vals.push((0..len).map(|_| pool[rng.below(pool.len())]).collect::<String>());
    }
    for v in vals {
        let v2 = v.clone();
        let r = catch_unwind(AssertUnwindSafe(move || utils::get_solidity_major_minor_patch_version(&v2).join("|")));
        let imp = r.unwrap_or_else(|_| "PANIC".into());
        ctx.line(&["VER", &hex(v.as_bytes()), &imp]);
    }
}

// ------------------------------------------------------------------------------------------ main
fn main() {
    let args: Vec<String> = std::env::args().collect();
    if args.len() < 2 {
        eprintln!("usage: obs <family> --seed N --tier quick|thorough --out FILE");
        std::process::exit(2);
    }
    let family = args[1].clone();
    let mut seed = 1u64;
    let mut thorough = false;
    let mut out = String::from("/dev/stdout");
    let mut corpus = String::from("/verif/corpus");
    let mut repo = String::from("/repo");
    let mut extra: Vec<String> = vec![];
    let mut i = 2;
    while i < args.len() {
        match args[i].as_str() {
            "--seed" => {
                seed = args[i + 1].parse().unwrap();
                i += 2;
            }
            "--tier" => {
                thorough = args[i + 1] == "thorough";
                i += 2;
            }
            "--out" => {
                out = args[i + 1].clone();
                i += 2;
            }
            "--corpus" => {
                corpus = args[i + 1].clone();
                i += 2;
            }
            "--repo" => {
                repo = args[i + 1].clone();
                i += 2;
            }
            other => {
                extra.push(other.to_string());
                i += 1;
            }
        }
    }
    if family == "genstats" {
        let n: u64 = extra.get(0).map(|s| s.parse().unwrap()).unwrap_or(500);
        let mut ok = 0;
        for s in 0..n {
            if solang_parser::parse(&gen::random_file(s, Cfg::default()), 0).is_ok() {
                ok += 1;
            }
        }
        println!("accepted {}/{}", ok, n);
        return;
    }
    real::silence_panics();
    let f = std::fs::File::create(&out).expect("create out");
    let mut ctx = Ctx { seed, thorough, corpus, repo, out: std::io::BufWriter::new(f), stats: Default::default() };
    let mut rng = Rng::new(seed.wrapping_mul(0x1000193) ^ family.bytes().fold(0u64, |a, b| a.wrapping_mul(131).wrapping_add(b as u64)));
    match family.as_str() {
        "walk" => {
            let fs = files::file_set(&mut ctx, &mut rng, if thorough { 4000 } else { 250 }, Cfg::default());
            for (_, src) in fs {
                walk_requests(&mut ctx, &src, &mut rng);
            }
        }
        "line" => line_requests(&mut ctx, &mut rng),
        "slots" => slots_requests(&mut ctx, &mut rng),
        "ver" => ver_requests(&mut ctx, &mut rng),
        "det" => files::det_requests(&mut ctx, &mut rng, &extra),
        "relayout" => files::relayout_requests(&mut ctx, &mut rng),
        "compose" => files::compose_requests(&mut ctx, &mut rng),
        "dir" => dirs::dir_requests(&mut ctx, &mut rng),
        "threads" => dirs::thread_requests(&mut ctx, &mut rng),
        "render" => render::render_requests(&mut ctx, &mut rng),
        "replay" => {
            // re-run the implementation on the request lines of a replay file (first field decides)
            let path = extra.get(0).expect("replay file");
            files::replay(&mut ctx, path);
        }
        other => {
            eprintln!("unknown family {}", other);
            std::process::exit(2);
        }
    }
    ctx.out.flush().unwrap();
    let stats: Vec<String> = ctx.stats.iter().map(|(k, v)| format!("\"{}\": {}", k, v)).collect();
    println!("{{{}}}", stats.join(", "));
    let _ = unhex("");
}
