//! Flat tables read off the Rust sources: kind tables, pattern tables, report sections, type sizes, docs.
use super::{find_fn, lean_str, short};
use solstat_verif_harness::schema::{Schema, NODE_ENUMS};
use syn::{Expr, Item, Pat, Stmt};

fn parse(path: &str) -> Option<syn::File> {
    let src = std::fs::read_to_string(path).ok()?;
    syn::parse_file(&src).ok()
}

fn enum_variants(file: &syn::File, name: &str) -> Option<Vec<String>> {
    file.items.iter().find_map(|it| {
        if let Item::Enum(e) = it {
            if e.ident == name {
                return Some(e.variants.iter().map(|v| v.ident.to_string()).collect());
            }
        }
        None
    })
}

/// last path segment of a pattern like `pt::Statement::Args(_, _)`, `A::B { .. }`, `A::B`; None for `_`
fn pat_variant(p: &Pat) -> Option<Option<(String, String)>> {
    let path = match p {
        Pat::Wild(_) => return Some(None),
        Pat::TupleStruct(ts) => &ts.path,
        Pat::Struct(st) => &st.path,
        Pat::Path(pp) => &pp.path,
        _ => return None,
    };
    let n = path.segments.len();
    if n < 2 {
        return None;
    }
    Some(Some((path.segments[n - 2].ident.to_string(), path.segments[n - 1].ident.to_string())))
}

/// `Target::X`, `return Target::X`, `{ return Target::X }`, `{ Target::X }`
fn path_result(e: &Expr, enum_name: &str) -> Option<String> {
    match e {
        Expr::Path(p) => {
            let n = p.path.segments.len();
            if n >= 2 && p.path.segments[n - 2].ident == enum_name {
                Some(p.path.segments[n - 1].ident.to_string())
            } else {
                None
            }
        }
        Expr::Return(r) => path_result(r.expr.as_ref()?, enum_name),
        Expr::Block(b) if b.block.stmts.len() == 1 => match &b.block.stmts[0] {
            Stmt::Expr(e) | Stmt::Semi(e, _) => path_result(e, enum_name),
            _ => None,
        },
        _ => None,
    }
}

fn single_match(f: &syn::ItemFn) -> Option<&syn::ExprMatch> {
    if f.block.stmts.len() != 1 {
        return None;
    }
    match &f.block.stmts[0] {
        Stmt::Expr(Expr::Match(m)) | Stmt::Semi(Expr::Match(m), _) => Some(m),
        _ => None,
    }
}

// ---------------------------------------------------------------------------------------------
pub fn gen_targets(s: &Schema, ast: &syn::File) -> String {
    let mut residue: Vec<String> = vec![];
    let targets = enum_variants(ast, "Target").unwrap_or_else(|| {
        residue.push("enum Target not found".into());
        vec!["None".into()]
    });
    let mut kind_rows: Vec<(String, String)> = vec![]; // (tag, target)
    let table_fns = [
        ("Statement", "statement_as_target"),
        ("Expression", "expression_as_target"),
        ("SourceUnitPart", "source_unit_part_as_target"),
        ("ContractPart", "contract_part_as_target"),
    ];
    for (en, fname) in table_fns {
        let variants: Vec<String> = s.enums[en].iter().map(|v| v.0.clone()).collect();
        let mut assigned: std::collections::BTreeMap<String, String> = Default::default();
        let mut wildcard: Option<String> = None;
        match find_fn(ast, fname).and_then(|f| single_match(f)) {
            Some(m) => {
                for arm in &m.arms {
                    if arm.guard.is_some() {
                        residue.push(format!("{}: guarded arm", fname));
                        continue;
                    }
                    match (pat_variant(&arm.pat), path_result(&arm.body, "Target")) {
                        (Some(Some((e, v))), Some(t)) if e == en && variants.contains(&v) && targets.contains(&t) => {
                            if wildcard.is_none() {
                                assigned.entry(v).or_insert(t);
                            }
                        }
                        (Some(None), Some(t)) if targets.contains(&t) => {
                            if wildcard.is_none() {
                                wildcard = Some(t);
                            }
                        }
                        _ => residue.push(format!("{}: arm {}", fname, short(quote::quote!(#arm)))),
                    }
                }
            }
            None => residue.push(format!("{}: not a single match", fname)),
        }
        for v in &variants {
            let t = assigned.get(v).cloned().or(wildcard.clone());
            match t {
                Some(t) => kind_rows.push((format!("{}_{}", en, v), t)),
                None => residue.push(format!("{}: no arm for {}", fname, v)),
            }
        }
    }
    // Node::as_target dispatch
    let mut as_target_ok = false;
    for it in &ast.items {
        if let Item::Impl(im) = it {
            if let syn::Type::Path(tp) = &*im.self_ty {
                if tp.path.is_ident("Node") && im.trait_.is_none() {
                    for ii in &im.items {
                        if let syn::ImplItem::Method(m) = ii {
                            if m.sig.ident == "as_target" {
                                let b = &m.block;
                                let got = quote::quote!(#b).to_string();
                                let expect = "{ match self { Self :: Expression (expression) => return expression_as_target (expression) , Self :: Statement (statement) => return statement_as_target (statement) , Self :: SourceUnit (_) => return Target :: SourceUnit , Self :: SourceUnitPart (source_unit_part) => { return source_unit_part_as_target (source_unit_part) } Self :: ContractPart (contract_part) => return contract_part_as_target (contract_part) , } }";
                                if got == expect {
                                    as_target_ok = true;
                                } else {
                                    residue.push(format!("Node::as_target differs from the modelled dispatch: {}", short(quote::quote!(#b))));
                                }
                            }
                        }
                    }
                }
            }
        }
    }
    if !as_target_ok && !residue.iter().any(|r| r.starts_with("Node::as_target")) {
        residue.push("Node::as_target not found".into());
    }
    kind_rows.push(("S_SourceUnit".into(), "SourceUnit".into()));

    let mut o = String::new();
    o.push_str("-- GENERATED by harness/src/bin/extract from src/analyzer/ast.rs (Target, *_as_target). Do not edit.\nimport Solstat.Gen.Schema\nnamespace Solstat.Gen\n\ninductive Target\n");
    for t in &targets {
        o.push_str(&format!("  | {}\n", lean_ctor(t)));
    }
    o.push_str("deriving DecidableEq, Repr, Inhabited\n\ndef Target.name : Target → String\n");
    for t in &targets {
        o.push_str(&format!("  | .{} => \"{}\"\n", lean_ctor(t), t));
    }
    o.push_str("\ndef allTargets : List Target := [");
    o.push_str(&targets.iter().map(|t| format!(".{}", lean_ctor(t))).collect::<Vec<_>>().join(", "));
    o.push_str("]\n\n/-- the code's kind tables (`Node::as_target`) -/\ndef kindOf : Tag → Target\n");
    for (tag, t) in &kind_rows {
        o.push_str(&format!("  | .{} => .{}\n", tag, lean_ctor(t)));
    }
    o.push_str(&format!("  | _ => .{}\n\n", lean_ctor("None")));
    o.push_str("/-- specification of kinds: the kind of a node is the `Target` that carries the name of its variant, `None` if there is none -/\ndef specKind : Tag → Target\n");
    for en in NODE_ENUMS {
        for (vn, _) in &s.enums[en] {
            let t = if targets.contains(vn) && vn != "None" { vn.as_str() } else { "None" };
            o.push_str(&format!("  | .{}_{} => .{}\n", en, vn, lean_ctor(t)));
        }
    }
    o.push_str(&format!("  | .S_SourceUnit => .{}\n", lean_ctor(if targets.iter().any(|t| t == "SourceUnit") { "SourceUnit" } else { "None" })));
    o.push_str(&format!("  | _ => .{}\n\n", lean_ctor("None")));
    o.push_str(&format!(
        "def targetsResidue : List String := [{}]\n\nend Solstat.Gen\n",
        residue.iter().map(|r| lean_str(r)).collect::<Vec<_>>().join(",\n  ")
    ));
    o
}

/// Lean constructor names that would clash with keywords / builtins
pub fn lean_ctor(n: &str) -> String {
    match n {
        "None" => "None_".into(),
        "Type" => "Type_".into(),
        "Function" => "Function_".into(),
        _ => n.to_string(),
    }
}

// ---------------------------------------------------------------------------------------------
struct Category {
    enum_name: &'static str,
    lean_prefix: &'static str,
    mod_rs: &'static str,
    str_fn: &'static str,
    all_fn: &'static str,
    analyze_fn: &'static str,
    report_rs: &'static str,
    section_fn: &'static str,
}

const CATEGORIES: [Category; 3] = [
    Category {
        enum_name: "Optimization",
        lean_prefix: "opt",
        mod_rs: "src/analyzer/optimizations/mod.rs",
        str_fn: "str_to_optimization",
        all_fn: "get_all_optimizations",
        analyze_fn: "analyze_for_optimization",
        report_rs: "src/report/optimization_report.rs",
        section_fn: "get_optimization_report_section",
    },
    Category {
        enum_name: "Vulnerability",
        lean_prefix: "vuln",
        mod_rs: "src/analyzer/vulnerabilities/mod.rs",
        str_fn: "str_to_vulnerability",
        all_fn: "get_all_vulnerabilities",
        analyze_fn: "analyze_for_vulnerability",
        report_rs: "src/report/vulnerability_report.rs",
        section_fn: "get_vulnerability_report_section",
    },
    Category {
        enum_name: "QualityAssurance",
        lean_prefix: "qa",
        mod_rs: "src/analyzer/qa/mod.rs",
        str_fn: "str_to_qa",
        all_fn: "get_all_qa",
        analyze_fn: "analyze_for_qa",
        report_rs: "src/report/qa_report.rs",
        section_fn: "get_qa_report_section",
    },
];

/// `module::report_section_content()` -> module
fn section_call(e: &Expr) -> Option<String> {
    if let Expr::Call(c) = e {
        if !c.args.is_empty() {
            return None;
        }
        if let Expr::Path(p) = &*c.func {
            let n = p.path.segments.len();
            if n >= 2 && p.path.segments[n - 1].ident == "report_section_content" {
                return Some(p.path.segments[n - 2].ident.to_string());
            }
        }
    }
    if let Expr::Block(b) = e {
        if b.block.stmts.len() == 1 {
            if let Stmt::Expr(e) = &b.block.stmts[0] {
                return section_call(e);
            }
        }
    }
    None
}

/// detector call `f(source_unit)` (possibly in a block) -> f
fn detector_call(e: &Expr) -> Option<String> {
    match e {
        Expr::Call(c) => {
            if c.args.len() != 1 || !matches!(&c.args[0], Expr::Path(p) if p.path.is_ident("source_unit")) {
                return None;
            }
            if let Expr::Path(p) = &*c.func {
                return p.path.get_ident().map(|i| i.to_string());
            }
            None
        }
        Expr::Block(b) if b.block.stmts.len() == 1 => match &b.block.stmts[0] {
            Stmt::Expr(e) => detector_call(e),
            _ => None,
        },
        _ => None,
    }
}

pub fn gen_patterns(repo: &str) -> String {
    let mut o = String::new();
    let mut residue: Vec<String> = vec![];
    let mut frame_residue: Vec<String> = vec![];
    o.push_str("-- GENERATED by harness/src/bin/extract from the three analyzer mod.rs and the three *_report.rs. Do not edit.\nnamespace Solstat.Gen\n\ninductive Severity | High | Medium | Low\nderiving DecidableEq, Repr, Inhabited\n\n");
    for c in &CATEGORIES {
        let px = c.lean_prefix;
        let file = parse(&format!("{}/{}", repo, c.mod_rs));
        let variants = file.as_ref().and_then(|f| enum_variants(f, c.enum_name)).unwrap_or_else(|| {
            residue.push(format!("{}: enum {} not found", c.mod_rs, c.enum_name));
            vec![]
        });
        o.push_str(&format!("inductive {}\n", c.enum_name));
        for v in &variants {
            o.push_str(&format!("  | {}\n", v));
        }
        if variants.is_empty() {
            o.push_str("  | Missing_\n");
        }
        o.push_str("deriving DecidableEq, Repr, Inhabited\n\n");
        o.push_str(&format!("def {}All : List {} := [{}]\n\n", px, c.enum_name, variants.iter().map(|v| format!(".{}", v)).collect::<Vec<_>>().join(", ")));
        o.push_str(&format!("def {}.name : {} → String\n", c.enum_name, c.enum_name));
        for v in &variants {
            o.push_str(&format!("  | .{} => \"{}\"\n", v, v));
        }
        if variants.is_empty() {
            o.push_str("  | .Missing_ => \"\"\n");
        }
        o.push('\n');
        // str_to_* : match opt.to_lowercase().as_str() { "lit" => E::V, ..., other => panic!(..) }
        let mut str_rows: Vec<(String, String)> = vec![];
        let mut str_ok = false;
        if let Some(f) = file.as_ref().and_then(|f| find_fn(f, c.str_fn)) {
            if let Some(m) = single_match(f) {
                let scrut = &m.expr;
                let scrut_s = quote::quote!(#scrut).to_string();
                let arg = f.sig.inputs.first().and_then(|a| if let syn::FnArg::Typed(pt) = a { if let Pat::Ident(i) = &*pt.pat { Some(i.ident.to_string()) } else { None } } else { None }).unwrap_or_default();
                if scrut_s == format!("{} . to_lowercase () . as_str ()", arg) {
                    str_ok = true;
                } else {
                    residue.push(format!("{}: scrutinee is `{}`, not `<arg>.to_lowercase().as_str()`", c.str_fn, scrut_s));
                }
                let mut saw_fallback = false;
                for arm in &m.arms {
                    if saw_fallback {
                        continue; // unreachable arms
                    }
                    match &arm.pat {
                        Pat::Lit(l) => {
                            if let Expr::Lit(syn::ExprLit { lit: syn::Lit::Str(ls), .. }) = &*l.expr {
                                match path_result(&arm.body, c.enum_name) {
                                    Some(v) if variants.contains(&v) && arm.guard.is_none() => {
                                        if !str_rows.iter().any(|r| r.0 == ls.value()) {
                                            str_rows.push((ls.value(), v));
                                        }
                                    }
                                    _ => residue.push(format!("{}: arm {}", c.str_fn, short(quote::quote!(#arm)))),
                                }
                            } else {
                                residue.push(format!("{}: arm {}", c.str_fn, short(quote::quote!(#arm))));
                            }
                        }
                        Pat::Ident(_) | Pat::Wild(_) if arm.guard.is_none() => {
                            // fallback must panic
                            let body = &arm.body;
                            let b = quote::quote!(#body).to_string();
                            if b.contains("panic !") {
                                saw_fallback = true;
                            } else {
                                residue.push(format!("{}: fallback arm does not panic: {}", c.str_fn, short(quote::quote!(#arm))));
                                saw_fallback = true;
                            }
                        }
                        _ => residue.push(format!("{}: arm {}", c.str_fn, short(quote::quote!(#arm)))),
                    }
                }
                if !saw_fallback {
                    residue.push(format!("{}: no fallback arm", c.str_fn));
                }
            } else {
                residue.push(format!("{}: not a single match", c.str_fn));
            }
        } else {
            residue.push(format!("{} not found", c.str_fn));
        }
        o.push_str(&format!("/-- `{}`: accepted lower-case literal ↦ variant (anything else panics) -/\ndef {}StrTable : List (String × {}) := [\n", c.str_fn, px, c.enum_name));
        o.push_str(&str_rows.iter().map(|(l, v)| format!("  ({}, .{})", lean_str(l), v)).collect::<Vec<_>>().join(",\n"));
        o.push_str("]\n\n");
        o.push_str(&format!("def {}StrLowercases : Bool := {}\n\n", px, str_ok));
        // get_all_* : vec![E::A, E::B, ...]
        let mut defaults: Vec<String> = vec![];
        if let Some(f) = file.as_ref().and_then(|f| find_fn(f, c.all_fn)) {
            let mut ok = false;
            if f.block.stmts.len() == 1 {
                if let Stmt::Expr(Expr::Macro(m)) = &f.block.stmts[0] {
                    if m.mac.path.is_ident("vec") {
                        if let Ok(list) = m.mac.parse_body_with(syn::punctuated::Punctuated::<Expr, syn::Token![,]>::parse_terminated) {
                            ok = true;
                            for e in list {
                                match path_result(&e, c.enum_name) {
                                    Some(v) if variants.contains(&v) => defaults.push(v),
                                    _ => {
                                        ok = false;
                                    }
                                }
                            }
                        }
                    }
                }
            }
            if !ok {
                residue.push(format!("{}: not a plain vec![..] of variants", c.all_fn));
            }
        } else {
            residue.push(format!("{} not found", c.all_fn));
        }
        o.push_str(&format!("def {}Defaults : List {} := [{}]\n\n", px, c.enum_name, defaults.iter().map(|v| format!(".{}", v)).collect::<Vec<_>>().join(", ")));
        // analyze_for_* dispatch and frame
        let mut dispatch: Vec<(String, String)> = vec![];
        if let Some(f) = file.as_ref().and_then(|f| find_fn(f, c.analyze_fn)) {
            let mut found = false;
            for st in &f.block.stmts {
                if let Stmt::Local(l) = st {
                    if let Some((_, init)) = &l.init {
                        if let Expr::Match(m) = &**init {
                            found = true;
                            let mut wild_seen = false;
                            for arm in &m.arms {
                                if wild_seen {
                                    continue;
                                }
                                match (pat_variant(&arm.pat), detector_call(&arm.body)) {
                                    (Some(Some((e, v))), Some(d)) if e == c.enum_name && variants.contains(&v) && arm.guard.is_none() => {
                                        if !dispatch.iter().any(|r| r.0 == v) {
                                            dispatch.push((v, d));
                                        }
                                    }
                                    (Some(None), None) => {
                                        wild_seen = true; // `_ => panic!(..)` after an exhaustive list is dead code
                                    }
                                    _ => residue.push(format!("{}: arm {}", c.analyze_fn, short(quote::quote!(#arm)))),
                                }
                            }
                        }
                    }
                }
            }
            if !found {
                residue.push(format!("{}: dispatch match not found", c.analyze_fn));
            }
            // frame: everything except the dispatch must be the modelled text
            let frame: Vec<String> = f
                .block
                .stmts
                .iter()
                .filter(|st| !matches!(st, Stmt::Local(l) if matches!(l.init.as_ref().map(|i| &*i.1), Some(Expr::Match(_)))))
                .map(|st| quote::quote!(#st).to_string())
                .collect();
            let expect_a = vec![
                "let mut line_numbers : BTreeSet < LineNumber > = BTreeSet :: new () ;".to_string(),
                "let source_unit = solang_parser :: parse (file_contents , file_number) . unwrap () . 0 ;".to_string(),
                "for loc in locations { line_numbers . insert (utils :: get_line_number (loc . start () , file_contents)) ; }".to_string(),
                "line_numbers".to_string(),
            ];
            let mut expect_b = expect_a.clone();
            expect_b[1] = "let source_unit = solang_parser :: parse (& file_contents , file_number) . unwrap () . 0 ;".to_string();
            if frame != expect_a && frame != expect_b {
                frame_residue.push(format!("{}: frame differs from the modelled per-file entry point", c.analyze_fn));
            }
        } else {
            residue.push(format!("{} not found", c.analyze_fn));
        }
        for v in &variants {
            if !dispatch.iter().any(|r| &r.0 == v) {
                residue.push(format!("{}: no dispatch arm for {}", c.analyze_fn, v));
            }
        }
        o.push_str(&format!("/-- `{}`: variant ↦ detector function -/\ndef {}Dispatch : List ({} × String) := [\n", c.analyze_fn, px, c.enum_name));
        o.push_str(&dispatch.iter().map(|(v, d)| format!("  (.{}, \"{}\")", v, d)).collect::<Vec<_>>().join(",\n"));
        o.push_str("]\n\n");
        // report section mapping
        let rfile = parse(&format!("{}/{}", repo, c.report_rs));
        let mut sect: Vec<(String, String, Option<String>)> = vec![];
        if let Some(f) = rfile.as_ref().and_then(|f| find_fn(f, c.section_fn)) {
            if let Some(m) = single_match(f) {
                for arm in &m.arms {
                    let pv = pat_variant(&arm.pat);
                    let (module, sev) = match &*arm.body {
                        Expr::Tuple(t) if t.elems.len() == 2 => (section_call(&t.elems[0]), path_result(&t.elems[1], "VulnerabilitySeverity")),
                        other => (section_call(other), None),
                    };
                    match (pv, module) {
                        (Some(Some((e, v))), Some(md)) if e == c.enum_name && variants.contains(&v) && arm.guard.is_none() => {
                            if c.enum_name == "Vulnerability" && sev.is_none() {
                                residue.push(format!("{}: no severity in arm {}", c.section_fn, short(quote::quote!(#arm))));
                            }
                            if !sect.iter().any(|r| r.0 == v) {
                                sect.push((v, md, sev));
                            }
                        }
                        _ => residue.push(format!("{}: arm {}", c.section_fn, short(quote::quote!(#arm)))),
                    }
                }
            } else {
                residue.push(format!("{}: not a single match", c.section_fn));
            }
        } else {
            residue.push(format!("{} not found", c.section_fn));
        }
        for v in &variants {
            if !sect.iter().any(|r| &r.0 == v) {
                residue.push(format!("{}: no arm for {}", c.section_fn, v));
            }
        }
        o.push_str(&format!("/-- `{}`: variant ↦ report-section module -/\ndef {}Section : List ({} × String) := [\n", c.section_fn, px, c.enum_name));
        o.push_str(&sect.iter().map(|(v, m, _)| format!("  (.{}, \"{}\")", v, m)).collect::<Vec<_>>().join(",\n"));
        o.push_str("]\n\n");
        if c.enum_name == "Vulnerability" {
            o.push_str("def vulnSeverity : List (Vulnerability × Severity) := [\n");
            o.push_str(&sect.iter().filter_map(|(v, _, s)| s.as_ref().map(|s| format!("  (.{}, .{})", v, s))).collect::<Vec<_>>().join(",\n"));
            o.push_str("]\n\n");
        }
    }
    o.push_str(&format!(
        "def patternsResidue : List String := [{}]\n\n",
        residue.iter().map(|r| lean_str(r)).collect::<Vec<_>>().join(",\n  ")
    ));
    // the per-file entry points (parse, run the detector, convert every location to its line) are modelled by
    // `analyzeLines`; anything else in their bodies (a cache, a filter, another conversion) is listed here
    o.push_str(&format!(
        "def entryFrameResidue : List String := [{}]\n\nend Solstat.Gen\n",
        frame_residue.iter().map(|r| lean_str(r)).collect::<Vec<_>>().join(",\n  ")
    ));
    o
}

// ---------------------------------------------------------------------------------------------
fn lines_of(text: &str) -> Vec<String> {
    // text must end in '\n'; returns the lines without their terminator
    let mut v: Vec<String> = text.split('\n').map(|s| s.to_string()).collect();
    v.pop();
    v
}

fn lean_lines(name: &str, lines: &[String]) -> String {
    format!(
        "def {} : List String := [\n{}]\n\n",
        name,
        lines.iter().map(|l| format!("  {}", lean_str(l))).collect::<Vec<_>>().join(",\n")
    )
}

/// the string a `report_section_content()` returns: `String::from(<lit>)`; Some((text, None)) or for
/// `String::from(format!(<lit>, arg))` Some((text with one `{}`, Some(())))
fn section_literal(f: &syn::ItemFn) -> Option<(String, bool)> {
    if f.block.stmts.len() != 1 {
        return None;
    }
    let e = match &f.block.stmts[0] {
        Stmt::Expr(e) => e,
        _ => return None,
    };
    if let Expr::Call(c) = e {
        let fs = &c.func;
        if quote::quote!(#fs).to_string() != "String :: from" || c.args.len() != 1 {
            return None;
        }
        match &c.args[0] {
            Expr::Lit(syn::ExprLit { lit: syn::Lit::Str(ls), .. }) => Some((ls.value(), false)),
            Expr::Macro(m) if m.mac.path.is_ident("format") => {
                let args = m.mac.parse_body_with(syn::punctuated::Punctuated::<Expr, syn::Token![,]>::parse_terminated).ok()?;
                if args.len() != 2 {
                    return None;
                }
                if let Expr::Lit(syn::ExprLit { lit: syn::Lit::Str(ls), .. }) = &args[0] {
                    let v = ls.value();
                    if v.matches("{}").count() == 1 && !v.replace("{}", "").contains('{') && !v.replace("{}", "").contains('}') {
                        return Some((v, true));
                    }
                }
                None
            }
            _ => None,
        }
    } else {
        None
    }
}

pub fn gen_sections(repo: &str) -> String {
    let mut o = String::new();
    let mut residue: Vec<String> = vec![];
    o.push_str("-- GENERATED by harness/src/bin/extract from src/report/report_sections/**. Do not edit.\n-- Each section is given as the lines of `report_section_content() + \"\\n\"` (the renderer always appends that newline).\nnamespace Solstat.Gen\n\n");
    let mut table: Vec<(String, String, String)> = vec![]; // (category dir, module, lean name)
    for (dir, px) in [("optimizations", "opt"), ("vulnerabilities", "vuln"), ("qa", "qa")] {
        let d = format!("{}/src/report/report_sections/{}", repo, dir);
        let mut names: Vec<String> = std::fs::read_dir(&d)
            .map(|rd| rd.filter_map(|e| e.ok()).map(|e| e.file_name().to_str().unwrap().to_string()).collect())
            .unwrap_or_default();
        names.sort();
        for n in names {
            if !n.ends_with(".rs") || n == "mod.rs" {
                continue;
            }
            let module = n.trim_end_matches(".rs").to_string();
            let file = parse(&format!("{}/{}", d, n));
            let lit = file.as_ref().and_then(|f| find_fn(f, "report_section_content")).and_then(section_literal);
            let lean_name = format!("sec_{}_{}", px, module);
            match lit {
                Some((text, is_fmt)) => {
                    if module == "overview" && dir != "qa" {
                        // `format!` overview, printed as is (no extra newline appended)
                        if !is_fmt {
                            residue.push(format!("{}/{}: overview is not a format! with one placeholder", dir, n));
                        }
                        if !text.ends_with('\n') {
                            residue.push(format!("{}/{}: overview text does not end in a newline", dir, n));
                        }
                        let idx = text.find("{}").unwrap_or(0);
                        let (pre, post) = (text[..idx].to_string(), text[idx + if is_fmt { 2 } else { 0 }..].to_string());
                        // the placeholder must sit inside one line
                        let pre_lines: Vec<&str> = pre.split('\n').collect();
                        let post_lines: Vec<&str> = post.split('\n').collect();
                        let before: Vec<String> = pre_lines[..pre_lines.len() - 1].iter().map(|s| s.to_string()).collect();
                        let mut after: Vec<String> = post_lines[1..].iter().map(|s| s.to_string()).collect();
                        if text.ends_with('\n') {
                            after.pop();
                        }
                        o.push_str(&lean_lines(&format!("{}_before", lean_name), &before));
                        o.push_str(&format!("def {}_linePre : String := {}\n", lean_name, lean_str(pre_lines[pre_lines.len() - 1])));
                        o.push_str(&format!("def {}_linePost : String := {}\n\n", lean_name, lean_str(post_lines[0])));
                        o.push_str(&lean_lines(&format!("{}_after", lean_name), &after));
                    } else {
                        if is_fmt {
                            residue.push(format!("{}/{}: unexpected format! in a section", dir, n));
                        }
                        let full = format!("{}\n", text);
                        o.push_str(&lean_lines(&lean_name, &lines_of(&full)));
                        table.push((px.to_string(), module.clone(), lean_name.clone()));
                    }
                }
                None => residue.push(format!("{}/{}: report_section_content is not String::from(<literal>)", dir, n)),
            }
        }
    }
    for px in ["opt", "vuln", "qa"] {
        o.push_str(&format!("def {}SectionText : String → Option (List String)\n", px));
        for (p, m, ln) in &table {
            if p == px {
                o.push_str(&format!("  | \"{}\" => some {}\n", m, ln));
            }
        }
        o.push_str("  | _ => none\n\n");
    }
    // literals of the vulnerability renderer: headings and the literals they are compared with
    let vr = parse(&format!("{}/src/report/vulnerability_report.rs", repo));
    let mut heads: Vec<(String, String, String)> = vec![]; // (severity, initial literal, compared literal)
    if let Some(f) = vr.as_ref().and_then(|f| find_fn(f, "generate_vulnerability_report")) {
        let mut init: std::collections::BTreeMap<String, String> = Default::default();
        let mut cmp: std::collections::BTreeMap<String, String> = Default::default();
        for st in &f.block.stmts {
            let txt = quote::quote!(#st).to_string();
            for sev in ["high", "medium", "low"] {
                let var = format!("{}_severity_report_section", sev);
                if let Some(rest) = txt.strip_prefix(&format!("let mut {} = String :: from (", var)) {
                    if let Some(end) = rest.rfind(") ;") {
                        if let Ok(l) = syn::parse_str::<syn::LitStr>(&rest[..end]) {
                            init.insert(sev.to_string(), l.value());
                        }
                    }
                }
                if let Some(rest) = txt.strip_prefix(&format!("if {} != String :: from (", var)) {
                    if let Some(end) = rest.find(") {") {
                        if let Ok(l) = syn::parse_str::<syn::LitStr>(&rest[..end]) {
                            let body_expect = format!("{{ vulnerability_report . push_str (& {}) ; }}", var);
                            if rest[end + 2..].trim() == body_expect {
                                cmp.insert(sev.to_string(), l.value());
                            }
                        }
                    }
                }
            }
        }
        for sev in ["high", "medium", "low"] {
            match (init.get(sev), cmp.get(sev)) {
                (Some(a), Some(b)) => heads.push((sev.to_string(), a.clone(), b.clone())),
                _ => residue.push(format!("vulnerability_report.rs: heading literals for {} not found", sev)),
            }
        }
    } else {
        residue.push("generate_vulnerability_report not found".into());
    }
    o.push_str("/-- (severity, literal the section starts with, literal it is compared with before printing) -/\ndef vulnHeadings : List (String × String × String) := [\n");
    o.push_str(&heads.iter().map(|(s, a, b)| format!("  (\"{}\", {}, {})", s, lean_str(a), lean_str(b))).collect::<Vec<_>>().join(",\n"));
    o.push_str("]\n\n");
    o.push_str(&format!(
        "def sectionsResidue : List String := [{}]\n\nend Solstat.Gen\n",
        residue.iter().map(|r| lean_str(r)).collect::<Vec<_>>().join(",\n  ")
    ));
    o
}

// ---------------------------------------------------------------------------------------------
pub fn gen_typesize(s: &Schema, repo: &str) -> String {
    let mut residue: Vec<String> = vec![];
    let mut rows: Vec<(String, String)> = vec![]; // (Type variant, lean expr over `n`)
    let mut wildcard: Option<String> = None;
    let mut fallthrough: Option<String> = None;
    let file = parse(&format!("{}/src/analyzer/utils.rs", repo));
    let type_variants: Vec<(String, usize)> = s.enums["Type"].iter().map(|v| (v.0.clone(), v.1.len())).collect();
    if let Some(f) = file.as_ref().and_then(|f| find_fn(f, "get_type_size")) {
        // if let pt::Expression::Type(_, ty) = expression { match ty { ... } }  <tail literal>
        let stmts = &f.block.stmts;
        let mut ok = false;
        if stmts.len() == 2 {
            if let (Stmt::Expr(Expr::If(ifx)), Stmt::Expr(Expr::Lit(tail))) = (&stmts[0], &stmts[1]) {
                let cond = &ifx.cond;
                if quote::quote!(#cond).to_string() == "let pt :: Expression :: Type (_ , ty) = expression" && ifx.else_branch.is_none() && ifx.then_branch.stmts.len() == 1 {
                    if let Stmt::Expr(Expr::Match(m)) = &ifx.then_branch.stmts[0] {
                        let sc = &m.expr;
                        if quote::quote!(#sc).to_string() == "ty" {
                            ok = true;
                            if let syn::Lit::Int(li) = &tail.lit {
                                fallthrough = Some(li.base10_digits().to_string());
                            } else {
                                ok = false;
                            }
                            for arm in &m.arms {
                                let body = match &*arm.body {
                                    Expr::Return(r) => r.expr.as_deref(),
                                    _ => None,
                                };
                                let body_s = body.map(|b| quote::quote!(#b).to_string());
                                let val = match body_s.as_deref() {
                                    Some(b) if b.chars().all(|c| c.is_ascii_digit()) => Some(b.to_string()),
                                    Some("_size") => Some("n".to_string()),
                                    Some("(_size as u16) * 8") => Some("n * 8".to_string()),
                                    _ => None,
                                };
                                match (pat_variant(&arm.pat), val) {
                                    (Some(Some((e, v))), Some(val)) if e == "Type" && type_variants.iter().any(|t| t.0 == v) && arm.guard.is_none() => {
                                        if wildcard.is_none() && !rows.iter().any(|r| r.0 == v) {
                                            rows.push((v, val));
                                        }
                                    }
                                    (Some(None), Some(val)) => {
                                        if wildcard.is_none() {
                                            wildcard = Some(val);
                                        }
                                    }
                                    _ => residue.push(format!("get_type_size: arm {}", short(quote::quote!(#arm)))),
                                }
                            }
                        }
                    }
                }
            }
        }
        if !ok {
            residue.push("get_type_size: unexpected frame".into());
        }
    } else {
        residue.push("get_type_size not found".into());
    }
    let mut o = String::new();
    o.push_str("-- GENERATED by harness/src/bin/extract from src/analyzer/utils.rs (get_type_size). Do not edit.\nimport Solstat.Gen.Schema\nnamespace Solstat.Gen\n\n/-- size in bits the code attributes to `Expression::Type(_, <variant>(n))`; `n` is the variant's numeric field (0 if none) -/\ndef typeSizeOfTag (tag : Tag) (n : Nat) : Nat :=\n  match tag with\n");
    for (v, _) in &type_variants {
        let val = rows.iter().find(|r| &r.0 == v).map(|r| r.1.clone()).or(wildcard.clone());
        match val {
            Some(val) => o.push_str(&format!("  | .Type_{} => {}\n", v, val)),
            None => residue.push(format!("get_type_size: no arm for {}", v)),
        }
    }
    o.push_str(&format!("  | _ => {}\n\n", fallthrough.clone().unwrap_or("0".into())));
    o.push_str(&format!("/-- size for an expression that is not a `Type` -/\ndef typeSizeNonType : Nat := {}\n\n", fallthrough.unwrap_or("0".into())));
    o.push_str(&format!(
        "def typeSizeResidue : List String := [{}]\n\nend Solstat.Gen\n",
        residue.iter().map(|r| lean_str(r)).collect::<Vec<_>>().join(",\n  ")
    ));
    o
}

// ---------------------------------------------------------------------------------------------
fn md_table_names(path: &str) -> Vec<String> {
    let mut out = vec![];
    if let Ok(t) = std::fs::read_to_string(path) {
        for l in t.lines() {
            let l = l.trim();
            if l.starts_with('|') {
                let cells: Vec<&str> = l.split('|').collect();
                if cells.len() >= 3 {
                    let c = cells[1].trim();
                    if !c.is_empty() && c.chars().all(|ch| ch.is_ascii_lowercase() || ch.is_ascii_digit() || ch == '_') {
                        out.push(c.to_string());
                    }
                }
            }
        }
    }
    out
}

/// minimal reader for the three string arrays of Solstat.toml
fn toml_array(text: &str, key: &str) -> Vec<String> {
    let mut out = vec![];
    if let Some(pos) = text.lines().position(|l| l.trim_start().starts_with(&format!("{} ", key)) || l.trim_start().starts_with(&format!("{}=", key))) {
        let rest: String = text.lines().skip(pos).collect::<Vec<_>>().join("\n");
        if let (Some(a), Some(b)) = (rest.find('['), rest.find(']')) {
            for part in rest[a + 1..b].split(',') {
                let p = part.trim().trim_matches('"').trim_matches('\'');
                if !p.is_empty() {
                    out.push(p.to_string());
                }
            }
        }
    }
    out
}

pub fn gen_docs(repo: &str) -> String {
    let mut o = String::new();
    o.push_str("-- GENERATED by harness/src/bin/extract from docs/identified-*.md and Solstat.toml. Do not edit.\nnamespace Solstat.Gen\n\n");
    let list = |name: &str, v: &[String]| format!("def {} : List String := [{}]\n\n", name, v.iter().map(|s| lean_str(s)).collect::<Vec<_>>().join(", "));
    o.push_str(&list("docsOptNames", &md_table_names(&format!("{}/docs/identified-optimizations.md", repo))));
    o.push_str(&list("docsVulnNames", &md_table_names(&format!("{}/docs/identified-vulnerabilities.md", repo))));
    o.push_str(&list("docsQaNames", &md_table_names(&format!("{}/docs/identified-quality-assurance.md", repo))));
    let toml = std::fs::read_to_string(format!("{}/Solstat.toml", repo)).unwrap_or_default();
    o.push_str(&list("tomlOptNames", &toml_array(&toml, "optimizations")));
    o.push_str(&list("tomlVulnNames", &toml_array(&toml, "vulnerabilities")));
    o.push_str(&list("tomlQaNames", &toml_array(&toml, "qa")));
    o.push_str("end Solstat.Gen\n");
    o
}
