//! Inventories of the non-test code under src/: sites that can panic, sites with file-system /
//! process / environment effects, and global-state sites. Keyed by (file, enclosing fn, kind, ordinal),
//! never by line number, so reformatting does not change them.
use super::lean_str;
use std::collections::BTreeMap;
use syn::visit::{self, Visit};

struct V {
    file: String,
    fn_stack: Vec<String>,
    counters: BTreeMap<(String, String), usize>,
    panic_sites: Vec<String>,
    effect_sites: Vec<String>,
    global_sites: Vec<String>,
}

fn is_test_attr(attrs: &[syn::Attribute]) -> bool {
    attrs.iter().any(|a| {
        let s = quote::quote!(#a).to_string();
        s == "# [test]" || s.starts_with("# [cfg (test") || s == "# [cfg (test)]"
    })
}

impl V {
    fn cur(&self) -> String {
        self.fn_stack.last().cloned().unwrap_or_else(|| "<top>".into())
    }
    fn site(&mut self, kind: &str) -> String {
        let f = self.cur();
        let c = self.counters.entry((f.clone(), kind.to_string())).or_insert(0);
        let s = format!("{}::{}::{}#{}", self.file, f, kind, *c);
        *c += 1;
        s
    }
    fn panic(&mut self, kind: &str) {
        let s = self.site(kind);
        self.panic_sites.push(s);
    }
    fn effect(&mut self, kind: &str) {
        let s = self.site(kind);
        self.effect_sites.push(s);
    }
    fn global(&mut self, kind: &str) {
        let s = self.site(kind);
        self.global_sites.push(s);
    }
}

const EFFECT_ROOTS: [&str; 8] = ["fs", "File", "OpenOptions", "process", "env", "Command", "io", "net"];
const STATE_TYPES: [&str; 12] = [
    "Cell", "RefCell", "Mutex", "RwLock", "OnceCell", "OnceLock", "Lazy", "AtomicBool", "AtomicUsize", "AtomicU64", "AtomicI32", "UnsafeCell",
];

impl<'ast> Visit<'ast> for V {
    fn visit_item_fn(&mut self, f: &'ast syn::ItemFn) {
        if is_test_attr(&f.attrs) {
            return;
        }
        if f.sig.unsafety.is_some() {
            self.global("unsafe_fn");
        }
        self.fn_stack.push(f.sig.ident.to_string());
        visit::visit_item_fn(self, f);
        self.fn_stack.pop();
    }
    fn visit_impl_item_method(&mut self, f: &'ast syn::ImplItemMethod) {
        if is_test_attr(&f.attrs) {
            return;
        }
        self.fn_stack.push(f.sig.ident.to_string());
        visit::visit_impl_item_method(self, f);
        self.fn_stack.pop();
    }
    fn visit_item_mod(&mut self, m: &'ast syn::ItemMod) {
        if is_test_attr(&m.attrs) {
            return;
        }
        visit::visit_item_mod(self, m);
    }
    fn visit_item_static(&mut self, s: &'ast syn::ItemStatic) {
        self.global(&format!("static:{}", s.ident));
        visit::visit_item_static(self, s);
    }
    fn visit_expr_unsafe(&mut self, u: &'ast syn::ExprUnsafe) {
        self.global("unsafe_block");
        visit::visit_expr_unsafe(self, u);
    }
    fn visit_item_impl(&mut self, i: &'ast syn::ItemImpl) {
        if i.unsafety.is_some() {
            self.global("unsafe_impl");
        }
        visit::visit_item_impl(self, i);
    }
    fn visit_type_path(&mut self, t: &'ast syn::TypePath) {
        if let Some(seg) = t.path.segments.last() {
            let n = seg.ident.to_string();
            if STATE_TYPES.contains(&n.as_str()) {
                self.global(&format!("type:{}", n));
            }
        }
        visit::visit_type_path(self, t);
    }
    fn visit_macro(&mut self, m: &'ast syn::Macro) {
        let name = m.path.segments.last().map(|s| s.ident.to_string()).unwrap_or_default();
        match name.as_str() {
            "panic" | "unreachable" | "unimplemented" | "todo" | "assert" | "assert_eq" | "assert_ne" => self.panic(&format!("macro:{}", name)),
            "lazy_static" | "thread_local" => self.global(&format!("macro:{}", name)),
            _ => {}
        }
        // look inside macro arguments that are plain expression lists (vec!, format!, ...)
        if let Ok(list) = m.parse_body_with(syn::punctuated::Punctuated::<syn::Expr, syn::Token![,]>::parse_terminated) {
            for e in list.iter() {
                self.visit_expr(e);
            }
        }
        visit::visit_macro(self, m);
    }
    fn visit_expr_method_call(&mut self, m: &'ast syn::ExprMethodCall) {
        let name = m.method.to_string();
        match name.as_str() {
            "unwrap" | "expect" | "unwrap_err" | "expect_err" => self.panic(&format!("call:{}", name)),
            "parse" => self.panic("call:parse"),
            "remove" | "swap_remove" | "split_at" | "insert" if false => {}
            _ => {}
        }
        visit::visit_expr_method_call(self, m);
    }
    fn visit_expr_index(&mut self, i: &'ast syn::ExprIndex) {
        self.panic("index");
        visit::visit_expr_index(self, i);
    }
    fn visit_expr_binary(&mut self, b: &'ast syn::ExprBinary) {
        use syn::BinOp::*;
        let k = match b.op {
            Add(_) => Some("+"),
            Sub(_) => Some("-"),
            Mul(_) => Some("*"),
            Div(_) => Some("/"),
            Rem(_) => Some("%"),
            Shl(_) => Some("<<"),
            Shr(_) => Some(">>"),
            AddEq(_) => Some("+="),
            SubEq(_) => Some("-="),
            MulEq(_) => Some("*="),
            DivEq(_) => Some("/="),
            RemEq(_) => Some("%="),
            ShlEq(_) => Some("<<="),
            ShrEq(_) => Some(">>="),
            _ => None,
        };
        if let Some(k) = k {
            self.panic(&format!("arith:{}", k));
        }
        visit::visit_expr_binary(self, b);
    }
    fn visit_expr_assign_op(&mut self, a: &'ast syn::ExprAssignOp) {
        let op = &a.op;
        self.panic(&format!("arith:{}", quote::quote!(#op).to_string().replace(' ', "")));
        visit::visit_expr_assign_op(self, a);
    }
    fn visit_expr_cast(&mut self, c: &'ast syn::ExprCast) {
        let t = &c.ty;
        self.panic(&format!("cast:{}", quote::quote!(#t).to_string().replace(' ', "")));
        visit::visit_expr_cast(self, c);
    }
    fn visit_expr_path(&mut self, p: &'ast syn::ExprPath) {
        let segs: Vec<String> = p.path.segments.iter().map(|s| s.ident.to_string()).collect();
        // fs::write, std::fs::read_dir, process::exit, env::var, File::open, Args::parse ...
        for (i, s) in segs.iter().enumerate() {
            if EFFECT_ROOTS.contains(&s.as_str()) && i + 1 < segs.len() {
                self.effect(&format!("{}::{}", s, segs[i + 1..].join("::")));
                break;
            }
        }
        if segs.len() == 2 && segs[0] == "Args" && segs[1] == "parse" {
            self.effect("Args::parse");
        }
        visit::visit_expr_path(self, p);
    }
}

fn rs_files(dir: &std::path::Path, out: &mut Vec<std::path::PathBuf>) {
    if let Ok(rd) = std::fs::read_dir(dir) {
        let mut es: Vec<_> = rd.filter_map(|e| e.ok()).map(|e| e.path()).collect();
        es.sort();
        for p in es {
            if p.is_dir() {
                rs_files(&p, out);
            } else if p.extension().map(|e| e == "rs").unwrap_or(false) {
                out.push(p);
            }
        }
    }
}

pub fn gen_inventory(repo: &str) -> String {
    let mut files = vec![];
    rs_files(std::path::Path::new(&format!("{}/src", repo)), &mut files);
    let mut panic_sites = vec![];
    let mut effect_sites = vec![];
    let mut global_sites = vec![];
    let mut residue = vec![];
    for p in files {
        let rel = p.strip_prefix(repo).unwrap().to_str().unwrap().trim_start_matches('/').to_string();
        // report section texts are pure literals; skip them for speed but still scan for effects
        let src = match std::fs::read_to_string(&p) {
            Ok(s) => s,
            Err(_) => {
                residue.push(format!("{}: unreadable", rel));
                continue;
            }
        };
        let file = match syn::parse_file(&src) {
            Ok(f) => f,
            Err(_) => {
                residue.push(format!("{}: does not parse", rel));
                continue;
            }
        };
        let mut v = V { file: rel, fn_stack: vec![], counters: BTreeMap::new(), panic_sites: vec![], effect_sites: vec![], global_sites: vec![] };
        v.visit_file(&file);
        panic_sites.extend(v.panic_sites);
        effect_sites.extend(v.effect_sites);
        global_sites.extend(v.global_sites);
    }
    let list = |name: &str, v: &[String]| format!("def {} : List String := [\n{}]\n\n", name, v.iter().map(|s| format!("  {}", lean_str(s))).collect::<Vec<_>>().join(",\n"));
    let mut o = String::new();
    o.push_str("-- GENERATED by harness/src/bin/extract from all non-test code under src/. Do not edit.\nnamespace Solstat.Gen\n\n");
    // `as` conversions never abort (they truncate / saturate) and `str::parse` returns a Result (the `unwrap`/`expect`
    // applied to it, if any, is a site of its own); both are listed for information only
    let (cast_sites, panic_sites): (Vec<String>, Vec<String>) =
        panic_sites.into_iter().partition(|s| s.contains("::cast:") || s.contains("::call:parse#"));
    o.push_str(&list("panicSites", &panic_sites));
    o.push_str(&list("castSites", &cast_sites));
    // per (file, kind) counts: a refactor that moves a site into a helper function changes the site's name, not
    // the number of sites of that kind in the file
    let mut counts: BTreeMap<(String, String), usize> = BTreeMap::new();
    for s in &panic_sites {
        let parts: Vec<&str> = s.splitn(3, "::").collect();
        // area of the crate: src/report/*, src/analyzer/** or the files directly under src/ — a site may move between
        // the files of an area (a shared helper), which changes no count
        let comps: Vec<&str> = parts[0].split('/').collect();
        let file = if comps.len() >= 3 { format!("src/{}", comps[1]) } else { "src".to_string() };
        let kind = s.rsplit("::").next().unwrap_or("").split('#').next().unwrap_or("").to_string();
        // `x = x + 1` and `x += 1`, `unwrap()` and `expect(..)` are the same site written differently
        let kind = if kind.starts_with("arith:") {
            "arith".to_string()
        } else if kind == "call:unwrap" || kind == "call:expect" {
            "unwrap".to_string()
        } else {
            kind
        };
        // kinds such as `call:unwrap` contain `::`-free text; `fs::read_dir` style kinds only occur among effects
        *counts.entry((file, kind)).or_insert(0) += 1;
    }
    o.push_str(&format!(
        "def panicSiteCounts : List (String × String × Nat) := [\n{}]\n\n",
        counts.iter().map(|((f, k), n)| format!("  ({}, {}, {})", lean_str(f), lean_str(k), n)).collect::<Vec<_>>().join(",\n")
    ));
    o.push_str(&list("effectSites", &effect_sites));
    // (file, call) of every effect site, whatever function it sits in
    let mut calls: Vec<(String, String)> = effect_sites
        .iter()
        .map(|s| {
            let mut it = s.splitn(3, "::");
            let file = it.next().unwrap_or("").to_string();
            let _func = it.next();
            let call = it.next().unwrap_or("").split('#').next().unwrap_or("").to_string();
            (file, call)
        })
        .collect();
    calls.sort();
    o.push_str(&format!(
        "def effectCalls : List (String × String) := [\n{}]\n\n",
        calls.iter().map(|(f, c)| format!("  ({}, {})", lean_str(f), lean_str(c))).collect::<Vec<_>>().join(",\n")
    ));
    o.push_str(&list("globalSites", &global_sites));
    o.push_str(&list("inventoryResidue", &residue));
    o.push_str("end Solstat.Gen\n");
    o
}
