//! Thin in-process wrappers around the real solstat library API (path dependency on /repo).
use solang_parser::pt::{Loc, SourceUnit};
use solstat::analyzer::ast::Target;
use solstat::analyzer::optimizations::{self as opt, Optimization};
use solstat::analyzer::qa::{self, QualityAssurance};
use solstat::analyzer::vulnerabilities::{self as vuln, Vulnerability};
use std::collections::{BTreeSet, HashSet};
use std::panic::{catch_unwind, AssertUnwindSafe};

pub fn silence_panics() {
    std::panic::set_hook(Box::new(|_| {}));
}

macro_rules! targets {
    ($($n:ident),* $(,)?) => { pub fn all_targets() -> Vec<(&'static str, Target)> { vec![$((stringify!($n), Target::$n)),*] } };
}
targets!(
    Args, Return, Revert, RevertNamedArgs, Emit, Expression, VariableDefinition, Block, If, While, For, DoWhile, Try, Add, And, ArrayLiteral,
    ArraySlice, ArraySubscript, Assign, AssignAdd, AssignAnd, AssignDivide, AssignModulo, AssignMultiply, AssignOr, AssignShiftLeft,
    AssignShiftRight, AssignSubtract, AssignXor, BitwiseAnd, BitwiseOr, BitwiseXor, Complement, Delete, Divide, Equal, FunctionCall,
    FunctionCallBlock, Less, LessEqual, List, MemberAccess, Modulo, More, MoreEqual, Multiply, NamedFunctionCall, New, Not, NotEqual, Or,
    Parenthesis, PostDecrement, PostIncrement, PreIncrement, PreDecrement, ShiftLeft, ShiftRight, Subtract, Ternary, Type, Function,
    UnaryMinus, UnaryPlus, Unit, Power, BoolLiteral, NumberLiteral, RationalNumberLiteral, HexNumberLiteral, HexLiteral, StringLiteral,
    AddressLiteral, Variable, This, SourceUnit, ContractDefinition, EnumDefinition, EventDefinition, ErrorDefinition, FunctionDefinition,
    ImportDirective, PragmaDirective, StraySemicolon, StructDefinition, TypeDefinition, Using, None,
);

/// A detector as the harness calls it.  The adapters below accept the function whether it takes the tree by value
/// or by reference and whatever collection of locations it returns, so that a change of signature in /repo that
/// does not change behaviour does not stop the harness from compiling.
pub type Detector = std::sync::Arc<dyn Fn(&SourceUnit) -> HashSet<Loc> + Send + Sync>;

pub trait IntoDetector<M> {
    fn into_detector(self) -> Detector;
}
impl<R: IntoIterator<Item = Loc>, F: Fn(SourceUnit) -> R + Send + Sync + 'static> IntoDetector<(SourceUnit, R)> for F {
    fn into_detector(self) -> Detector {
        std::sync::Arc::new(move |su: &SourceUnit| self(su.clone()).into_iter().collect())
    }
}
impl<R: IntoIterator<Item = Loc>, F: for<'a> Fn(&'a SourceUnit) -> R + Send + Sync + 'static> IntoDetector<(&'static SourceUnit, R)> for F {
    fn into_detector(self) -> Detector {
        std::sync::Arc::new(move |su: &SourceUnit| self(su).into_iter().collect())
    }
}
fn det<M, F: IntoDetector<M>>(f: F) -> Detector {
    f.into_detector()
}

/// `storage_slots_used` whether it takes `Vec<u16>`, `&[u16]` or `&Vec<u16>` and whatever integer it returns
pub trait SlotsFn<M> {
    fn slots(&self, v: Vec<u16>) -> String;
}
impl<R: ToString, F: Fn(Vec<u16>) -> R> SlotsFn<(Vec<u16>, R)> for F {
    fn slots(&self, v: Vec<u16>) -> String {
        self(v).to_string()
    }
}
impl<R: ToString, F: for<'a> Fn(&'a [u16]) -> R> SlotsFn<(&'static [u16], R)> for F {
    fn slots(&self, v: Vec<u16>) -> String {
        self(&v).to_string()
    }
}
impl<R: ToString, F: for<'a> Fn(&'a Vec<u16>) -> R> SlotsFn<(&'static Vec<u16>, R)> for F {
    fn slots(&self, v: Vec<u16>) -> String {
        self(&v).to_string()
    }
}
pub fn call_slots<M, F: SlotsFn<M>>(f: F, v: Vec<u16>) -> String {
    f.slots(v)
}

pub fn detectors() -> Vec<(&'static str, Detector)> {
    vec![
        ("address_balance_optimization", det(opt::address_balance::address_balance_optimization)),
        ("address_zero_optimization", det(opt::address_zero::address_zero_optimization)),
        ("assign_update_array_optimization", det(opt::assign_update_array_value::assign_update_array_optimization)),
        ("bool_equals_bool_optimization", det(opt::bool_equals_bool::bool_equals_bool_optimization)),
        ("cache_array_length_optimization", det(opt::cache_array_length::cache_array_length_optimization)),
        ("constant_variable_optimization", det(opt::constant_variables::constant_variable_optimization)),
        ("immutable_variables_optimization", det(opt::immutable_variables::immutable_variables_optimization)),
        ("increment_decrement_optimization", det(opt::increment_decrement::increment_decrement_optimization)),
        ("memory_to_calldata_optimization", det(opt::memory_to_calldata::memory_to_calldata_optimization)),
        ("multiple_require_optimization", det(opt::multiple_require::multiple_require_optimization)),
        ("optimal_comparison_optimization", det(opt::optimal_comparison::optimal_comparison_optimization)),
        ("pack_storage_variables_optimization", det(opt::pack_storage_variables::pack_storage_variables_optimization)),
        ("pack_struct_variables_optimization", det(opt::pack_struct_variables::pack_struct_variables_optimization)),
        ("payable_function_optimization", det(opt::payable_function::payable_function_optimization)),
        ("private_constant_optimization", det(opt::private_constant::private_constant_optimization)),
        ("safe_math_pre_080_optimization", det(opt::safe_math::safe_math_pre_080_optimization)),
        ("safe_math_post_080_optimization", det(opt::safe_math::safe_math_post_080_optimization)),
        ("shift_math_optimization", det(opt::shift_math::shift_math_optimization)),
        ("short_revert_string_optimization", det(opt::short_revert_string::short_revert_string_optimization)),
        ("solidity_keccak256_optimization", det(opt::solidity_keccak256::solidity_keccak256_optimization)),
        ("solidity_math_optimization", det(opt::solidity_math::solidity_math_optimization)),
        ("sstore_optimization", det(opt::sstore::sstore_optimization)),
        ("string_error_optimization", det(opt::string_errors::string_error_optimization)),
        ("divide_before_multiply_vulnerability", det(vuln::divide_before_multiply::divide_before_multiply_vulnerability)),
        ("floating_pragma_vulnerability", det(vuln::floating_pragma::floating_pragma_vulnerability)),
        ("unprotected_selfdestruct_vulnerability", det(vuln::unprotected_selfdestruct::unprotected_selfdestruct_vulnerability)),
        ("unsafe_erc20_operation_vulnerability", det(vuln::unsafe_erc20_operation::unsafe_erc20_operation_vulnerability)),
        ("constructor_order_qa", det(qa::constructor_order::constructor_order_qa)),
        ("private_func_leading_underscore", det(qa::private_func_leading_underscore::private_func_leading_underscore)),
        ("private_vars_leading_underscore", det(qa::private_vars_leading_underscore::private_vars_leading_underscore)),
    ]
}

pub fn optimizations() -> Vec<(&'static str, Optimization)> {
    use Optimization::*;
    vec![
        ("AddressBalance", AddressBalance), ("AddressZero", AddressZero), ("AssignUpdateArrayValue", AssignUpdateArrayValue),
        ("CacheArrayLength", CacheArrayLength), ("ConstantVariables", ConstantVariables), ("BoolEqualsBool", BoolEqualsBool),
        ("ImmutableVarialbes", ImmutableVarialbes), ("IncrementDecrement", IncrementDecrement), ("MemoryToCalldata", MemoryToCalldata),
        ("MultipleRequire", MultipleRequire), ("PackStorageVariables", PackStorageVariables), ("PackStructVariables", PackStructVariables),
        ("PayableFunction", PayableFunction), ("PrivateConstant", PrivateConstant), ("SafeMathPre080", SafeMathPre080),
        ("SafeMathPost080", SafeMathPost080), ("ShiftMath", ShiftMath), ("SolidityKeccak256", SolidityKeccak256), ("SolidityMath", SolidityMath),
        ("Sstore", Sstore), ("StringErrors", StringErrors), ("OptimalComparison", OptimalComparison), ("ShortRevertString", ShortRevertString),
    ]
}
pub fn vulnerabilities() -> Vec<(&'static str, Vulnerability)> {
    use Vulnerability::*;
    vec![
        ("FloatingPragma", FloatingPragma), ("UnsafeERC20Operation", UnsafeERC20Operation), ("UnprotectedSelfdestruct", UnprotectedSelfdestruct),
        ("DivideBeforeMultiply", DivideBeforeMultiply),
    ]
}
pub fn qas() -> Vec<(&'static str, QualityAssurance)> {
    use QualityAssurance::*;
    vec![
        ("ConstructorOrder", ConstructorOrder), ("PrivateVarsLeadingUnderscore", PrivateVarsLeadingUnderscore),
        ("PrivateFuncLeadingUnderscore", PrivateFuncLeadingUnderscore),
    ]
}

/// run a detector; None = panic
pub fn run_detector(d: &Detector, su: &SourceUnit) -> Option<Vec<(usize, usize)>> {
    let su = su.clone();
    let d = d.clone();
    catch_unwind(AssertUnwindSafe(move || {
        let mut v: Vec<(usize, usize)> = d(&su).into_iter().map(|l| (l.start(), l.end())).collect();
        v.sort();
        v.dedup();
        v
    }))
    .ok()
}

pub fn fmt_locs(r: &Option<Vec<(usize, usize)>>) -> String {
    match r {
        None => "PANIC".into(),
        Some(v) => v.iter().map(|(s, e)| format!("{}:{}", s, e)).collect::<Vec<_>>().join(";"),
    }
}

pub fn fmt_lines(r: &Option<BTreeSet<i32>>) -> String {
    match r {
        None => "PANIC".into(),
        Some(v) => v.iter().map(|l| l.to_string()).collect::<Vec<_>>().join(";"),
    }
}

/// per-file entry point of a category; None = panic
pub fn run_lines(category: &str, variant: &str, src: &str, file_no: usize) -> Option<BTreeSet<i32>> {
    let src = src.to_string();
    match category {
        "opt" => {
            let v = optimizations().into_iter().find(|x| x.0 == variant)?.1;
            catch_unwind(AssertUnwindSafe(move || opt::analyze_for_optimization(&src, file_no, v))).ok()
        }
        "vuln" => {
            let v = vulnerabilities().into_iter().find(|x| x.0 == variant)?.1;
            catch_unwind(AssertUnwindSafe(move || vuln::analyze_for_vulnerability(&src, file_no, v))).ok()
        }
        _ => {
            let v = qas().into_iter().find(|x| x.0 == variant)?.1;
            catch_unwind(AssertUnwindSafe(move || qa::analyze_for_qa(&src, file_no, v))).ok()
        }
    }
}
