#!/usr/bin/env python3
"""Regenerate MANIFEST.json from the table below (keeps it valid at all times)."""
import json, os
VERIF = os.path.dirname(os.path.dirname(os.path.abspath(__file__)))
props = [json.loads(l) for l in open(os.path.join(VERIF, "properties.jsonl"))]

TB = "Trusted: Lean 4.33 kernel (axioms per theorem in the evidence: subset of propext, Classical.choice, Quot.sound; no sorry/native_decide); the translator harness/src/bin/extract; the correspondence harness (model = code observed on the counted inputs, not proved); solang-parser trees conform to the schema generated from its pt.rs (evaluated per input)."

CLAIMS = {
 "C01": ("Lean 4 theorem C01: for every tree, root and kind set the walker model returns exactly the nodes of those kinds among all sub-terms outside assembly, once each, in pre-order. Obligations on the walker table regenerated from ast.rs on every run (no blocked edge, no duplicate visit, declaration order, no residue, kind tables = name identity) are kernel-checked. Model = code is observed by differential runs of extract_target(s)_from_node (sequences compared) on generated files with measured edge coverage.",
         "Lean 4 structural-induction proof over a generic parse tree + translator-regenerated walker edge table + differential correspondence", "§7 C01, §5"),
 "C02": ("Lean 4 theorems lineOf_spec / analyzeLines_spec: for every byte string and every in-range offset not on a line feed, the model of get_line_number returns 1 + number of preceding line feeds; the per-file entry point returns exactly the ascending set of those lines for any detector. Model = code observed exhaustively on all texts of length <= 6 over {a, LF, CR, é} x every offset, random long texts, and every analyze_for_* on generated files.",
         "Lean 4 induction proof over byte lists + exhaustive small-scope and random differential correspondence", "§7 C02"),
 "C10": ("Lean 4 theorems slots_eq_layout (slot counter = Solidity layout rule for every sequence of sizes in 1..256, unbounded length), report_sound / report_not_if_optimal / report_if_sorting_saves (the packing report implies a strictly better permutation exists, is never made when the declared order is optimal, is always made when the ascending arrangement saves a slot), and the regenerated type-size table. Model = code observed exhaustively on all size sequences up to length 3 (quick) / 4 (thorough) over the 32 byte-granular sizes, sampled to length 44, on every elementary type, and on the two detectors over generated files.",
         "Lean 4 proof (lock-step fold invariant, sorted-permutation uniqueness) + translator-regenerated size table + exhaustive small-scope differential correspondence", "§7 C10"),
 "C05": ("Lean 4 theorem C05_all: for each of the eleven expression-level gas detectors, for every tree, the model reports exactly the locations of the nodes anywhere in the file (outside assembly, via C01) that have the detector's exact form; canonical forms are exact and exact forms are never clearly-non-matching (specifications in lean/Solstat/Spec/C05.lean, written through one-level views, independent of the model's nested matches). shift_math's digit-string test is proved equal to 'value is 2^k'; increment_decrement's location subtraction is proved equal to 'prefix form under an unchecked block' given distinct locations. Model = code observed on generated files with every canonical/near-miss form placed at random syntactic positions; the oracle (canonical => reported, reported => not non-matching) is evaluated on the implementation's output.",
         "Lean 4 proofs of per-detector exact characterisations lifted by the walker theorem + differential correspondence + executable C/N oracle", "§7 C05, §8.1"),
 "C07": ("Lean 4 theorems: unsafe_erc20_operation and floating_pragma meet their specification in the C05 sense (exact set anywhere in the file); divide_before_multiply reports exactly the nodes in the relation DivideBeforeMultiply (operand chains as inductive relations; the code's loops are proved to decide them); unprotected_selfdestruct reports exactly the selfdestruct/suicide call sites in contract-level non-constructor public/external functions without an only-modifier and without a msg.sender-checking call (unprotectedSelfdestruct_exact), giving the MUST-NOT half in full and the MUST half for the call-based hypothesis (partial w.r.t. the mention-based wording, which the oracle evaluates). Model = code observed on generated files; oracles evaluated on the implementation's output.",
         "Lean 4 proofs (inductive chain relations, exact site characterisation) lifted by the walker theorem + differential correspondence + executable MUST/MUST-NOT oracle", "§7 C07, §8.3"),
 "C06": ("Lean 4 theorems payableFunction_exact, privateConstant_exact, privateVars_exact, privateFunc_exact, constructorOrder_exact: for every tree a location is reported iff it is the report location of a declaration of the documented shape in a contract of the file; constructorOrder_local + mem_constructorOrderScan: the verdict on a constructor depends only on the function definitions that precede it in its own contract (a plain function before it), never on other contracts, libraries, interfaces or free functions. Model = code observed on generated multi-contract files (free functions, >256 functions, members in all orders); the oracle recomputes each expected set from the direct members of every contract and compares it with the implementation's output.",
         "Lean 4 iff-characterisation proofs (list-scan invariant for constructor_order) + differential correspondence + executable expected-set oracle", "§7 C06, §8.2"),
 "C09": ("Lean 4 theorems: versionOfValue_plain (for EVERY operator spelling without digits and every triple of digit strings below 2^31 — not only the 6 x 246 table — the modelled regex scan extracts exactly (major, minor, patch)); verLt_iff (the gates compare lexicographically), gate_lt_mono / gate_ge_mono (monotone in v), safeMath_gate / safeMath_never_both / stringErrors_gate / shortRevert_gate (each detector is active exactly on its side of 0.8.0 resp. 0.8.4), no_version_silent, versionOf_insert + other_pragma_noSolidity (inserting unrelated pragmas anywhere among the top-level items leaves the version unchanged). Model = code observed on the version table, exhaustively on short strings, and on generated files x version pool x pragma placements; the oracle recomputes the expected set from the single full version.",
         "Lean 4 proofs (regex scan on plain versions by induction; lexicographic gates; walker composition over top-level items) + exhaustive small-scope and table correspondence + executable expected-set oracle", "§7 C09, §8.5"),
 "C08": ("Lean 4 theorems: constantVariables_exact (under unique names: reported = type locations of non-constant elementary state variables never directly written anywhere in the file, 'written' quantifying over all nodes via C01), sstore_exact, immutableVariables_sound (reported => assigned in a constructor and not written in any other contract function), immutableVariables_complete_partial together with a kernel-checked counterexample to the full completeness statement (known finding K1), memoryToCalldata_exact / _sound (never a parameter the body assigns through any index chain with any assignment operator, never a constructor parameter; every such unassigned named memory parameter is suggested). HashMap insert/remove order is modelled with association lists and shown irrelevant. Model = code observed on generated files biased to reuse state-variable and parameter names as write targets in every syntactic position; oracles recompute the expected sets independently.",
         "Lean 4 proofs over association-list models of the HashMaps, lifted by the walker theorem + differential correspondence + executable oracles; one recorded known finding", "§7 C08, §8.4, §9 K1"),
 "C04": ("Lean 4 theorems: panic_sites_accounted (the inventory of EVERY panic-capable site of the current non-test sources — unwrap/expect, indexing, parse, panic!-family macros, casts, arithmetic — regenerated by the translator on every run, equals a reviewed classification; a new site breaks the proof), unwrap_safe + instances (walker results have the outer kind every `.expression()/.statement()/.source_unit_part().unwrap()` assumes, from C01 and the regenerated kind tables), contract_part_safe (below a contract only contract parts, on well-formed trees), string_index_safe, no_version_silent, versionOfValue_total; the walker's own unwraps are accepted by the translator only under an is_some() guard. All 30 detectors and all analyze_for_* entry points are run under catch_unwind on generated files and a hostile stream (no pragma, free functions, huge/exponent literals, odd pragma values, address(), >256 functions, depth 60), debug build in quick, debug + release in thorough; oracle: no panic.",
         "Lean 4 proofs over a regenerated panic-site inventory + kind-table lemmas + catch_unwind differential runs in both arithmetic modes", "§7 C04"),
}

def main():
    checks = []
    for pid, (text, technique, ref) in sorted(CLAIMS.items()):
        checks.append({
            "property_id": pid,
            "quick_cmd": f"python3 bin/check.py {pid} --tier quick",
            "thorough_cmd": f"python3 bin/check.py {pid} --tier thorough",
            "evidence_file": f"/verif/evidence/{pid}.json",
            "replay_cmd_template": f"python3 bin/check.py {pid} --replay {{path}}",
            "engine": "lean4-proof+correspondence",
            "level_claimed": {"category": "proof", "text": text, "design_ref": "DESIGN.md " + ref},
            "level_note": TB,
            "technique": technique,
        })
    na = [{"property_id": p["id"], "reason": "not yet claimed in this session: its theorem file, tie and oracle are still being built (see DESIGN.md section 12 order of work); machine-checked proof applies and it will be claimed when they exist"} for p in props if p["id"] not in CLAIMS]
    m = {"version": 1,
         "setup_cmd": "python3 bin/setup.py",
         "hooks": {"guard": "solstat_verif", "enable": "none needed: the harness calls solstat's public library API in-process and runs the built binary; there is no instrumentation inside /repo", "baseline_off_cmd": "cd /repo && cargo test --workspace --no-fail-fast --offline", "source_commits": [], "add_only": True},
         "engines": [{"name": "lean4-proof+correspondence", "path": "/verif/lean, /verif/harness, /verif/bin/check.py", "serves_properties": sorted(CLAIMS), "kind_free_text": "Lean 4 model + theorems; Rust translator regenerating the table-shaped parts of the model; Rust/Lean differential correspondence check; executable property oracles for replay search"}],
         "checks": checks,
         "not_applicable": na,
         "notes": "See DESIGN.md. fix: commits made in /repo are recorded in known_findings.json."}
    json.dump(m, open(os.path.join(VERIF, "MANIFEST.json"), "w"), indent=1)
    print("claimed:", sorted(CLAIMS))

if __name__ == "__main__":
    main()
