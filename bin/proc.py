"""Process-level observations (C13, C14, C18): the real `solstat` binary in scratch trees.

Everything is created under a fresh temporary root outside /repo and /verif and removed afterwards.
"""
import hashlib, json, os, random, shutil, subprocess, tempfile

SOLSTAT_TARGET = None


def build_binary(ctx):
    """cargo build of /repo's binary into /verif/build (never into /repo)"""
    target = os.path.join(ctx["build"], "solstat-target")
    env = dict(os.environ, CARGO_NET_OFFLINE="true", CARGO_TARGET_DIR=target)
    r = subprocess.run(["cargo", "build", "--offline", "--bin", "solstat", "--manifest-path", os.path.join(ctx["repo"], "Cargo.toml")],
                       env=env, stdout=subprocess.PIPE, stderr=subprocess.PIPE, text=True)
    path = os.path.join(target, "debug", "solstat")
    if r.returncode != 0 or not os.path.exists(path):
        return None, r.stderr[-3000:]
    return path, ""


CONTRACT_ALL = """pragma solidity ^0.8.16;
import "./SafeMath.sol";
contract Everything {
    using SafeMath for uint256;
    uint256 public total;
    uint256 limit;
    uint128 a1; uint256 b1; uint128 c1;
    uint256 public constant FEE = 3;
    uint256 private plain;
    uint256 public _under;
    address owner;
    struct Packed { uint128 x; uint256 y; uint128 z; }
    function run(uint256[] memory arr, uint256 amount) public returns (uint256) {
        if (owner == address(0)) { amount = address(this).balance; }
        if (amount >= 1 == true) { arr[0] = arr[0] + 1; }
        for (uint256 i = 0; i < arr.length; i++) { total = total + arr[i] * 4; }
        require(amount > 0 && amount < 10, "this revert string is longer than thirty-two bytes for sure");
        bytes32 h = keccak256(abi.encode(amount));
        uint256 s = amount.add(1) / 3 * 2;
        IERC20(owner).transfer(owner, s);
        return uint256(h);
    }
    function kill() external { selfdestruct(payable(msg.sender)); }
    function _pub() public {}
    function priv() private {}
    constructor(uint256 l) { limit = l; }
}
"""

CONTRACT_PRE = """pragma solidity 0.7.6;
contract Old {
    using SafeMath for uint256;
    function f(uint256 a) public returns (uint256) { require(a > 0, "a revert string that is definitely longer than 32 bytes"); return a.add(1); }
}
"""


def snapshot(root):
    """path -> (kind, sha1) for everything under root"""
    out = {}
    for d, dirs, files in os.walk(root):
        for n in dirs:
            out[os.path.relpath(os.path.join(d, n), root)] = ("dir", "")
        for n in files:
            p = os.path.join(d, n)
            with open(p, "rb") as f:
                out[os.path.relpath(p, root)] = ("file", hashlib.sha1(f.read()).hexdigest())
    return out


def make_fixture(root, rnd, names=None):
    """a contracts tree in which many patterns have findings; creation order is shuffled"""
    os.makedirs(root, exist_ok=True)
    items = [("Everything.sol", CONTRACT_ALL), ("Old.sol", CONTRACT_PRE), ("sub/Inner.sol", CONTRACT_ALL.replace("Everything", "Inner")),
             ("sub/deep/Leaf.sol", CONTRACT_PRE.replace("Old", "Leaf")), ("Skip.t.sol", "this is not solidity"), ("notes.txt", "\xff\xfe garbage"),
             ("sub/x.t.solver.sol", CONTRACT_PRE.replace("Old", "Solver"))]
    if names:
        items = [i for i in items if i[0] in names]
    rnd.shuffle(items)
    for rel, content in items:
        p = os.path.join(root, rel)
        os.makedirs(os.path.dirname(p), exist_ok=True)
        with open(p, "w", encoding="utf-8", errors="surrogateescape") as f:
            f.write(content)


def run_solstat(binary, cwd, args, timeout=120):
    r = subprocess.run([binary] + args, cwd=cwd, stdout=subprocess.PIPE, stderr=subprocess.PIPE, timeout=timeout)
    rep = os.path.join(cwd, "solstat_report.md")
    report = open(rep, "rb").read() if os.path.exists(rep) else None
    return r.returncode, report, r.stderr.decode("utf-8", "replace")[-800:]


def scratch_root():
    return tempfile.mkdtemp(prefix="solstat-verif-proc-")
