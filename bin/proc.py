"""Process-level observations (C13, C14, C18): the real `solstat` binary in scratch trees.

Everything is created under a fresh temporary root outside /repo and /verif and removed afterwards.
"""
import hashlib, json, os, random, shutil, subprocess, tempfile

SOLSTAT_TARGET = None


def build_binary(ctx):
    """cargo build of /repo's binary into /verif/build (never into /repo)"""
    target = os.path.join(ctx["build"], "solstat-target")
    env = dict(os.environ, CARGO_NET_OFFLINE="true", CARGO_TARGET_DIR=target)
    r = subprocess.run(["cargo", "build", "--offline", "--bin", "solstat", "--manifest-path", os.path.join(ctx["repo"], "Cargo.toml")],
                       env=env, stdout=subprocess.PIPE, stderr=subprocess.PIPE, text=True)
    path = os.path.join(target, "debug", "solstat")
    if r.returncode != 0 or not os.path.exists(path):
        return None, r.stderr[-3000:]
    return path, ""


CONTRACT_ALL = """pragma solidity ^0.8.16;
import "./SafeMath.sol";
contract Everything {
    using SafeMath for uint256;
    uint256 public total;
    uint256 limit;
    uint128 a1; uint256 b1; uint128 c1;
    uint256 public constant FEE = 3;
    uint256 private plain;
    uint256 public _under;
    address owner;
    struct Packed { uint128 x; uint256 y; uint128 z; }
    function run(uint256[] memory arr, uint256 amount) public returns (uint256) {
        if (owner == address(0)) { amount = address(this).balance; }
        if (amount >= 1 == true) { arr[0] = arr[0] + 1; }
        for (uint256 i = 0; i < arr.length; i++) { total = total + arr[i] * 4; }
        require(amount > 0 && amount < 10, "this revert string is longer than thirty-two bytes for sure");
        bytes32 h = keccak256(abi.encode(amount));
        uint256 s = amount.add(1) / 3 * 2;
        IERC20(owner).transfer(owner, s);
        return uint256(h);
    }
    function kill() external { selfdestruct(payable(msg.sender)); }
    function peek(uint256[] memory xs) public returns (uint256) { return xs.length; }
    function _pub() public {}
    function priv() private {}
    constructor(uint256 l) { limit = l; }
}
"""

# findings that nest and span several lines: several findings of one pattern in one file whose locations enclose
# each other, start on different lines, and are followed by further findings of the same pattern
CONTRACT_NESTED = """pragma solidity 0.8.19;
interface IERC20 { function transfer(address to, uint256 v) external returns (bool); function approve(address s, uint256 v) external returns (bool); }
contract FeeMath {
    IERC20 tokenA;
    IERC20 tokenB;
    function quote(uint256 amount, uint256 rate, bool first) external returns (uint256 r) {
        r = 8 *
            (amount *
                4 + (rate /
                    2));
        r = (amount / rate) * fee({
            amount: amount,
            bps: rate
        }) * 16;
        (first ? tokenA : tokenB)
            .transfer(msg.sender, r);
        tokenA.approve(
            msg.sender,
            amount / 4 * rate
        );
        tokenB.transfer(msg.sender, r / 2);
        require(amount >=
            1 && rate <=
            10, "bounds");
        return r * 2;
    }
    function fee(uint256 amount, uint256 bps) internal pure returns (uint256) { return amount * bps / 10000 * 2; }
}
"""

CONTRACT_PRE = """pragma solidity 0.7.6;
contract Old {
    using SafeMath for uint256;
    function f(uint256 a) public returns (uint256) { require(a > 0, "a revert string that is definitely longer than 32 bytes"); return a.add(1); }
}
"""


def snapshot(root):
    """path -> (kind, sha1) for everything under root"""
    out = {}
    for d, dirs, files in os.walk(root):
        for n in dirs:
            out[os.path.relpath(os.path.join(d, n), root)] = ("dir", "")
        for n in files:
            p = os.path.join(d, n)
            with open(p, "rb") as f:
                out[os.path.relpath(p, root)] = ("file", hashlib.sha1(f.read()).hexdigest())
    return out


def make_fixture(root, rnd, names=None):
    """a contracts tree in which many patterns have findings; creation order is shuffled"""
    os.makedirs(root, exist_ok=True)
    items = [("Everything.sol", CONTRACT_ALL), ("Old.sol", CONTRACT_PRE), ("sub/Inner.sol", CONTRACT_ALL.replace("Everything", "Inner")),
             ("sub/deep/Leaf.sol", CONTRACT_PRE.replace("Old", "Leaf")), ("Skip.t.sol", "this is not solidity"), ("notes.txt", "\xff\xfe garbage"),
             ("sub/x.t.solver.sol", CONTRACT_PRE.replace("Old", "Solver")), ("Nested.sol", CONTRACT_NESTED), ("sub/deep/Nested2.sol", CONTRACT_NESTED.replace("FeeMath", "FeeMath2"))]
    if names:
        items = [i for i in items if i[0] in names]
    rnd.shuffle(items)
    for rel, content in items:
        p = os.path.join(root, rel)
        os.makedirs(os.path.dirname(p), exist_ok=True)
        with open(p, "w", encoding="utf-8", errors="surrogateescape") as f:
            f.write(content)


def run_solstat(binary, cwd, args, timeout=120):
    r = subprocess.run([binary] + args, cwd=cwd, stdout=subprocess.PIPE, stderr=subprocess.PIPE, timeout=timeout)
    rep = os.path.join(cwd, "solstat_report.md")
    report = open(rep, "rb").read() if os.path.exists(rep) else None
    return r.returncode, report, r.stderr.decode("utf-8", "replace")[-800:]


def scratch_root():
    return tempfile.mkdtemp(prefix="solstat-verif-proc-")


def hexs(s):
    return s.encode("utf-8").hex() if s is not None else "-"


def doc_names(repo):
    """documented names per category: docs tables and Solstat.toml"""
    import re
    out = {"opt": set(), "vuln": set(), "qa": set()}
    for cat, f in (("opt", "docs/identified-optimizations.md"), ("vuln", "docs/identified-vulnerabilities.md"), ("qa", "docs/identified-quality-assurance.md")):
        for l in open(os.path.join(repo, f), encoding="utf-8"):
            m = re.match(r"\|\s*([a-z0-9_]+)\s*\|", l)
            if m:
                out[cat].add(m.group(1))
    toml = open(os.path.join(repo, "Solstat.toml"), encoding="utf-8").read()
    for cat, key in (("opt", "optimizations"), ("vuln", "vulnerabilities"), ("qa", "qa")):
        m = re.search(key + r"\s*=\s*\[(.*?)\]", toml, re.S)
        if m:
            out[cat] |= set(re.findall(r'"([^"]+)"', m.group(1)))
    return out


def variant_of(name):
    """documented snake_case name -> enum variant name as the section signatures use it"""
    special = {"immutable_variables": "ImmutableVarialbes", "unsafe_erc20_operation": "UnsafeERC20Operation",
               "safe_math_pre_080": "SafeMathPre080", "safe_math_post_080": "SafeMathPost080", "solidity_keccak256": "SolidityKeccak256"}
    if name in special:
        return special[name]
    return "".join(p.capitalize() for p in name.split("_"))


def c14_cases(ctx, binary, root, rnd, n):
    """returns list of dict(case description, request line, oracle verdict)"""
    docs = doc_names(ctx["repo"])
    allnames = {c: sorted(v) for c, v in docs.items()}
    cases = []
    for k in range(n):
        d = os.path.join(root, f"c{k}")
        os.makedirs(d)
        # the configured directory has upper-case letters in its name, and a sibling differs from it in letter case only
        altname = rnd.choice(["alt", "Alt", "AltSrc"])
        dirs = {"contracts": rnd.random() < 0.8, altname: True, "cli": True}
        if altname != altname.lower():
            dirs[altname.lower()] = True
        for name, present in dirs.items():
            if present:
                sub = os.path.join(d, name)
                os.makedirs(sub)
                open(os.path.join(sub, f"{name}_A.sol"), "w").write(CONTRACT_ALL)
                open(os.path.join(sub, f"{name}_Old.sol"), "w").write(CONTRACT_PRE)
        use_cli = rnd.random() < 0.4
        use_toml = rnd.random() < 0.75
        toml_path_key = rnd.random() < 0.6
        unknown = use_toml and rnd.random() < 0.25
        sel = {}
        args = []
        toml_enc = "-"
        if use_toml:
            for cat in ("opt", "vuln", "qa"):
                names = [x for x in allnames[cat] if rnd.random() < 0.5]
                if rnd.random() < 0.2:
                    names = []          # an explicitly empty section: nothing of that category is analysed
                rnd.shuffle(names)
                # random letter case of every name
                cased = ["".join(ch.upper() if rnd.random() < 0.3 else ch for ch in x) for x in names]
                sel[cat] = cased
            if unknown:
                cat = rnd.choice(["opt", "vuln", "qa"])
                bad = rnd.choice(["no_such_pattern", "address_balances", "sstore2", "", "constructor order", "private_var_leading_underscore"])
                if rnd.random() < 0.35:
                    # every name of the category (in the documented order or shuffled), then the unknown one last / first
                    full = list(allnames[cat])
                    if rnd.random() < 0.5:
                        rnd.shuffle(full)
                    sel[cat] = full + [bad] if rnd.random() < 0.7 else [bad] + full
                else:
                    sel[cat].insert(rnd.randrange(len(sel[cat]) + 1), bad)
            tp = os.path.join(d, altname) if toml_path_key else None
            lines = []
            if tp is not None:
                lines.append(f"path = '{tp}'")
            lines.append("optimizations = [" + ", ".join('"%s"' % x for x in sel["opt"]) + "]")
            lines.append("vulnerabilities = [" + ", ".join('"%s"' % x for x in sel["vuln"]) + "]")
            lines.append("qa = [" + ", ".join('"%s"' % x for x in sel["qa"]) + "]")
            cfg = os.path.join(d, "cfg.toml")
            open(cfg, "w").write("\n".join(lines) + "\n")
            args += ["--toml", cfg]
            toml_enc = ";".join(["path=" + hexs(tp)] + [f"{c}=" + ",".join("x" + hexs(x) for x in sel[c]) for c in ("opt", "vuln", "qa")])
        cli_path = os.path.join(d, "cli") if use_cli else None
        if use_cli:
            args += ["--path", cli_path]
        # a configuration file that merely lies in the working directory is not a configuration of the run: only --toml names one
        decoy = None
        if rnd.random() < (0.6 if not use_toml else 0.3):
            decoy = rnd.choice(["Solstat.toml", "solstat.toml", ".solstat.toml", "contracts/Solstat.toml"])
            if decoy.startswith("contracts/") and not dirs["contracts"]:
                decoy = "Solstat.toml"
            open(os.path.join(d, decoy), "w").write("path = '%s'\noptimizations = [\"sstore\"]\nvulnerabilities = []\nqa = []\n" % os.path.join(d, altname))
        code, rep, err = run_solstat(binary, d, args)
        req = "\t".join(["RESOLVE", hexs(cli_path), toml_enc, "1" if dirs["contracts"] else "0", str(code), rep.hex() if rep is not None else "-"])
        # oracle, in the property's words (independent of the Lean model)
        bad_name = use_toml and any(x.lower() not in docs[c] for c in ("opt", "vuln", "qa") for x in sel[c])
        expect_fail = bad_name or (not use_cli and not (use_toml and toml_path_key) and not dirs["contracts"])
        verdict = "ok"
        why = ""
        if bad_name and not (code != 0 and rep is None):
            verdict, why = "VIOL", "unknown pattern name but exit status %d / report %s" % (code, "written" if rep is not None else "absent")
        elif not expect_fail:
            if code != 0 or rep is None:
                verdict, why = "VIOL", f"valid configuration but exit status {code}: {err[-200:]}"
            else:
                text = rep.decode("utf-8", "replace")
                want_dir = "cli" if use_cli else (altname if use_toml and toml_path_key else "contracts")
                import re as _re
                files = set(_re.findall(r"^- ([A-Za-z_]+)_(?:A|Old)\.sol:\d+$", text, _re.M))
                if files and files != {want_dir}:
                    verdict, why = "VIOL", f"analysed directory {sorted(files)} but the configuration names {want_dir}"
        cases.append({"args": [a.replace(d, "<case>") for a in args], "toml": sel if use_toml else None, "contracts_dir": dirs["contracts"],
                      "exit": code, "report_written": rep is not None, "decoy_config_in_cwd": decoy, "request": req, "oracle": verdict, "why": why})
        shutil.rmtree(d, ignore_errors=True)
    return cases


def c18_cases(ctx, binary, root, rnd, n, use_strace=False):
    """scratch trees, every choice of working directory relative to the analysed tree, repeated runs,
    pre-existing report; full byte snapshot before / after"""
    cases = []
    for k in range(n):
        d = os.path.join(root, f"w{k}")
        proj = os.path.join(d, "proj")
        make_fixture(os.path.join(proj, "contracts"), rnd)
        other = os.path.join(d, "elsewhere")
        os.makedirs(other)
        open(os.path.join(other, "keep.txt"), "w").write("untouched\n")
        mode = ["cwd_parent_default", "cwd_outside_path", "cwd_is_analysed_dir", "cwd_inside_subdir", "cwd_outside_toml_path", "cwd_without_contracts"][k % 6]
        if mode == "cwd_parent_default":
            cwd, args = proj, []
        elif mode == "cwd_outside_path":
            cwd, args = other, ["--path", os.path.join(proj, "contracts")]
        elif mode == "cwd_is_analysed_dir":
            cwd, args = os.path.join(proj, "contracts"), ["--path", "."]
        elif mode == "cwd_without_contracts":
            # nothing says which directory to analyse and there is no ./contracts here: the run must fail and touch nothing
            cwd, args = other, []
        elif mode == "cwd_outside_toml_path":
            # the analysed directory comes from a configuration file that lies somewhere else again
            cfgdir = os.path.join(d, "conf")
            os.makedirs(cfgdir)
            cfg = os.path.join(cfgdir, "Solstat.toml")
            open(cfg, "w").write("path = '%s'\noptimizations = [\"address_zero\", \"sstore\"]\nvulnerabilities = [\"floating_pragma\"]\nqa = []\n" % os.path.join(proj, "contracts"))
            cwd, args = other, ["--toml", os.path.relpath(cfg, other)]
        else:
            cwd, args = os.path.join(proj, "contracts", "sub"), ["--path", ".."]
        # every fifth case: a configuration that selects no pattern at all, so that the run has no finding — the
        # report must still be (re)written
        if k % 7 == 4 and mode != "cwd_outside_toml_path":
            cfg = os.path.join(d, "none.toml")
            open(cfg, "w").write("optimizations = []\nvulnerabilities = []\nqa = []\n")
            args = args + ["--toml", cfg]
            if mode == "cwd_parent_default":
                args = args + ["--path", os.path.join(proj, "contracts")]
        stale = rnd.random() < 0.6 if k % 7 != 4 else (k % 14 == 4)
        if stale:
            open(os.path.join(cwd, "solstat_report.md"), "w").write("STALE REPORT\n- Fake.sol:1\n" * (rnd.randrange(1, 50) if rnd.random() < 0.5 else 40000))
        before = snapshot(d)
        reports = []
        problems = []
        writes = None
        runs = 3 if k % 2 == 0 else 2
        for r in range(runs):
            if use_strace and r == 0 and shutil.which("strace"):
                log = os.path.join(d, "..", f"strace{k}.log")
                p = subprocess.run(["strace", "-f", "-e", "trace=file", "-o", log, binary] + args, cwd=cwd, stdout=subprocess.PIPE, stderr=subprocess.PIPE)
                code = p.returncode
                rp = os.path.join(cwd, "solstat_report.md")
                rep = open(rp, "rb").read() if os.path.exists(rp) else None
                import re
                writes = set()
                for l in open(log, errors="replace"):
                    m = re.search(r'open(?:at)?\((?:AT_FDCWD, )?"([^"]+)", ([A-Z_|]+)', l)
                    if m and any(f in m.group(2) for f in ("O_WRONLY", "O_RDWR", "O_CREAT", "O_TRUNC", "O_APPEND")):
                        writes.add(os.path.normpath(os.path.join(cwd, m.group(1))))
                    m2 = re.search(r'(unlink|rename|mkdir|rmdir|chmod|truncate|link|symlink)(?:at)?\(', l)
                    if m2 and "ENOENT" not in l:
                        problems.append("file-system mutation: " + l.strip()[:160])
                os.unlink(log)
            else:
                code, rep, err = run_solstat(binary, cwd, args)
            reports.append((code, rep))
        after = snapshot(d)
        rel_report = os.path.relpath(os.path.join(cwd, "solstat_report.md"), d)
        changed = {p for p in set(before) | set(after) if before.get(p) != after.get(p)}
        if changed - {rel_report}:
            problems.append(f"paths changed besides the report: {sorted(changed - {rel_report})[:5]}")
        if mode == "cwd_without_contracts":
            if any(c == 0 for c, _ in reports):
                problems.append("no directory to analyse, yet the run succeeds")
            if changed - ({rel_report} if stale else set()):
                problems.append(f"a failing run changed the file system: {sorted(changed)[:5]}")
            if stale and before.get(rel_report) != after.get(rel_report):
                problems.append("a failing run rewrote the old report")
        else:
            if rel_report not in after:
                problems.append("no report written")
            if any(c != 0 for c, _ in reports):
                problems.append(f"exit codes {[c for c, _ in reports]}")
        if len({hashlib.sha1(r or b'').hexdigest() for _, r in reports}) != 1:
            # is it the previous report, or does the binary render differently from run to run anyway (C13's business)?
            fresh = []
            for _ in range(8):
                rp = os.path.join(cwd, "solstat_report.md")
                if os.path.exists(rp):
                    os.unlink(rp)
                fresh.append(run_solstat(binary, cwd, args)[1])
            seen_fresh = {hashlib.sha1(r or b'').hexdigest() for r in fresh}
            if not {hashlib.sha1(r or b'').hexdigest() for _, r in reports} <= seen_fresh:
                problems.append("repeated runs produce different reports (a previous report influences the next, or appended)")
        if mode != "cwd_without_contracts" and reports[0][1] is not None and b"STALE REPORT" in reports[0][1]:
            problems.append("the previous report's content survives (appended, not overwritten)")
        if writes is not None and writes - {os.path.normpath(os.path.join(cwd, "solstat_report.md"))}:
            extra_w = sorted(w for w in writes - {os.path.normpath(os.path.join(cwd, "solstat_report.md"))} if not w.startswith("/dev/") and not w.startswith("/proc/"))
            if extra_w:
                problems.append(f"opened for writing: {extra_w[:5]}")
        cases.append({"mode": mode, "args": [a.replace(d, "<case>") for a in args], "stale_report": stale, "runs": runs,
                      "report_sha1": hashlib.sha1(reports[0][1] or b"").hexdigest(), "report_bytes": len(reports[0][1] or b""),
                      "strace": writes is not None, "problems": problems})
        shutil.rmtree(d, ignore_errors=True)
    return cases


QUIET_FILES = [("OnlyComments.sol", "// nothing here\n/* pragma solidity ^0.8.0; contract C { } */\n"), ("Empty.sol", ""),
               ("api/IThing.sol", "// SPDX-License-Identifier: MIT\npragma solidity 0.8.19;\ninterface IThing {\n    function poke() external;\n}\n"),
               ("Skipped.t.sol", "not solidity at all"), (".hidden.swp", "\x00\x01")]


def entry_lines(report):
    import re
    return sorted(l for l in (report or b"").decode("utf-8", "replace").split("\n") if re.match(r"^- .+:\d+$", l))


def history_cases(binary, root, rnd):
    """Sequences of runs over DIFFERENT directories from one working directory.  After the last run the report must be what a
    run over the last directory alone, in a fresh working directory, produces: a directory without findings gives a report
    without entries even when an earlier run left a report; a directory whose report happens to have the same length as the
    previous one still gets its own report."""
    pad = "".join(f"// padding line {i}\n" for i in range(12))
    dirs = {}
    a = os.path.join(root, "trees", "a")
    make_fixture(a, rnd, names={"Everything.sol", "Old.sol", "sub/Inner.sol"})
    dirs["findings_a"] = a
    # same file names as `a`, every construct twelve / thirteen lines further down (the two reports have the same length)
    for name, extra in (("shift12", pad), ("shift13", pad + "// one more line\n")):
        dd = os.path.join(root, "trees", name)
        for rel, content in (("Everything.sol", CONTRACT_ALL), ("core/Old.sol", CONTRACT_PRE)):
            pth = os.path.join(dd, rel)
            os.makedirs(os.path.dirname(pth), exist_ok=True)
            open(pth, "w").write(extra + content)
        dirs[name] = dd
    q = os.path.join(root, "trees", "quiet")
    for rel, content in QUIET_FILES:
        pth = os.path.join(q, rel)
        os.makedirs(os.path.dirname(pth), exist_ok=True)
        open(pth, "w", encoding="latin-1").write(content)
    os.makedirs(os.path.join(q, "emptydir"), exist_ok=True)
    dirs["quiet"] = q
    fresh = {}
    for name, dd in dirs.items():
        cwd = os.path.join(root, "fresh_" + name)
        os.makedirs(cwd)
        fresh[name] = run_solstat(binary, cwd, ["--path", dd])
    cases = []
    for seq in (["findings_a", "quiet"], ["quiet", "findings_a"], ["shift12", "shift13"], ["shift13", "shift12"], ["findings_a", "shift12", "quiet"],
                ["quiet", "quiet"], ["findings_a", "findings_a"]):
        cwd = os.path.join(root, "seq_" + "_".join(seq))
        os.makedirs(cwd)
        last = None
        for name in seq:
            last = run_solstat(binary, cwd, ["--path", dirs[name]])
        f = fresh[seq[-1]]
        problems = []
        if last[0] != 0 or f[0] != 0:
            problems.append(f"exit codes {last[0]} (after the sequence) / {f[0]} (fresh)")
        if (last[1] or b"") != (f[1] or b""):
            problems.append("stale: the report after runs over %s differs from the report of a run over %s alone" % (" then ".join(seq), seq[-1]))
        ents = entry_lines(last[1])
        if seq[-1] == "quiet" and ents:
            problems.append("stale: a directory without findings, yet the report lists %d entries (%s ...)" % (len(ents), ents[0]))
        if seq[-1] != "quiet" and ents != entry_lines(f[1]):
            problems.append("stale: the entries listed after the sequence are not those of the last directory")
        if seq[-1] != "quiet" and not entry_lines(f[1]):
            problems.append("the fixture with findings yields a report without entries")
        cases.append({"mode": "history", "sequence": seq, "report_bytes": len(last[1] or b""), "fresh_report_bytes": len(f[1] or b""),
                      "report_present": last[1] is not None, "fresh_report_present": f[1] is not None,
                      "entries": len(ents), "problems": problems,
                      "report_sha1": hashlib.sha1(last[1] or b"").hexdigest()})
    return cases
