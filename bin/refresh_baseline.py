#!/usr/bin/env python3
"""Copy the freshly regenerated tables (lean/Solstat/Gen) to lean/GenBaseline.

Run on a tree whose tables were reviewed (all *_residue_empty theorems hold): the baseline is what a check falls
back on when the translator cannot read a refactored source completely (see DESIGN.md section 13.7)."""
import os, shutil, subprocess, sys
VERIF = os.path.dirname(os.path.dirname(os.path.abspath(__file__)))
gen = os.path.join(VERIF, "lean", "Solstat", "Gen")
base = os.path.join(VERIF, "lean", "GenBaseline")
subprocess.run([os.path.join(VERIF, "build", "harness-target", "debug", "extract"), "--repo", "/repo", "--out", gen], check=True)
os.makedirs(base, exist_ok=True)
for f in os.listdir(gen):
    if f.endswith(".lean"):
        shutil.copy(os.path.join(gen, f), os.path.join(base, f))
print("baseline refreshed:", sorted(os.listdir(base)))
