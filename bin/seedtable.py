#!/usr/bin/env python3
"""Regenerate the table of DESIGN.md section 13.6 from seeded/*/meta.json and result.json."""
import glob, json, os, re
VERIF = os.path.dirname(os.path.dirname(os.path.abspath(__file__)))
rows = []
for d in sorted(glob.glob(os.path.join(VERIF, "seeded", "*"))):
    try:
        meta = json.load(open(os.path.join(d, "meta.json")))
        res = json.load(open(os.path.join(d, "result.json"))).get("quick", {})
    except Exception:
        continue
    own = meta["property"]
    r = res.get("results", {}).get(own, {})
    viol = [l for l in r.get("lines", []) if l.startswith("VIOLATION")]
    how = "missed"
    if viol:
        how = "no-failing-input-found" if "no-failing-input-found" in viol[0] else "failing input"
    others = [p for p in res.get("caught_by", []) if p != own]
    summ = re.sub(r"\s+", " ", meta.get("summary", "")).replace("|", "/")
    if len(summ) > 230:
        summ = summ[:227] + "..."
    rows.append(f"| `{os.path.basename(d)}` | {own} | {summ} | {how} | {', '.join(others) or '—'} |")
table = "| Seeded change | Property | What was changed | Own check reports | Other checks that also report |\n|---|---|---|---|---|\n" + "\n".join(rows)
p = os.path.join(VERIF, "DESIGN.md")
s = open(p).read()
a = s.index("<!-- SEEDED_TABLE_BEGIN -->") if "<!-- SEEDED_TABLE_BEGIN -->" in s else None
if a is None:
    s = s.replace("SEEDED_TABLE_PLACEHOLDER", "<!-- SEEDED_TABLE_BEGIN -->\n" + table + "\n<!-- SEEDED_TABLE_END -->")
else:
    b = s.index("<!-- SEEDED_TABLE_END -->")
    s = s[:a] + "<!-- SEEDED_TABLE_BEGIN -->\n" + table + "\n" + s[b:]
open(p, "w").write(s)
print(len(rows), "rows")
