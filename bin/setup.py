#!/usr/bin/env python3
"""Build the framework from files on disk only (offline): harness (debug + release), regenerated
tables, the whole Lean project (model, theorems, driver)."""
import os, subprocess, sys, shutil
VERIF = os.path.dirname(os.path.dirname(os.path.abspath(__file__)))
env = dict(os.environ, CARGO_NET_OFFLINE="true", CARGO_TARGET_DIR=os.path.join(VERIF, "build", "harness-target"))
os.makedirs(os.path.join(VERIF, "build"), exist_ok=True)
lock = os.path.join(VERIF, "harness", "Cargo.lock")
if not os.path.exists(lock):
    shutil.copy("/repo/Cargo.lock", lock)
def sh(cmd, cwd):
    print("+", " ".join(cmd), flush=True)
    r = subprocess.run(cmd, cwd=cwd, env=env)
    if r.returncode != 0:
        # not fatal: every check rebuilds what it needs against /repo's current working tree and attributes a
        # failing build (harness, translator, model, one theorem module) to the properties it affects
        print(f"setup: step failed with status {r.returncode} (left to the individual checks to report)", flush=True)
    return r.returncode == 0
sh(["cargo", "build", "--offline", "--bins"], os.path.join(VERIF, "harness"))
sh(["cargo", "build", "--offline", "--bins", "--release"], os.path.join(VERIF, "harness"))
sh([os.path.join(VERIF, "build", "harness-target", "debug", "extract"), "--repo", "/repo", "--out", os.path.join(VERIF, "lean", "Solstat", "Gen")], VERIF)
sh(["lake", "build", "driver"], os.path.join(VERIF, "lean"))
sh(["lake", "build", "Solstat", "Solstat.Props.C17Ext"], os.path.join(VERIF, "lean"))
print("setup done")
