#!/usr/bin/env python3
"""Shrink the Solidity source of a replay to a small file on which the same violation still shows.

    python3 bin/minimize.py replays/C05/<hash>.json            # prints the minimised source, rewrites the replay

A replay whose request lines are one FILE line followed by DET / LINES lines is re-evaluated through
`obs replay` (the real parser and detectors on the candidate text) and the Lean driver (model and oracle);
a candidate is kept when the parser still accepts it and the driver still reports a violation (or, for a
replay found through a disagreement only, a disagreement) of the same kind and group.  Greedy delta debugging on
lines, then on `;`/`{`/`}`-delimited chunks inside the remaining lines.  Time-boxed.
"""
import json, os, subprocess, sys, tempfile, time

VERIF = os.path.dirname(os.path.dirname(os.path.abspath(__file__)))
OBS = os.path.join(VERIF, "build", "harness-target", "debug", "obs")
DRIVER = os.path.join(VERIF, "lean", ".lake", "build", "bin", "driver")


def probe(work, lines, src, kind, group, want):
    f = lines[0].split("\t")
    f[2] = src.encode("utf-8").hex()
    req = os.path.join(work, "in.tsv")
    out = os.path.join(work, "out.tsv")
    res = os.path.join(work, "res.tsv")
    open(req, "w").write("\n".join(["\t".join(f)] + lines[1:]) + "\n")
    r = subprocess.run([OBS, "replay", req, "--seed", "1", "--tier", "quick", "--out", out, "--corpus", os.path.join(VERIF, "corpus"), "--repo", "/repo"],
                       stdout=subprocess.PIPE, stderr=subprocess.PIPE)
    if r.returncode != 0 or not os.path.exists(out):
        return False
    body = open(out, encoding="utf-8", errors="replace").read()
    if not body.startswith("FILE\t") and "\nFILE\t" not in body:
        return False          # rejected by the parser
    with open(out, "rb") as fin, open(res, "wb") as fout:
        subprocess.run([DRIVER], stdin=fin, stdout=fout, stderr=subprocess.DEVNULL)
    for l in open(res, encoding="utf-8", errors="replace"):
        v = l.rstrip("\n").split("\t")
        if len(v) >= 6 and v[1] == kind and v[2] == group:
            if want == "VIOL" and v[4] == "VIOL":
                return True
            if want == "D" and v[3] == "D":
                return True
    return False


def ddmin(units, test, deadline):
    n = 2
    while len(units) >= 2 and time.time() < deadline:
        chunk = max(1, len(units) // n)
        removed = False
        i = 0
        while i < len(units) and time.time() < deadline:
            cand = units[:i] + units[i + chunk:]
            if cand and test(cand):
                units = cand
                removed = True
            else:
                i += chunk
        if not removed:
            if chunk == 1:
                break
            n = min(len(units), n * 2)
        else:
            n = max(2, n - 1)
    return units


def minimize(request_lines, kind, group, want="VIOL", budget=25.0):
    lines = [l for l in request_lines if l]
    if not lines or not lines[0].startswith("FILE\t") or kind not in ("DET", "LINES"):
        return None
    f = lines[0].split("\t")
    try:
        src = bytes.fromhex(f[2]).decode("utf-8")
    except Exception:
        return None
    deadline = time.time() + budget
    probes = [0]
    with tempfile.TemporaryDirectory(prefix="solstat-min-", dir=os.path.join(VERIF, "build")) as work:
        def t_lines(ls):
            probes[0] += 1
            return probe(work, lines, "\n".join(ls) + "\n", kind, group, want)
        base = src.split("\n")
        if not t_lines(base):
            return None
        ls = ddmin(base, t_lines, deadline)
        # second pass: statement-sized chunks inside what is left
        text = "\n".join(ls) + "\n"
        import re
        units = re.findall(r"[^;{}]*[;{}]|[^;{}]+$", text, re.S)

        def t_units(us):
            probes[0] += 1
            return probe(work, lines, "".join(us), kind, group, want)
        if len(units) > 1 and t_units(units):
            units = ddmin(units, t_units, deadline)
            text = "".join(units)
    return {"source": text, "bytes_before": len(src.encode()), "bytes_after": len(text.encode()), "probes": probes[0]}


if __name__ == "__main__":
    p = sys.argv[1]
    rp = json.load(open(p))
    kind, group = rp.get("kind"), rp.get("group")
    want = "VIOL" if rp.get("oracle") == "VIOL" or "oracle" not in rp else "D"
    m = minimize(rp.get("request_lines", []), kind, group, want)
    if m is None:
        print("not minimisable (needs a FILE line followed by DET/LINES lines that still reproduces)")
        sys.exit(1)
    rp["minimized"] = m
    json.dump(rp, open(p, "w"), indent=1)
    print(m["source"])
    print(f"-- {m['bytes_before']} -> {m['bytes_after']} bytes, {m['probes']} probes")
