#!/usr/bin/env python3
"""Run the registered checks against one seeded change.

    python3 bin/seedtest.py seeded/<name> [--props C01,C05 | --all] [--tier quick] [--jobs 4]

The patch is applied to /repo's working tree (never committed), the checks are run, and the patch is removed
again whatever happens.  The outcome is written to seeded/<name>/result.json: for each check run, its exit
status and its VIOLATION / KNOWN-FINDING lines, plus a copy of the first replay file.
"""
import argparse, json, os, shutil, subprocess, sys, time
from concurrent.futures import ThreadPoolExecutor

VERIF = os.path.dirname(os.path.dirname(os.path.abspath(__file__)))
REPO = "/repo"


def sh(cmd, **kw):
    return subprocess.run(cmd, stdout=subprocess.PIPE, stderr=subprocess.STDOUT, text=True, **kw)


def run_check(pid, tier):
    t0 = time.time()
    r = sh(["python3", os.path.join(VERIF, "bin", "check.py"), pid, "--tier", tier], cwd=VERIF)
    lines = [l for l in r.stdout.split("\n") if l.startswith("VIOLATION") or l.startswith("KNOWN-FINDING")]
    return pid, {"exit": r.returncode, "lines": lines, "tail": r.stdout.strip().split("\n")[-3:], "seconds": round(time.time() - t0, 1)}


def main():
    ap = argparse.ArgumentParser()
    ap.add_argument("dir")
    ap.add_argument("--props")
    ap.add_argument("--all", action="store_true")
    ap.add_argument("--tier", default="quick")
    ap.add_argument("--jobs", type=int, default=4)
    a = ap.parse_args()
    d = os.path.abspath(a.dir)
    meta = json.load(open(os.path.join(d, "meta.json")))
    manifest = json.load(open(os.path.join(VERIF, "MANIFEST.json")))
    allp = [c["property_id"] for c in manifest["checks"]]
    props = allp if (a.all or "property" not in meta) else (a.props.split(",") if a.props else [meta["property"]])
    patch = os.path.join(d, "patch.diff")
    st = sh(["git", "-C", REPO, "status", "--porcelain"]).stdout.strip()
    if st:
        print("refusing: /repo working tree is not clean:\n" + st)
        sys.exit(2)
    r = sh(["git", "-C", REPO, "apply", patch])
    if r.returncode != 0:
        print("patch does not apply:\n" + r.stdout)
        sys.exit(2)
    results = {}
    try:
        with ThreadPoolExecutor(max_workers=a.jobs) as ex:
            for pid, res in ex.map(lambda p: run_check(p, a.tier), props):
                results[pid] = res
                print(pid, res["exit"], res["lines"][:2], res["tail"][-1][:200], flush=True)
        # keep the first replay of the seeded property's own check
        for pid, res in results.items():
            if pid != meta.get("property"):
                continue
            for l in res["lines"]:
                if l.startswith("VIOLATION") and "replay=" in l:
                    rp = l.split("replay=")[1].split()[0]
                    if os.path.exists(rp):
                        shutil.copy(rp, os.path.join(d, f"replay_{pid}" + os.path.splitext(rp)[1]))
                    break
    finally:
        sh(["git", "-C", REPO, "apply", "-R", patch])
        sh(["git", "-C", REPO, "checkout", "--", "."])
        # the regenerated tables must follow the restored tree
        sh([os.path.join(VERIF, "build", "harness-target", "debug", "extract"), "--repo", REPO, "--out", os.path.join(VERIF, "lean", "Solstat", "Gen")])
        left = sh(["git", "-C", REPO, "status", "--porcelain"]).stdout.strip()
        if left:
            print("WARNING: /repo not clean after undo:\n" + left)
    caught = sorted(p for p, r in results.items() if r["exit"] != 0 and any(l.startswith("VIOLATION") for l in r["lines"]))
    out = {"tier": a.tier, "checks_run": sorted(results), "caught_by": caught, "results": results}
    prev = {}
    rp = os.path.join(d, "result.json")
    if os.path.exists(rp):
        prev = json.load(open(rp))
    prev[a.tier] = out
    json.dump(prev, open(rp, "w"), indent=1)
    print("caught by:", caught)


if __name__ == "__main__":
    main()
