#!/usr/bin/env python3
"""One entry point for every property check.

    python3 bin/check.py C01 --tier quick|thorough [--seed N]
    python3 bin/check.py C01 --replay replays/C01/<file>.json

Steps (all from /repo's current working tree):
  1. build the harness against /repo (path dependency)          -> broken build = broken correspondence
  2. regenerate lean/Solstat/Gen/*.lean with the translator
  3. lake build the property's theorem modules + the driver     -> proof obligations
  4. audit: every registered theorem exists, axioms ⊆ {propext, Classical.choice, Quot.sound}, no sorry
  5. run the real code on generated inputs (obs), the model and the oracles on the same lines (driver)
  6. verdict, replay file, evidence file
"""
import argparse, fcntl, hashlib, json, os, re, shutil, subprocess, sys, time

VERIF = os.path.dirname(os.path.dirname(os.path.abspath(__file__)))
REPO = os.environ.get("SOLSTAT_REPO", "/repo")
BUILD = os.path.join(VERIF, "build")
sys.path.insert(0, os.path.join(VERIF, "bin"))
LEAN = os.path.join(VERIF, "lean")
HARNESS = os.path.join(VERIF, "harness")
TARGET = os.path.join(BUILD, "harness-target")
ALLOWED_AXIOMS = {"propext", "Classical.choice", "Quot.sound"}

sys.path.insert(0, os.path.dirname(os.path.abspath(__file__)))
from props import PROPS  # noqa: E402

ENV = dict(os.environ)
ENV.update({"CARGO_NET_OFFLINE": "true", "CARGO_TARGET_DIR": TARGET})


def run(cmd, cwd=None, timeout=None, stdin=None, stdout=None):
    return subprocess.run(cmd, cwd=cwd, env=ENV, timeout=timeout, stdin=stdin, stdout=stdout or subprocess.PIPE,
                          stderr=subprocess.PIPE if stdout is None else subprocess.PIPE, text=(stdout is None))


class Lock:
    def __init__(self, name):
        os.makedirs(BUILD, exist_ok=True)
        self.f = open(os.path.join(BUILD, name), "w")

    def __enter__(self):
        fcntl.flock(self.f, fcntl.LOCK_EX)

    def __exit__(self, *a):
        fcntl.flock(self.f, fcntl.LOCK_UN)


def build_harness(release=False):
    """returns (ok, log)"""
    if not os.path.exists(os.path.join(HARNESS, "Cargo.lock")):
        import shutil
        shutil.copy(os.path.join(REPO, "Cargo.lock"), os.path.join(HARNESS, "Cargo.lock"))
    cmd = ["cargo", "build", "--offline", "--bins"] + (["--release"] if release else [])
    r = run(cmd, cwd=HARNESS)
    return r.returncode == 0, (r.stderr or "")[-6000:]


def harness_bin(name, release=False):
    return os.path.join(TARGET, "release" if release else "debug", name)


GEN = os.path.join(LEAN, "Solstat", "Gen")
BASELINE = os.path.join(LEAN, "GenBaseline")
FALLBACKS = {}   # generated file -> residue entries that made the check fall back on the baseline copy


def residues_of(text):
    """non-empty `def …Residue : List String := [..]` lists of a generated file (the frame residue is informational)"""
    out = {}
    for m in re.finditer(r"def (\w*[rR]esidue) : List String := \[(.*?)\]\n", text, re.S):
        if m.group(1) == "entryFrameResidue":
            continue
        items = re.findall(r'"((?:[^"\\]|\\.)*)"', m.group(2))
        if items:
            out[m.group(1)] = items
    return out


def regenerate():
    """Re-run the translator.  A table it could read completely replaces the previous one.  A table it could NOT read
    completely (non-empty residue: source constructs outside what the translator interprets, typically after a
    refactoring) is not used: the reviewed baseline copy stays in place, the fact is recorded, and the tie between
    that part of the model and the code is then the correspondence alone, which is widened (thorough generators)."""
    tmp = os.path.join(BUILD, f"gen_tmp_{os.getpid()}")
    shutil.rmtree(tmp, ignore_errors=True)
    os.makedirs(tmp)
    r = run([harness_bin("extract"), "--repo", REPO, "--out", tmp])
    log = (r.stderr or "") + (r.stdout or "")
    if r.returncode != 0:
        shutil.rmtree(tmp, ignore_errors=True)
        return False, log
    FALLBACKS.clear()
    for f in sorted(os.listdir(tmp)):
        text = open(os.path.join(tmp, f), encoding="utf-8").read()
        res = residues_of(text)
        base = os.path.join(BASELINE, f)
        if res and os.path.exists(base):
            FALLBACKS[f] = res
            text = open(base, encoding="utf-8").read()
        dst = os.path.join(GEN, f)
        if not os.path.exists(dst) or open(dst, encoding="utf-8").read() != text:
            open(dst, "w", encoding="utf-8").write(text)
    # what the translator says about the per-file entry points (informational)
    try:
        t = open(os.path.join(tmp, "Patterns.lean"), encoding="utf-8").read()
        m = re.search(r"def entryFrameResidue : List String := \[(.*?)\]\n", t, re.S)
        FALLBACKS_INFO["entry_frame"] = re.findall(r'"((?:[^"\\]|\\.)*)"', m.group(1)) if m else []
    except Exception:
        pass
    shutil.rmtree(tmp, ignore_errors=True)
    return True, log


FALLBACKS_INFO = {}


def lake_build(targets):
    r = run(["lake", "build"] + targets, cwd=LEAN)
    out = (r.stdout or "") + (r.stderr or "")
    return r.returncode == 0, out


def failing_decls(build_out):
    """names of declarations with errors, read off lean's messages (best effort)"""
    errs = []
    for m in re.finditer(r"error: (Solstat/[^:]+):(\d+):(\d+): (.*)", build_out):
        errs.append({"file": m.group(1), "line": int(m.group(2)), "msg": m.group(4)[:300]})
    return errs


def decl_at(file, line):
    """the theorem whose statement/proof contains the given line"""
    try:
        src = open(os.path.join(LEAN, file)).read().split("\n")
    except OSError:
        return None
    for i in range(min(line, len(src)) - 1, -1, -1):
        m = re.match(r"\s*(?:private\s+)?(?:theorem|lemma|example|def|instance)\s+([A-Za-z0-9_.'₁₂]+)?", src[i])
        if m:
            return m.group(1) or "example"
    return None


def audit(theorems_by_module):
    """#print axioms for every registered theorem of every module that built; returns dict name -> (ok, axioms|error)"""
    res = {}
    mods = [m for m in theorems_by_module if theorems_by_module[m]]
    if not mods:
        return res
    lines = ["import " + m for m in mods]
    names = []
    for m in mods:
        for t in theorems_by_module[m]:
            names.append(t)
            lines.append(f"#print axioms Solstat.{t}")
    path = os.path.join(BUILD, f"Audit_{os.getpid()}.lean")
    open(path, "w").write("\n".join(lines) + "\n")
    r = run(["lake", "env", "lean", path], cwd=LEAN)
    out = (r.stdout or "") + (r.stderr or "")
    os.unlink(path)
    for t in names:
        full = f"Solstat.{t}"
        m = re.search(r"'" + re.escape(full) + r"' depends on axioms: \[([^\]]*)\]", out, re.S)
        if m:
            axs = {a.strip() for a in m.group(1).replace("\n", " ").split(",") if a.strip()}
            bad = axs - ALLOWED_AXIOMS
            res[t] = (not bad, sorted(axs))
        elif re.search(r"'" + re.escape(full) + r"' does not depend on any axioms", out):
            res[t] = (True, [])
        else:
            res[t] = (False, "theorem not found")
    return res


def source_grep(modules):
    """forbidden constructs outside comments in the Lean sources of the property"""
    bad = []
    pat = re.compile(r"\b(sorry|admit|native_decide|bv_decide|implemented_by|unsafe)\b|^axiom |maxHeartbeats 0")
    files = []
    for root, _, fs in os.walk(os.path.join(LEAN, "Solstat")):
        for f in fs:
            if f.endswith(".lean") and "/Gen" not in root:
                files.append(os.path.join(root, f))
    for f in files:
        text = open(f).read()
        text = re.sub(r"/-.*?-/", "", text, flags=re.S)
        for i, l in enumerate(text.split("\n")):
            l2 = re.sub(r'"(?:[^"\\]|\\.)*"', '""', l)   # words inside string literals are data, not constructs
            l2 = l2.split("--")[0]
            if pat.search(l2):
                bad.append(f"{os.path.relpath(f, LEAN)}:{i+1}: {l.strip()[:120]}")
    return bad


def run_obs(family, args, seed, tier, out_path, release=False):
    cmd = [harness_bin("obs", release), family, "--seed", str(seed), "--tier", tier, "--out", out_path,
           "--corpus", os.path.join(VERIF, "corpus"), "--repo", REPO] + args
    r = run(cmd, timeout=3600)
    stats = {}
    if r.returncode == 0:
        try:
            stats = json.loads(r.stdout.strip().split("\n")[-1])
        except Exception:
            stats = {}
    return r.returncode == 0, stats, (r.stderr or "")[-2000:]


def run_driver(in_path, out_path):
    with open(in_path, "rb") as fin, open(out_path, "wb") as fout:
        r = subprocess.run([os.path.join(LEAN, ".lake", "build", "bin", "driver")], stdin=fin, stdout=fout, stderr=subprocess.PIPE)
    return r.returncode == 0, r.stderr.decode(errors="replace")[-2000:]


def load_known():
    p = os.path.join(VERIF, "known_findings.json")
    if os.path.exists(p):
        return json.load(open(p))
    return {"known": [], "fixed": []}


def request_context(lines, idx):
    """the request line at 1-based index idx, plus the FILE/ROOT lines it refers to"""
    line = lines[idx - 1]
    f = line.split("\t")
    ctx = []
    ids = []
    if f[0] in ("DET", "LINES", "WALK"):
        ids = [f[1]]
    elif f[0] in ("RELAY", "TOKMAP"):
        ids = [f[1], f[2]]
    elif f[0] == "COMPOSE":
        ids = [f[1]] + [x.split("=", 1)[1] for x in f[2].split(",") if "=" in x]
    for want in ids:
        for j in range(idx - 2, -1, -1):
            g = lines[j].split("\t", 2)
            if g[0] in ("FILE", "ROOT") and g[1] == want:
                ctx.append(lines[j])
                break
    if f[0] == "LINES":
        # the DET line of the same file feeds the C02 oracle
        for j in range(idx - 2, -1, -1):
            g = lines[j].split("\t")
            if g[0] == "DET" and g[1] == f[1]:
                ctx.append(lines[j])
            if g[0] == "FILE" and g[1] == f[1]:
                break
    return ctx + [line]


def describe_input(ctx_lines):
    """human-readable rendering of a request for the replay / evidence samples"""
    out = []
    for l in ctx_lines:
        f = l.split("\t")
        if f[0] == "FILE":
            try:
                out.append({"FILE": f[1], "source": bytes.fromhex(f[2]).decode("utf-8", "replace")})
            except ValueError:
                out.append({"FILE": f[1]})
        elif f[0] == "ROOT":
            out.append({"ROOT": f[1], "type": f[2], "tree": f[3][:400]})
        elif f[0] in ("LINE",):
            out.append({"LINE": {"text": bytes.fromhex(f[1]).decode("utf-8", "replace"), "offset": f[2], "impl": f[3]}})
        elif f[0] == "VER":
            out.append({"VER": {"value": bytes.fromhex(f[1]).decode("utf-8", "replace"), "impl": f[2]}})
        else:
            out.append({f[0]: [x[:300] for x in f[1:]]})
    return out


def main():
    ap = argparse.ArgumentParser()
    ap.add_argument("prop")
    ap.add_argument("--tier", default=os.environ.get("VERIF_TIER", "quick"))
    ap.add_argument("--seed", type=int, default=int(os.environ.get("VERIF_SEED", "1")))
    ap.add_argument("--replay")
    ap.add_argument("--no-build", action="store_true")
    a = ap.parse_args()
    pid = a.prop
    if pid not in PROPS:
        print(f"unknown property {pid}")
        sys.exit(2)
    P = PROPS[pid]
    tier = "thorough" if a.tier == "thorough" else "quick"
    t0 = time.time()
    os.makedirs(os.path.join(VERIF, "evidence"), exist_ok=True)
    os.makedirs(os.path.join(VERIF, "replays", pid), exist_ok=True)
    work = os.path.join(BUILD, "obs", pid)
    os.makedirs(work, exist_ok=True)

    broken = []       # obligations / correspondence that no longer check (list of dicts)
    notes = []
    obligations = 0
    discharged = 0
    theorem_report = {}

    # ---- 1-3: builds (serialised across concurrent checks)
    with Lock(".build.lock"):
        ok, log = build_harness()
        release_ok = True
        if ok and P.get("release_too") and tier == "thorough":
            release_ok, rlog = build_harness(release=True)
            if not release_ok:
                log = rlog
        if not ok or not release_ok:
            broken.append({"what": "correspondence", "name": "harness does not build against /repo's working tree", "log": log})
        else:
            ok2, log2 = regenerate()
            if not ok2:
                broken.append({"what": "translator", "name": "extract failed", "log": log2[-3000:]})
        # the driver and the model must build whatever happens to the theorems
        okd, logd = lake_build(["driver"])
        if not okd:
            broken.append({"what": "model", "name": "the Lean model/driver does not build on the regenerated tables", "log": logd[-4000:], "errors": failing_decls(logd)})
        # theorem modules, one by one so that a failure is attributed
        built = {}
        for mod, thms in P["theorems"].items():
            okm, logm = lake_build([mod])
            built[mod] = okm
            obligations += len(thms)
            if not okm:
                errs = failing_decls(logm)
                names = sorted({decl_at(e["file"], e["line"]) or "?" for e in errs})
                broken.append({"what": "theorem", "module": mod, "failing_declarations": names, "errors": errs[:8]})
                for t in thms:
                    theorem_report[t] = {"ok": False, "why": f"module {mod} does not build; failing: {names}"}
        aud = audit({m: t for m, t in P["theorems"].items() if built.get(m)})
        for t, (okt, info) in aud.items():
            theorem_report[t] = {"ok": okt, "axioms": info}
            if okt:
                discharged += 1
            else:
                broken.append({"what": "theorem", "name": t, "why": info})
        # thorough: the compiled modules are re-checked by the independent checker
        if tier == "thorough" and shutil.which("leanchecker"):
            for mod in P["theorems"]:
                if built.get(mod):
                    rc = run(["lake", "env", "leanchecker", mod], cwd=LEAN)
                    if rc.returncode != 0:
                        broken.append({"what": "audit", "name": f"leanchecker rejects {mod}", "log": ((rc.stdout or "") + (rc.stderr or ""))[-1500:]})
                    else:
                        notes.append(f"leanchecker: {mod} ok")
        bad = source_grep(list(P["theorems"].keys()))
        if bad:
            broken.append({"what": "audit", "name": "forbidden construct in Lean sources", "hits": bad[:10]})

    harness_ok = not any(b["what"] == "correspondence" for b in broken)
    driver_ok = not any(b["what"] == "model" for b in broken)

    # ---- 5: correspondence + oracle
    totals = {"evaluations": 0, "agree": 0, "disagree": 0, "errors": 0, "oracle_ok": 0, "oracle_viol": 0, "oracle_na": 0}
    by_kind = {}
    distinct = set()
    samples = []
    viols = []        # (family, line index, verdict fields)
    disagreements = []
    obs_stats = {}
    driver_stats = {}
    req_files = {}
    known = load_known()

    def run_family(fam, fargs, seed, tier_, tag):
        req = os.path.join(work, f"{fam}{tag}.tsv")
        res = os.path.join(work, f"{fam}{tag}.out")
        rel = bool(P.get("release_too")) and tag.endswith("rel")
        ok_, st_, err_ = run_obs(fam, fargs, seed, tier_, req, release=rel)
        if not ok_:
            broken.append({"what": "correspondence", "name": f"obs {fam} failed", "log": err_})
            return
        for k, v in st_.items():
            obs_stats[k] = obs_stats.get(k, 0) + v
        okd_, errd_ = run_driver(req, res)
        if not okd_:
            broken.append({"what": "correspondence", "name": f"driver failed on {fam}", "log": errd_})
            return
        lines = open(req, encoding="utf-8", errors="replace").read().split("\n")
        req_files[(fam, tag)] = lines
        for l in open(res, encoding="utf-8", errors="replace"):
            f = l.rstrip("\n").split("\t")
            if len(f) < 6:
                continue
            idx, kind, group, agree, oracle, detail = int(f[0]), f[1], f[2], f[3], f[4], f[5]
            if kind == "STATS":
                for kv in detail.split(";"):
                    if "=" in kv:
                        k, v = kv.split("=", 1)
                        driver_stats[k] = v
                continue
            if P.get("kinds") and kind not in P["kinds"]:
                continue
            if P.get("groups") and kind in ("DET", "LINES", "RELAY", "COMPOSE") and not any(g in group.lower().replace("_", "") for g in P["groups"]):
                continue
            totals["evaluations"] += 1
            bk = by_kind.setdefault(kind + (":" + group if group and kind in ("DET", "LINES", "RELAY", "COMPOSE", "RENDER", "DIR") else ""), {"n": 0, "A": 0, "D": 0, "E": 0, "ok": 0, "VIOL": 0, "na": 0, "nontrivial": 0})
            bk["n"] += 1
            bk[agree if agree in ("A", "D", "E") else "na"] = bk.get(agree if agree in ("A", "D", "E") else "na", 0) + (0 if agree == "na" else 1)
            bk[oracle] = bk.get(oracle, 0) + 1
            if agree == "A":
                totals["agree"] += 1
            elif agree == "D" and ((P.get("disagree_only_prefix") and not detail.startswith(P["disagree_only_prefix"]))
                                   or (P.get("foreign_prefix") and detail.startswith(P["foreign_prefix"]))):
                totals["other_property_disagreements"] = totals.get("other_property_disagreements", 0) + 1
            elif agree == "D":
                totals["disagree"] += 1
                disagreements.append((fam, tag, idx, kind, group, detail))
            elif agree == "E":
                totals["errors"] += 1
                disagreements.append((fam, tag, idx, kind, group, "ERROR " + detail))
            if oracle == "VIOL" and P.get("viol_only_prefix") and not detail.startswith(P["viol_only_prefix"]):
                oracle = "ok"   # another property's oracle; this check is about the prefix class only
            if oracle == "VIOL" and P.get("viol_exclude_prefix") and detail.startswith(P["viol_exclude_prefix"]):
                oracle = "na"
            if oracle == "VIOL" and P.get("foreign_prefix") and detail.startswith(P["foreign_prefix"]):
                oracle = "na"   # belongs to another property (e.g. a report file that is not rewritten whole: C18)
            if oracle == "ok":
                totals["oracle_ok"] += 1
            elif oracle == "VIOL":
                totals["oracle_viol"] += 1
                viols.append((fam, tag, idx, kind, group, detail))
            else:
                totals["oracle_na"] += 1
            reqline = lines[idx - 1] if idx - 1 < len(lines) else ""
            rf = reqline.split("\t")
            impl = rf[-1] if rf else ""
            if impl not in ("", "0", "PANIC") or kind in ("LINE", "SLOTS", "VER", "TYSZ"):
                h = hashlib.sha1(reqline.encode()).hexdigest()
                if h not in distinct:
                    distinct.add(h)
                    bk["nontrivial"] += 1
                    if len(samples) < 6 and (len(reqline) < 1500 or kind in ("DET", "LINES", "WALK")):
                        samples.append({"kind": kind, "group": group, "request": [x[:200] for x in rf], "agree": agree, "oracle": oracle})

    if harness_ok and driver_ok:
        if a.replay:
            rp = json.load(open(a.replay))
            req = os.path.join(work, "replay_in.tsv")
            open(req, "w").write("\n".join(rp.get("request_lines", [])) + "\n")
            ok_, st_, err_ = run_obs("replay", [req], a.seed, tier, os.path.join(work, "replay.tsv"))
            run_driver(os.path.join(work, "replay.tsv"), os.path.join(work, "replay.out"))
            print(open(os.path.join(work, "replay.out")).read())
            sys.exit(0)
        for fam, fargs in P["obs"]:
            run_family(fam, fargs, a.seed, tier, "")
            if P.get("release_too") and tier == "thorough":
                run_family(fam, fargs, a.seed, tier, "_rel")
        # a table of the model that the translator could not regenerate is tied to the code by the correspondence
        # alone: explore with the thorough generators too
        if FALLBACKS and tier == "quick":
            notes.append("translator residue: " + "; ".join(f"{f}: {sorted(r)}" for f, r in FALLBACKS.items()) +
                         " -- the reviewed baseline tables are used and the correspondence is widened (thorough generators)")
            deps = {"WalkEdges.lean": {"walk", "det", "relayout", "compose"}, "Targets.lean": {"walk", "det", "relayout", "compose"},
                    "Schema.lean": {"walk", "det", "relayout", "compose"}, "TypeSize.lean": {"slots", "det", "relayout", "compose"},
                    "Patterns.lean": {"det", "dir", "render"}, "Sections.lean": {"render"}}
            affected = set().union(*[deps.get(f, set()) for f in FALLBACKS]) if FALLBACKS else set()
            for fam, fargs in P["obs"]:
                if fam in affected:
                    run_family(fam, fargs, a.seed + 104729, "thorough", "_fallback")
        # widen the search when something no longer checks but no failing input has been seen yet
        if (broken or disagreements) and not viols and tier == "quick" and P.get("widen", True):
            notes.append("obligation/correspondence broken without a failing input in the quick run: widened search")
            for fam, fargs in P["obs"]:
                run_family(fam, fargs, a.seed + 7919, "thorough", "_wide")
                if viols:
                    break

    # ---- extra python-level checks of a property (process-level observations etc.)
    extra = {}
    if "extra" in P and harness_ok:
        try:
            ex = P["extra"](dict(tier=tier, seed=a.seed, work=work, harness_bin=harness_bin, repo=REPO, verif=VERIF, build=BUILD, run=run))
        except Exception as e:  # a crashing sub-check is a broken correspondence, not a pass
            ex = {"broken": [{"what": "correspondence", "name": f"process-level check crashed: {e!r}"}]}
        extra = ex.get("coverage", {})
        for b in ex.get("broken", []):
            broken.append(b)
        for v in ex.get("violations", []):
            viols.append(("extra", "", 0, v.get("kind", "PROC"), v.get("group", ""), json.dumps(v)[:4000]))
        totals["evaluations"] += ex.get("evaluations", 0)
        totals["agree"] += ex.get("agree", 0)
        totals["oracle_ok"] += ex.get("oracle_ok", 0)
        for s in ex.get("samples", [])[:3]:
            samples.append(s)
        for h in ex.get("distinct", []):
            distinct.add(h)

    # ---- 6: verdict
    out_lines = []
    exit_code = 0
    n_known = 0

    def is_known(kind, group, detail, ctx_lines):
        text = "\n".join(ctx_lines) + "\n" + detail
        for k in known.get("known", []):
            if k.get("property") != pid:
                continue
            if k.get("kind") and k["kind"] != kind:
                continue
            if k.get("group") and k["group"] != group:
                continue
            if k.get("match") and not re.search(k["match"], text, re.S):
                continue
            return k
        return None

    reported = set()
    for (fam, tag, idx, kind, group, detail) in viols:
        if fam == "extra":
            ctx = [detail]
        else:
            ctx = request_context(req_files[(fam, tag)], idx)
        k = is_known(kind, group, detail, ctx)
        if k:
            key = k.get("id", k.get("what"))
            if key not in reported:
                reported.add(key)
                out_lines.append(f"KNOWN-FINDING: property={pid} {k.get('what')}")
            n_known += 1
            continue
        if exit_code == 0:
            h = hashlib.sha1(("\n".join(ctx)).encode()).hexdigest()[:12]
            path = os.path.join(VERIF, "replays", pid, f"{h}.json")
            rp = {"property": pid, "kind": kind, "group": group, "oracle": "VIOL", "detail": detail[:4000],
                  "input": describe_input(ctx), "request_lines": ctx, "seed": a.seed, "tier": tier,
                  "how_to_replay": f"python3 bin/check.py {pid} --replay {os.path.relpath(path, VERIF)}"}
            # a smaller file on which the same violation still shows (time-boxed; the full input stays in the replay)
            try:
                import minimize
                mres = minimize.minimize(ctx, kind, group, "VIOL", budget=20.0)
                if mres:
                    rp["minimized"] = mres
            except Exception as e:
                rp["minimized_error"] = str(e)[:200]
            json.dump(rp, open(path, "w"), indent=1)
            out_lines.append(f"VIOLATION property={pid} replay={path}")
            exit_code = 1
    unknown_viol = exit_code == 1
    if not unknown_viol and (broken or disagreements):
        # no failing input found: the property is no longer shown to hold
        first = None
        if disagreements:
            fam, tag, idx, kind, group, detail = disagreements[0]
            ctx = request_context(req_files[(fam, tag)], idx) if (fam, tag) in req_files else []
            first = {"kind": kind, "group": group, "detail": detail[:4000], "input": describe_input(ctx), "request_lines": ctx}
        h = hashlib.sha1(json.dumps([broken, first], sort_keys=True, default=str).encode()).hexdigest()[:12]
        path = os.path.join(VERIF, "replays", pid, f"unproved_{h}.json")
        json.dump({"property": pid, "no_failing_input_found": True,
                   "no_longer_checks": broken, "model_vs_implementation_disagreements": len(disagreements),
                   "first_disagreement": first, "seed": a.seed, "tier": tier}, open(path, "w"), indent=1, default=str)
        out_lines.append(f"VIOLATION property={pid} replay={path} no-failing-input-found")
        exit_code = 1

    wall = time.time() - t0
    cov = {
        "obligations": obligations,
        "discharged": discharged,
        "checker_cmd": "cd lean && lake build " + " ".join(P["theorems"].keys()) + "  # then `#print axioms` on each registered theorem (bin/check.py audit)",
        "trusted_base": P.get("trusted_base", []) + [
            "Lean 4.33.0 kernel; axioms per theorem listed under `theorems` (allowed: propext, Classical.choice, Quot.sound)",
            "translator harness/src/bin/extract (reads tables off the Rust sources; fails closed with residue)",
            "correspondence harness (harness/src/bin/obs + lean/Driver.lean): model = code was observed on the inputs counted here, not proved",
        ],
        "theorems": theorem_report,
        "evaluations": totals["evaluations"],
        "distinct_nontrivial": len(distinct),
        "rule": P.get("rule", "a case is one request line (input + implementation answer); distinct by SHA-1 of the line; non-trivial when the implementation's answer is non-empty (for arithmetic requests: always)"),
        "samples": samples,
        "traces_validated_against_impl": totals["agree"],
        "model_vs_impl": {"agree": totals["agree"], "disagree": totals["disagree"], "errors": totals["errors"]},
        "oracle_on_impl": {"ok": totals["oracle_ok"], "violations": totals["oracle_viol"], "not_applicable": totals["oracle_na"], "known_findings_matched": n_known},
        "by_kind": by_kind,
        "generator": obs_stats,
        "driver": driver_stats,
        "no_longer_checks": [{k: (v if k != "log" else v[-500:]) for k, v in b.items()} for b in broken],
        "notes": notes,
        "translator": {"fallback_to_baseline": {f: r for f, r in FALLBACKS.items()}, "entry_frame_residue": FALLBACKS_INFO.get("entry_frame", [])},
    }
    cov.update(extra)
    ev = {"property_id": pid, "tier": tier, "seed": a.seed, "level": "proof", "coverage": cov,
          "assumptions": P.get("assumptions", []), "wall_s": round(wall, 2), "violations": (1 if exit_code else 0)}
    json.dump(ev, open(os.path.join(VERIF, "evidence", f"{pid}.json"), "w"), indent=1, default=str)
    for l in out_lines:
        print(l)
    print(f"{pid} {tier}: obligations {discharged}/{obligations}, evaluations {totals['evaluations']} (agree {totals['agree']}, disagree {totals['disagree']}, oracle viol {totals['oracle_viol']}), {wall:.1f}s -> {'FAIL' if exit_code else 'ok'}")
    sys.exit(exit_code)


if __name__ == "__main__":
    main()
