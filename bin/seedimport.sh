#!/bin/bash
# usage: seedimport.sh Cxx name   -- confirm the demonstration of /tmp/seed/Cxx(-demo) and store it as /verif/seeded/<name>
set -u
P=$1; NAME=$2; WT=/tmp/seed/$P; DEMO=/tmp/seed/$P-demo; OUT=/verif/seeded/$NAME
export CARGO_NET_OFFLINE=true
mkdir -p $OUT
cd $WT || exit 1
git diff > /tmp/seed/$P.check.diff
if ! [ -s /tmp/seed/$P.check.diff ]; then echo "no change in worktree"; exit 1; fi
if git diff --name-only | grep -qv '^src/'; then echo "WARNING: change outside src/"; git diff --name-only; fi
echo "== changed tree" > $OUT/demonstration.txt
(bash $DEMO/demo.sh $WT 2>&1 | grep -vE '^\s*(warning|-->|\||[0-9]+ +\||= |note:|Finished|Compiling|help:|Blocking|Running)|^\s*$|\^\^\^' | tail -60) >> $OUT/demonstration.txt
git apply -R /tmp/seed/$P.check.diff
echo "== unchanged tree" >> $OUT/demonstration.txt
(bash $DEMO/demo.sh $WT 2>&1 | grep -vE '^\s*(warning|-->|\||[0-9]+ +\||= |note:|Finished|Compiling|help:|Blocking|Running)|^\s*$|\^\^\^' | tail -60) >> $OUT/demonstration.txt
git apply /tmp/seed/$P.check.diff
(cargo test --workspace --no-fail-fast --offline 2>&1 | grep -E "^test result|FAILED|failed" | head -5) > $OUT/tests.txt
cp /tmp/seed/$P.check.diff $OUT/patch.diff
cp $DEMO/meta.json $OUT/meta.json
rsync -a --exclude target --exclude patch.diff --exclude meta.json --exclude 'solstat_report.md' $DEMO/ $OUT/demo/
cargo clean -q 2>/dev/null
git -C /repo apply --check $OUT/patch.diff && echo "patch applies to /repo"
cat $OUT/tests.txt
