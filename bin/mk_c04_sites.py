#!/usr/bin/env python3
"""Regenerate lean/Solstat/Props/C04Sites.lean: the classification of every panic-capable site of the
current inventory (lean/Solstat/Gen/Inventory.lean). Review the output: an unclassified site makes
this script fail, and a site appearing later makes theorem `panic_sites_accounted` fail."""
import re, sys, os
VERIF = os.path.dirname(os.path.dirname(os.path.abspath(__file__)))
inv = open(os.path.join(VERIF, "lean/Solstat/Gen/Inventory.lean")).read()
m = re.search(r"def panicSites : List String := \[(.*?)\]\n", inv, re.S)
sites = re.findall(r'"([^"]+)"', m.group(1))

RULES = [
    (r"^src/analyzer/ast\.rs::walk_node_for_targets::call:unwrap", "guarded", "unwrap under `if x.is_some()`: the translator interprets an unwrap only under that guard (otherwise residue)"),
    (r"::analyze_dir::call:expect", "io", "directory listing / file read errors (C16, C18)"),
    (r"::analyze_for_(optimization|vulnerability|qa)::call:unwrap#0", "parser", "`solang_parser::parse(..).unwrap()`: C04 quantifies over files the parser accepts"),
    (r"::analyze_for_qa::macro:panic#0", "dead", "wildcard arm after an exhaustive match"),
    (r"::str_to_(optimization|vulnerability|qa)::macro:panic", "config", "unknown pattern name: C14 requires the run to fail"),
    (r"^src/opts\.rs::", "cli", "option handling (C14)"),
    (r"^src/report/generation\.rs::generate_report::call:expect", "io", "writing the report (C18)"),
    (r"^src/report/.*::cast:usize", "bounded", "`variant as usize`: enum discriminant, cannot fail"),
    (r"^src/report/.*::arith:", "string-or-count", "`+` on `String`s and usize counters bounded by the number of findings"),
    (r"^src/analyzer/utils\.rs::get_line_number::call:unwrap", "regex", "constant regex compiles; capture group 0 always participates"),
    (r"^src/analyzer/utils\.rs::get_line_number::arith", "bounded", "i32 line counter: fewer than 2^31 lines"),
    (r"^src/analyzer/utils\.rs::get_solidity_major_minor_patch_version::call:unwrap", "regex", "constant regex compiles; capture group 0 always participates"),
    (r"^src/analyzer/utils\.rs::get_solidity_version_from_source_unit::call:parse", "handled", "`parse::<i32>().ok()`: failure is `None`, not a panic"),
    (r"^src/analyzer/utils\.rs::get_solidity_version_from_source_unit::index", "guarded", "indexed after `len() != 3` returned"),
    (r"^src/analyzer/utils\.rs::get_solidity_version_from_source_unit::call:unwrap", "kind", "Target::PragmaDirective only names a SourceUnitPart (theorem unwrap_safe)"),
    (r"^src/analyzer/utils\.rs::get_solidity_(major|minor|patch)_version::", "test-only", "helpers called by unit tests only, unreachable from analyze_for_* / analyze_dir / main"),
    (r"^src/analyzer/utils\.rs::get_(constant|immutable)_variables::", "test-only", "helpers not called from any entry point"),
    (r"^src/analyzer/utils\.rs::get_32_byte_storage_variables::call:unwrap", "kind", "Target::ContractDefinition only names a SourceUnitPart (theorem unwrap_safe)"),
    (r"^src/analyzer/utils\.rs::get_type_size::", "bounded", "u8 -> u16 widening and * 8 <= 2040"),
    (r"^src/analyzer/utils\.rs::storage_slots_used::arith", "bounded", "sums of two sizes <= 256 fit u16; slot count <= length (theorem slots_no_overflow)"),
    (r"shift_math\.rs::is_power_of_two_literal::", "bounded", "digit arithmetic on values 0..19; the digit vector is non-empty inside the loop"),
    (r"shift_math\.rs::shift_math_optimization::call:expect", "kind", "expression targets (theorem unwrap_safe)"),
    (r"string_errors\.rs::string_error_optimization::index#0", "wf-string", "a StringLiteral expression has at least one piece (grammar `StringLiteral+`; WFStrings, theorem string_index_safe)"),
    (r"(payable_function|unprotected_selfdestruct|immutable_variables|constructor_order)\.rs::.*::call:unwrap#0$", "kind-or-wf", "first unwrap of the detector: see C04.lean (unwrap_safe / contract_part_safe)"),
    (r"private_func_leading_underscore\.rs::private_func_leading_underscore::call:unwrap#0", "guarded", "`contract_part().unwrap()` after `if !node.is_contract_part() { continue }`"),
    (r"private_func_leading_underscore\.rs::private_func_leading_underscore::call:unwrap#1", "guarded", "`fn_def_data.unwrap()` under `if fn_def_data.is_some()`"),
    (r"memory_to_calldata\.rs::memory_to_calldata_optimization::call:unwrap#[01]", "guarded", "`contract_part()` / `source_unit_part()` unwrap after `is_contract_part()` test; a FunctionDefinition node is one or the other (theorem unwrap_safe)"),
    (r"memory_to_calldata\.rs::memory_to_calldata_optimization::call:unwrap#2", "guarded", "`body.unwrap()` under `if body.is_some()`"),
    (r"memory_to_calldata\.rs::memory_to_calldata_optimization::call:unwrap#3", "kind", "expression targets (theorem unwrap_safe)"),
    (r"memory_to_calldata\.rs::get_function_definition_memory_args::call:unwrap", "guarded", "unwrap under `is_some()`"),
    (r"pack_struct_variables\.rs::.*::call:unwrap", "guarded", "unwrap after `is_source_unit_part()` / `is_contract_part()`"),
    (r"unprotected_selfdestruct\.rs::unprotected_selfdestruct_vulnerability::call:unwrap#1", "guarded", "`body.clone().unwrap()` under `if body.is_some()`"),
    (r"unprotected_selfdestruct\.rs::_contains_msg_sender_conditions::call:unwrap#0", "guarded", "`body.clone().unwrap()` after `if body.is_none() { return }`"),
    (r"assign_update_array_value\.rs::.*::call:unwrap#[123]", "guarded", "unwrap under `is_some()`"),
    (r"cache_array_length\.rs::.*::call:unwrap#1", "guarded", "unwrap under `is_some()`"),
    (r"immutable_variables\.rs::get_storage_variables_assigned_in_constructor::call:unwrap#2", "guarded", "`storage_var.unwrap()` under `is_some()`"),
    (r"::call:(unwrap|expect)#\d+$", "kind", "`expression()/statement()/source_unit_part()/contract_part().unwrap()` on a walker result of a matching kind (theorems unwrap_safe, contract_part_safe)"),
]
rows = []
bad = []
for s in sites:
    for pat, cls, why in RULES:
        if re.search(pat, s):
            rows.append((s, cls, why))
            break
    else:
        bad.append(s)
if bad:
    print("UNCLASSIFIED:\n" + "\n".join(bad))
    sys.exit(1)
out = ["-- Classification of every panic-capable site of /repo's non-test code (regenerate with bin/mk_c04_sites.py, then review).",
       "-- Theorem `panic_sites_accounted` (Props/C04.lean) checks it against the inventory regenerated on every run.",
       "namespace Solstat", "", "def accountedSites : List (String × String × String) := ["]
out.append(",\n".join(f'  ("{s}", "{c}", "{w}")' for s, c, w in rows))
out.append("]")
out.append("")
# per (file, kind) counts of the reviewed sites: what the regenerated inventory is compared with, so that moving a
# site into a helper function (new name, same file, same kind) is not mistaken for a new site
cnt = {}
for s_, _, _ in rows:
    comps = s_.split("::")[0].split("/")
    f = "src/" + comps[1] if len(comps) >= 3 else "src"
    k = s_.rsplit("::", 1)[1].split("#")[0]
    k = "arith" if k.startswith("arith:") else ("unwrap" if k in ("call:unwrap", "call:expect") else k)
    cnt[(f, k)] = cnt.get((f, k), 0) + 1
out.append("def accountedCounts : List (String × String × Nat) := [")
out.append(",\n".join(f'  ("{f}", "{k}", {n})' for (f, k), n in sorted(cnt.items())))
out.append("]")
out.append("")
out.append("end Solstat")
open(os.path.join(VERIF, "lean/Solstat/Props/C04Sites.lean"), "w").write("\n".join(out) + "\n")
from collections import Counter
print(Counter(c for _, c, _ in rows))
