#!/bin/bash
# Run every registered check (default tier: quick) on /repo's current working tree, 6 at a time.
# Use before committing: the evidence files that get committed must come from a run on the unchanged tree.
cd "$(dirname "$0")/.." || exit 1
tier=${1:-quick}
if [ -n "$(git -C /repo status --porcelain)" ]; then echo "note: /repo working tree is not clean"; fi
for i in 01 02 03 04 05 06 07 08 09 10 11 12 13 14 15 16 17 18 19; do echo C$i; done \
  | xargs -P 6 -I{} sh -c "python3 bin/check.py {} --tier $tier 2>&1 | tail -1" | sort
