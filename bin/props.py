"""Per-property configuration of bin/check.py: theorem modules and registered theorems (obligations),
observation families, which driver verdicts belong to the property."""

import hashlib, os, random, shutil, subprocess
import proc


def c13_extra(ctx):
    """runtime part of C13: fresh processes (fresh hash seeds), different creation orders"""
    out = {"coverage": {}, "violations": [], "broken": [], "evaluations": 0, "samples": [], "distinct": []}
    # (a) the same findings rendered in two fresh harness processes
    a = os.path.join(ctx["work"], "render_p1.tsv")
    b = os.path.join(ctx["work"], "render_p2.tsv")
    for path in (a, b):
        r = ctx["run"]([ctx["harness_bin"]("obs"), "render", "--seed", str(ctx["seed"]), "--tier", "quick", "--out", path])
        if r.returncode != 0:
            out["broken"].append({"what": "correspondence", "name": "obs render failed in a fresh process"})
            return out
    la, lb = open(a).read().split("\n"), open(b).read().split("\n")
    diff = [i for i, (x, y) in enumerate(zip(la, lb)) if x != y]
    out["evaluations"] += len(la)
    out["coverage"]["cross_process_renderings"] = len(la)
    out["coverage"]["cross_process_differences"] = len(diff)
    if diff:
        out["violations"].append({"kind": "PROC", "group": "cross-process", "why": "the same findings render differently in two processes",
                                  "request_p1": la[diff[0]][:3000], "request_p2": lb[diff[0]][:3000]})
    # (b) the binary on the same directory content created in different orders, run repeatedly
    binary, err = proc.build_binary(ctx)
    if not binary:
        out["broken"].append({"what": "correspondence", "name": "solstat binary does not build", "log": err})
        return out
    root = proc.scratch_root()
    try:
        reports = []
        runs = 16 if ctx["tier"] == "thorough" else 8
        for k in range(runs):
            rnd = random.Random(ctx["seed"] * 1000 + k)
            d = os.path.join(root, f"run{k}")
            proc.make_fixture(os.path.join(d, "contracts"), rnd)
            code, rep, err = proc.run_solstat(binary, d, [])
            reports.append((code, rep))
            out["evaluations"] += 1
        # the same files under differently NAMED sub-directories (directory names are not part of any finding; they only
        # change where the sub-directory falls in the listing, i.e. the order in which files are discovered)
        for k, name in enumerate(["aaa", "zzz", "m", "_x", "Sub9", "0first", "~last"]):
            rnd = random.Random(ctx["seed"] * 1000 + 500 + k)
            d = os.path.join(root, f"named{k}")
            proc.make_fixture(os.path.join(d, "contracts"), rnd)
            os.rename(os.path.join(d, "contracts", "sub"), os.path.join(d, "contracts", name))
            code, rep, err = proc.run_solstat(binary, d, [])
            reports.append((code, rep))
            out["evaluations"] += 1
        runs = len(reports)
        distinct = {hashlib.sha1(r[1] or b"").hexdigest() for r in reports}
        out["coverage"]["binary_runs"] = runs
        out["coverage"]["binary_distinct_reports"] = len(distinct)
        out["distinct"] = list(distinct) + ["binary-fixture"]
        if len(distinct) != 1 or any(r[0] != 0 or r[1] is None for r in reports):
            out["violations"].append({"kind": "PROC", "group": "binary", "why": f"{len(distinct)} different reports over {runs} runs on the same directory content",
                                      "exit_codes": [r[0] for r in reports]})
        out["samples"].append({"kind": "PROC", "binary_runs": runs, "report_sha1": sorted(distinct), "report_bytes": len(reports[0][1] or b"")})
        # (c) the same multiset of configured pattern names, written in different orders (some names repeated)
        docs = proc.doc_names(ctx["repo"])
        rnd = random.Random(ctx["seed"] * 7 + 3)
        d = os.path.join(root, "order")
        proc.make_fixture(os.path.join(d, "contracts"), rnd)
        for trial in range(3 if ctx["tier"] == "thorough" else 2):
            sel = {}
            for cat in ("opt", "vuln", "qa"):
                names = [x for x in sorted(docs[cat]) if rnd.random() < 0.6] or [sorted(docs[cat])[0]]
                dup = rnd.choice(names)
                sel[cat] = names + [dup] + ([dup] if rnd.random() < 0.5 else [])
            reps = []
            for order in range(4):
                lines = []
                for cat, key in (("opt", "optimizations"), ("vuln", "vulnerabilities"), ("qa", "qa")):
                    names = list(sel[cat])
                    rnd.shuffle(names)
                    lines.append(f"{key} = [" + ", ".join('"%s"' % x for x in names) + "]")
                cfg = os.path.join(d, f"order{trial}_{order}.toml")
                open(cfg, "w").write("\n".join(lines) + "\n")
                code, rep, err = proc.run_solstat(binary, d, ["--toml", cfg])
                reps.append((code, rep, lines))
                out["evaluations"] += 1
            if len({hashlib.sha1(r[1] or b"").hexdigest() for r in reps}) != 1 or any(r[0] != 0 for r in reps):
                out["violations"].append({"kind": "PROC", "group": "config-order", "why": "the same pattern names configured in another order give another report",
                                          "configs": [r[2] for r in reps], "exit_codes": [r[0] for r in reps]})
        out["coverage"]["config_order_runs"] = 4 * (3 if ctx["tier"] == "thorough" else 2)
    finally:
        shutil.rmtree(root, ignore_errors=True)
    # (d) the report is a function of the findings of the run: not of what earlier runs left in the working directory
    history_extra(ctx, out, "history")
    return out


def history_extra(ctx, out, group):
    """runs over different directories from one working directory (proc.history_cases)"""
    binary, err = proc.build_binary(ctx)
    if not binary:
        out["broken"].append({"what": "correspondence", "name": "solstat binary does not build", "log": err})
        return
    root = proc.scratch_root()
    try:
        cases = proc.history_cases(binary, root, random.Random(ctx["seed"] * 13 + 5))
    finally:
        shutil.rmtree(root, ignore_errors=True)
    for c in cases:
        out["evaluations"] += len(c["sequence"]) + 1
        if c["problems"]:
            out["violations"].append({"kind": "PROC", "group": group, "why": "; ".join(c["problems"]), "case": c})
        out["distinct"].append(hashlib.sha1(repr((c["sequence"], c["report_sha1"])).encode()).hexdigest())
    out["coverage"]["history_sequences"] = [" > ".join(c["sequence"]) for c in cases]
    out["coverage"]["history_same_length_reports"] = sum(1 for c in cases if c["sequence"][0].startswith("shift") and c["report_bytes"] == c["fresh_report_bytes"])
    out["samples"] = out.get("samples", []) + cases[:2]


def c11_extra(ctx):
    """process-level part of C11: the report FILE lists the findings of the run and no other entries, whatever was in the
    working directory before"""
    out = {"coverage": {}, "violations": [], "broken": [], "evaluations": 0, "samples": [], "distinct": []}
    history_extra(ctx, out, "history")
    return out


def c04_extra(ctx):
    """process-level part of C04: the built binary on accepted files whose expressions / statements nest deeply.
    A run that is killed (stack exhausted) is an aborted run.  Depths up to 40 must pass (about half of the 8 MiB default stack); the debug profile is known to
    exhaust the main thread's stack from about 80 levels of binary operators on (known finding K2)."""
    out = {"coverage": {}, "violations": [], "broken": [], "evaluations": 0, "samples": [], "distinct": []}
    binary, err = proc.build_binary(ctx)
    if not binary:
        out["broken"].append({"what": "correspondence", "name": "solstat binary does not build", "log": err})
        return out
    root = proc.scratch_root()
    shapes = {
        "sum": lambda n: "return " + " + ".join(["a"] * n) + ";",
        "and": lambda n: "require(" + " && ".join(["a > 1"] * n) + "); return a;",
        "parens": lambda n: "return " + "(" * n + "a" + ")" * n + ";",
        "calls": lambda n: "return " + "f(" * n + "a" + ")" * n + ";",
        "blocks": lambda n: "{ " * n + "a++;" + " }" * n + " return a;",
        "ifs": lambda n: "".join("if (a > %d) { " % i for i in range(n // 2)) + "a++;" + " }" * (n // 2) + " return a;",   # an `if` and its block: two levels
        "ternary": lambda n: "return " + "".join("a > %d ? %d : " % (i, i) for i in range(n)) + "0;",
    }
    depths = [10, 25, 40, 120] + ([250, 500] if ctx["tier"] == "thorough" else [])
    try:
        results = []
        for shape, mk in shapes.items():
            for n in depths:
                d = os.path.join(root, f"{shape}{n}")
                os.makedirs(os.path.join(d, "contracts"))
                open(os.path.join(d, "contracts", "Deep.sol"), "w").write(
                    "pragma solidity 0.8.17;\ncontract Deep { function f(uint256 a) public returns (uint256) { %s } }\n" % mk(n))
                code, rep, err = proc.run_solstat(binary, d, [])
                out["evaluations"] += 1
                results.append((shape, n, code))
                out["distinct"].append(f"depth-{shape}-{n}")
                if code != 0:
                    killed = code < 0 or code == 134
                    out["violations"].append({"kind": "PROC", "group": "depth",
                        "why": ("K2: stack exhausted" if killed else "run fails") + f" (exit status {code}) on an accepted file whose {shape} nest {n} deep (debug profile)",
                        "stderr": err[-300:], "shape": shape, "depth": n})
        out["coverage"]["depth_runs"] = [f"{s}:{n}:{'ok' if c == 0 else c}" for s, n, c in results]
    finally:
        shutil.rmtree(root, ignore_errors=True)
    return out


def c14_extra(ctx):
    out = {"coverage": {}, "violations": [], "broken": [], "evaluations": 0, "samples": [], "distinct": []}
    binary, err = proc.build_binary(ctx)
    if not binary:
        out["broken"].append({"what": "correspondence", "name": "solstat binary does not build", "log": err})
        return out
    root = proc.scratch_root()
    try:
        rnd = random.Random(ctx["seed"])
        n = 400 if ctx["tier"] == "thorough" else 60
        cases = proc.c14_cases(ctx, binary, root, rnd, n)
    finally:
        shutil.rmtree(root, ignore_errors=True)
    req = os.path.join(ctx["work"], "resolve.tsv")
    res = os.path.join(ctx["work"], "resolve.out")
    open(req, "w").write("\n".join(c["request"] for c in cases) + "\n")
    with open(req, "rb") as fin, open(res, "wb") as fout:
        subprocess.run([os.path.join(ctx["verif"], "lean", ".lake", "build", "bin", "driver")], stdin=fin, stdout=fout)
    verdicts = {}
    for l in open(res, encoding="utf-8", errors="replace"):
        f = l.rstrip("\n").split("\t")
        if len(f) >= 6 and f[1] == "RESOLVE":
            verdicts[int(f[0])] = (f[3], f[5], f[4])
    agree = dis = 0
    for i, c in enumerate(cases):
        a, detail, drv_oracle = verdicts.get(i + 1, ("E", "no verdict", "na"))
        if drv_oracle == "VIOL" and c["oracle"] != "VIOL":
            c["oracle"], c["why"] = "VIOL", detail[:600]
        c2 = {k: v for k, v in c.items() if k != "request"}
        if a == "A":
            agree += 1
        else:
            dis += 1
            out["broken"].append({"what": "correspondence", "name": "binary vs model of option resolution", "case": c2, "detail": detail[:600]})
        if c["oracle"] == "VIOL":
            out["violations"].append({"kind": "PROC", "group": "config", "why": c["why"], "case": c2})
        out["distinct"].append(hashlib.sha1(repr(c2).encode()).hexdigest())
    out["evaluations"] = len(cases)
    out["agree"] = agree
    out["oracle_ok"] = sum(1 for c in cases if c["oracle"] == "ok")
    out["coverage"]["binary_runs"] = len(cases)
    out["coverage"]["binary_vs_model"] = {"agree": agree, "disagree": dis}
    out["coverage"]["case_mix"] = {"with_toml": sum(1 for c in cases if c["toml"] is not None), "failing_exit": sum(1 for c in cases if c["exit"] != 0)}
    out["samples"] = [{k: v for k, v in c.items() if k != "request"} for c in cases[:3]]
    # keep only the first few broken entries
    out["broken"] = out["broken"][:3]
    return out


def c18_extra(ctx):
    out = {"coverage": {}, "violations": [], "broken": [], "evaluations": 0, "samples": [], "distinct": []}
    binary, err = proc.build_binary(ctx)
    if not binary:
        out["broken"].append({"what": "correspondence", "name": "solstat binary does not build", "log": err})
        return out
    root = proc.scratch_root()
    try:
        rnd = random.Random(ctx["seed"])
        n = 80 if ctx["tier"] == "thorough" else 12
        cases = proc.c18_cases(ctx, binary, root, rnd, n, use_strace=(ctx["tier"] == "thorough"))
    finally:
        shutil.rmtree(root, ignore_errors=True)
    for c in cases:
        if c["problems"]:
            out["violations"].append({"kind": "PROC", "group": "effects", "why": "; ".join(c["problems"]), "case": c})
        out["distinct"].append(hashlib.sha1(repr((c["mode"], c["stale_report"], c["runs"], c["report_sha1"])).encode()).hexdigest())
    out["evaluations"] = sum(c["runs"] for c in cases)
    out["agree"] = sum(c["runs"] for c in cases if not c["problems"])
    out["oracle_ok"] = sum(1 for c in cases if not c["problems"])
    out["coverage"]["binary_runs"] = out["evaluations"]
    out["coverage"]["modes"] = sorted({c["mode"] for c in cases})
    out["coverage"]["strace_runs"] = sum(1 for c in cases if c["strace"])
    out["samples"] = cases[:3]
    history_extra(ctx, out, "history")
    return out


PROPS = {
    "C01": {
        "theorems": {
            "Solstat.Props.C01": [
                "walkT_nil", "walkL_nil", "blocked_empty", "extra_empty", "visited_nodup", "order_ok",
                "walk_residue_empty", "walk_preamble_ok", "schema_ok", "assembly_leaf", "kinds_by_name",
                "node_tags_complete", "targets_residue_empty", "C01", "single_is_multi", "targets_as_set",
                "extract_mem", "assembly_opaque",
            ],
        },
        "obs": [("walk", [])],
        "kinds": ["WALK", "ROOT"],
        "assumptions": [
            "the walker visits the fields of one arm in the order the translator reads them off the source (orderOk) — checked behaviourally on every WALK request (sequences are compared, not sets)",
            "solang-parser produces trees that conform to the schema generated from its pt.rs (evaluated on every FILE/ROOT request)",
            "source order = pre-order in declaration order of pt.rs",
        ],
    },
    "C02": {
        "theorems": {
            "Solstat.Props.C02": [
                "lineLoop_count", "lineOf_eq", "lineOf_spec", "mem_lineSet", "ascending_lineSet",
                "analyzeLines_spec", "analyzeLines_ascending",
            ],
        },
        "obs": [("line", []), ("det", [])],
        "kinds": ["LINE", "LINES"],
        "viol_exclude_prefix": "panic",
        "assumptions": [
            "a flagged construct starts inside the file on a byte that is not a line feed (token starts; evaluated per request: LINE requests with the offset on a line feed or past the end are outside the oracle's domain)",
            "line counts stay below 2^31 (i32 in the code, Nat in the model)",
            "regex crate: captures_iter of `\\n` yields the ascending byte positions of line feeds",
        ],
    },
    "C10": {
        "theorems": {
            "Solstat.Props.C10": [
                "slots_fold_eq_layout_fold", "layout_used_pos", "slots_eq_layout", "slots_no_overflow", "sortNat_perm",
                "sortNat_sorted", "report_sound", "report_not_if_optimal", "report_if_sorting_saves",
                "report_if_both_sorts_save", "typeSize_bool", "typeSize_address", "typeSize_address_payable",
                "typeSize_uint", "typeSize_int", "typeSize_bytes", "typeSize_other_type", "typeSize_residue_empty",
                "typeSize_non_type", "typeSize_eq_spec_elementary",
            ],
        },
        "obs": [("slots", []), ("det", ["--nolines", "pack_"])],
        "kinds": ["SLOTS", "TYSZ", "DET"],
        "groups": ["pack"],
        "assumptions": [
            "sizes are between 1 and 256 bits (every type size the table can produce on parser output: 8..256); u16/u32 arithmetic cannot overflow there (theorem slots_no_overflow)",
            "Vec::sort on u16 is the ascending sort",
        ],
    },
    "C05": {
        "theorems": {
            "Solstat.Props.C05": [
                "addressBalance_meets", "addressZero_meets", "boolEqualsBool_meets", "assignUpdateArray_meets",
                "cacheArrayLength_meets", "incrementDecrement_meets", "multipleRequire_meets", "optimalComparison_meets",
                "shiftMath_meets", "solidityKeccak256_meets", "solidityMath_meets", "C05_all",
                "MeetsOn.canonical_reported", "MeetsOn.reported_matches", "isPow2_iff", "isPowerOfTwo_iff",
                "isPow2LiteralSpec_iff", "mem_uncheckedPrefixLocs", "underUnchecked_mem",
            ],
            "Solstat.Props.C01": ["C01", "blocked_empty", "kinds_by_name"],
        },
        "obs": [("det", ["--nolines", "address_balance", "address_zero", "bool_equals_bool", "assign_update_array", "cache_array_length",
                         "increment_decrement", "multiple_require", "optimal_comparison", "shift_math", "solidity_keccak256", "solidity_math"])],
        "kinds": ["DET"],
        "groups": ["addressbalance", "addresszero", "boolequalsbool", "assignupdatearray", "cachearraylength", "incrementdecrement",
                   "multiplerequire", "optimalcomparison", "shiftmath", "soliditykeccak256", "soliditymath"],
        "assumptions": [
            "increment_decrement: distinct ++/-- nodes of a file carry distinct locations (IncDecLocsDistinct; evaluated on every input, a failing input is reported as outside the oracle's domain)",
            "canonical / clearly-non-matching forms as defined in lean/Solstat/Spec/C05.lean (DESIGN.md section 8.1); grey zones are neither",
            "depends on C01 through the regenerated walker table (theorem blocked_empty)",
        ],
    },
    "C07": {
        "theorems": {
            "Solstat.Props.C07": [
                "unsafeErc20_meets", "floatingPragma_meets", "reachesDivide_iff", "reachesMultiply_iff",
                "divideBeforeMultiply_exact", "hasSenderCheck_eq", "unprotectedSelfdestruct_exact",
                "unprotectedSelfdestruct_must_not", "unprotectedSelfdestruct_must_partial", "C07_local",
            ],
            "Solstat.Props.C07b": ["nonExempt_of_check", "no_check_of_all_exempt", "unprotectedSelfdestruct_must", "mustReport_iff"],
            "Solstat.Props.C01": ["C01", "blocked_empty", "kinds_by_name"],
        },
        "obs": [("det", ["--nolines", "unsafe_erc20", "divide_before_multiply", "floating_pragma", "unprotected_selfdestruct"])],
        "kinds": ["DET"],
        "groups": ["unsafeerc20", "dividebeforemultiply", "floatingpragma", "unprotectedselfdestruct"],
        "assumptions": [
            "unprotected_selfdestruct MUST half: proved as the property words it (Props/C07b unprotectedSelfdestruct_must: every mention of msg.sender, occurrence by occurrence, lies inside selfdestruct arguments or is the operand of a type conversion => reported); the oracle's mustReport is exactly that hypothesis (mustReport_iff)",
            "depends on C01 through the regenerated walker table",
        ],
    },
    "C06": {
        "theorems": {
            "Solstat.Props.C06": [
                "payableFunction_exact", "privateConstant_exact", "privateVars_exact", "privateFunc_exact",
                "mem_constructorOrderScan", "constructorOrder_local", "constructorOrder_exact",
            ],
            "Solstat.Props.C01": ["C01", "blocked_empty", "kinds_by_name"],
        },
        "obs": [("det", ["--nolines", "--hostile", "payable_function", "private_constant", "private_vars", "private_func", "constructor_order"])],
        "kinds": ["DET"],
        "groups": ["payablefunction", "privateconstant", "privatevars", "privatefunc", "constructororder"],
        "assumptions": [
            "the function definitions the walker finds below a contract node are that contract's direct members (true of parser output; the oracle recomputes the expected set from direct members and compares)",
            "depends on C01 through the regenerated walker table",
        ],
    },
    "C09": {
        "theorems": {
            "Solstat.Props.C09": [
                "matchVersionAt_full", "lastVersionMatch_prefix", "versionPieces_of_plain", "versionOfValue_plain",
                "ops_no_digit", "verLt_iff", "gate_lt_mono", "gate_ge_mono", "safeMath_gate", "safeMath_never_both",
                "stringErrors_gate", "shortRevert_gate", "no_version_silent", "safeMathCalls_exact", "versionOf_eq",
                "solidityPragmas_insert", "versionOf_insert", "other_pragma_noSolidity",
            ],
            "Solstat.Props.Compose": ["allNodes_sourceUnit", "extract_sourceUnit"],
            "Solstat.Props.C01": ["C01", "blocked_empty", "kinds_by_name"],
        },
        "obs": [("ver", []), ("det", ["--nolines", "--hostile", "safe_math", "string_error", "short_revert"])],
        "kinds": ["VER", "DET"],
        "groups": ["safemath", "stringerror", "shortrevert"],
        "assumptions": [
            "regex crate: `\\d+\\.\\d+\\.+\\d+` behaves on ASCII input as the modelled matcher (leftmost-first, greedy, non-overlapping; last match kept) — observed exhaustively on all strings of length <= 5 (quick) / 6 (thorough) over {0,1,8,9,'.',' ','^','>','='} and on the property's 6 x 246 table",
            "version components below 2^31 and ASCII pragma values (beyond that the code declines to analyse: no version); non-ASCII values are outside the model (regex \\d is Unicode-aware)",
            "depends on C01 through the regenerated walker table",
        ],
    },
    "C08": {
        "theorems": {
            "Solstat.Props.C08": [
                "mem_writtenNames", "mem_storageVarTable", "constantVariables_exact", "constantVariables_sound",
                "sstore_exact", "keys_storageVarTable", "mem_constructorAssigns", "mem_writtenOutsideConstructors",
                "immutableVariables_sound", "immutableVariables_complete_partial", "immutableVariables_complete_counterexample",
                "mem_assignedBases", "memoryToCalldata_exact", "memoryToCalldata_sound",
            ],
            "Solstat.Props.C01": ["C01", "blocked_empty", "kinds_by_name"],
        },
        "obs": [("det", ["--nolines", "constant_variable", "immutable_variables", "memory_to_calldata", "sstore"])],
        "kinds": ["DET"],
        "groups": ["constantvariable", "immutablevariables", "memorytocalldata", "sstore"],
        "assumptions": [
            "state-variable names unique within the file and not shadowed by parameters or locals (property hypothesis; evaluated per input, failing inputs are outside the oracle's domain)",
            "immutable_variables completeness is proved for right-hand sides that do not look like a non-value type (…_complete_partial); the full statement is false of model and code (known finding K1, Lean counterexample)",
            "memory_to_calldata: ++/-- on a parameter and member writes are a grey zone (section 8.4): the must-suggest oracle excludes them, the must-not oracle does not name them",
            "depends on C01 through the regenerated walker table",
        ],
    },
    "C04": {
        "theorems": {
            "Solstat.Props.C04": [
                "panic_sites_accounted", "inventory_residue_empty", "unwrap_safe", "expression_unwraps_safe",
                "statement_unwraps_safe", "source_unit_part_unwraps_safe", "two_owner_kinds", "contract_part_safe",
                "string_index_safe", "versionOfValue_total", "parseI32_overflow",
            ],
            "Solstat.Props.C09": ["no_version_silent"],
            "Solstat.Props.C01": ["C01", "blocked_empty", "kinds_by_name", "walk_residue_empty"],
        },
        "obs": [("det", ["--hostile"])],
        "kinds": ["DET", "LINES", "FILE"],
        "extra": c04_extra,
        "viol_only_prefix": "panic",
        "disagree_only_prefix": "panic",   # what a detector returns is C05-C09's business; C04 is about returning at all
        "release_too": True,
        "rule": "a case is one (file, detector) or (file, pattern) call under catch_unwind; distinct by SHA-1 of the request line; non-trivial when the implementation returns findings (the hostile stream aims at the panic sites: no pragma, free functions, huge literals, odd pragma values, address(), >256 functions, deep nesting)",
        "assumptions": [
            "quantifies over files the parser accepts; nesting depth <= 64 is inherited from the inputs (the model has no stack)",
            "solang-parser trees conform to the schema generated from pt.rs and every string-literal expression has a piece (evaluated per FILE request)",
            "quick tier: debug build (overflow checks on); thorough tier: debug and release builds",
            "I/O, CLI and configuration sites are the business of C14/C16/C18 (classified in Props/C04Sites.lean)",
        ],
    },
    "C03": {
        "theorems": {
            "Solstat.Props.C03": ["pushFile_spec", "analyzeEntry_exact", "analyzeEntries_exact", "analyzeDir_exact", "analyzeEntries_ok_iff"],
            "Solstat.Props.Pipeline": ["triples_findingsOf", "optimizationReport_of_directory", "qaReport_of_directory", "vulnerabilityReport_of_directory",
                                       "optimizationReport_listing_order", "qaReport_listing_order"],
            "Solstat.Props.C16": ["flatMap_eligibleFilesFrom", "analyzeDir_exact'", "contentsOf_perm", "analyzeDir_perm"],
        },
        "obs": [("dir", [])],
        "kinds": ["DIR"],
        "rule": "a case is one real directory tree (random shape, depth <= 3, eligible and ineligible names, listing order as read_dir returns it) analysed by one of the three real analyze_dir with a random pattern selection; distinct by SHA-1 of the request; non-trivial when the result has at least one finding",
        "assumptions": [
            "the per-file analysis is an arbitrary function in the theorems; in the correspondence it is the observed table of analyze_for_* results per eligible file",
            "listing-order independence (analyzeDir_perm) needs the per-file analysis not to depend on the file number: observed on every file (two file numbers) and see C15/C17",
            "HashMap<P, Vec<..>> is modelled as a function from patterns to push-ordered vectors; a key is present iff its vector is non-empty",
            "file-system: read_dir order is what the harness records immediately before the call (real trees under a scratch root, removed afterwards)",
        ],
    },
    "C16": {
        "theorems": {
            "Solstat.Props.C16": ["eligible_iff", "contentsOf_insert_ineligible", "contentsOf_dir_congr", "ineligible_inert",
                                  "eligibleFilesFrom_names", "analyzeDir_ok_iff", "ineligible_cannot_fail"],
            "Solstat.Props.C03": ["analyzeDir_exact"],
        },
        "obs": [("dir", [])],
        "kinds": ["DIR"],
        # which files are analysed is C16's business; how their results are merged is C03's / C15's
        "viol_only_prefix": ("eligibility", "panic"),
        "disagree_only_prefix": ("eligibility", "panic"),
        "assumptions": [
            "Rust's to_lowercase produces one of '.', 't', 's', 'o', 'l' only from ASCII input: checked exhaustively over all Unicode scalar values on every run (generator statistic non_ascii_chars_lowercasing_into_dot_t_sol must be 0)",
            "valid-Unicode file names (the code panics on non-UTF-8 names: outside the property's quantifier)",
            "the file system is an idealised listing: symlinks, permissions, concurrent modification are not modelled",
        ],
    },
    "C15": {
        "theorems": {
            "Solstat.Props.C13b": ["ascending_ext", "lineSet_congr", "analyzeLines_order_irrelevant", "analyzeLines_perm"],
            "Solstat.Props.C16": ["entry_local"],
            "Solstat.Props.C15": ["no_global_state"],
            "Solstat.Props.C03": ["analyzeDir_exact"],
        },
        "obs": [("dir", []), ("threads", [])],
        "kinds": ["DIR", "THREADS"],
        "assumptions": [
            "determinism and repetition are properties of functions in the model; for the code they rest on the absence of shared state (theorem no_global_state on the regenerated inventory) and on the 16-thread stress comparison (runtime part, not proved)",
            "independence of the file number: theorem lines_fileNo_irrelevant_all (renumbering is a relocation; every detector is equivariant), given that the parser puts the file number into the locations and nowhere else — observed on every file (two file numbers per call, generator statistic file_number_dependent_results must be 0)",
        ],
    },
    "C11": {
        "theorems": {
            "Solstat.Props.C11Sections": ["signatures_as_reviewed"],
            "Solstat.Props.C11": ["rb_section_lines", "rb_entries", "rb_block", "rb_blocksOf", "readBack_blocks", "triples_canon_perm",
                                  "rb_severityPart", "triples_by_severity", "C11_vulnerability",
                                  "readBack_optimizationReport", "sigOK_of_b", "sigOK_opt", "sigOK_vuln", "sigOK_qa",
                                  "overviews_have_no_marker", "C11_optimization", "C11_qa", "section_iff"],
            "Solstat.Props.C11Text": ["parseEntryChars_render", "render_entry_toList", "parseLine_entry", "parseLine_text", "not_entry_of_head"],
            "Solstat.Props.C13": ["all_variants_known"],
        },
        "obs": [("render", [])],
        "kinds": ["RENDER", "FULLREPORT"],
        "extra": c11_extra,
        "foreign_prefix": ("stale",),   # a report file that keeps text of the previous run is C18's violation
        "rule": "a case is one findings map (random subset of patterns, 0-6 files per pattern with names containing spaces, colons, dashes, unicode, the list marker; line sets incl. 0 and 2^31-1) rendered by the real generate_*_report; distinct by SHA-1; non-trivial when at least one entry is listed",
        "assumptions": [
            "the read-back theorem is about structured lines (text | entry file line); the step from the text is Props/C11Text: the character-level parser used by the oracle (split at the LAST colon) recovers (file, line) from the rendered `- file:line` for every file name (colons, dashes, spaces, list markers included) and every line number (parseLine_entry), and returns a line that does not start with `-` unchanged (parseLine_text, not_entry_of_head); that the fixed section texts contain no line that parses as an entry is not decided in the kernel (String.toList over ~900 literals times out) — such a line could only matter inside a `### Lines` list, where sectionBlock puts nothing but entries and the closing empty line",
            "section texts, overview formats and the variant->section mapping are regenerated by the translator; side conditions (every section has an exclusive signature line, no section or overview contains the list marker) are decided in the kernel on the regenerated texts",
            "the vulnerability part's read-back is covered by readBack_blocks per severity part plus correspondence and oracle; a single theorem for the concatenated vulnerability report is not stated",
            "file names without line breaks",
        ],
    },
    "C12": {
        "theorems": {
            "Solstat.Props.C12Text": ["readTotal_render", "opt_total_text", "vuln_total_text"],
            "Solstat.Props.C12": ["entryCount_blocks", "opt_total", "totalEntries_partition", "heading_literals_ok", "entryCount_severityPart",
                                  "vuln_total", "severity_table", "blocks_eq_nil", "heading_iff", "part_iff"],
        },
        "obs": [("render", [])],
        "kinds": ["RENDER", "FULLREPORT"],
        "foreign_prefix": ("stale",),   # a report file that keeps text of the previous run is C18's violation
        "assumptions": [
            "findings maps as the analysis produces them: keys only with non-empty vectors (a key with an empty vector makes a category part appear without sections; such maps are rendered too and agree with the model)",
            "all 16 subsets of the four vulnerability patterns x random multiplicities are rendered on every run",
        ],
    },
    "C13": {
        "theorems": {
            "Solstat.Props.C13b": ["ascending_ext", "lineSet_congr", "analyzeLines_order_irrelevant", "analyzeLines_perm"],
            "Solstat.Props.Sort": ["sortBy_perm", "sortBy_sorted", "sortBy_eq_of_perm", "fileLe_preorder", "fileLe_antisymm", "sortFiles_perm"],
            "Solstat.Props.C13": ["canon_perm", "canon_files_perm", "optimizationReport_perm", "qaReport_perm", "vulnerabilityReport_perm",
                                  "all_variants_known", "fullReport_perm"],
        },
        "obs": [("render", [])],
        "kinds": ["RENDER", "FULLREPORT"],
        "foreign_prefix": ("stale",),   # a report file that keeps text of the previous run is C18's violation
        "extra": c13_extra,
        "assumptions": [
            "per-process RandomState is represented by a universally quantified permutation of the map's entries; that a HashMap cannot do anything a permutation cannot is an assumption (runtime part: the same findings are rendered in fresh processes and the binary is run repeatedly on differently-created trees; bytes must be identical)",
            "Rust orders Strings byte-wise = by code point (UTF-8), BTreeSet<i32> lexicographically by elements",
        ],
    },
    "C14": {
        "theorems": {
            "Solstat.Props.C11Sections": ["names_as_reviewed"],
            "Solstat.Props.C14": ["documented_names_accepted", "documentation_complete", "tables_injective", "defaults_selectable",
                                  "tables_lowercase", "dispatch_by_name", "names_by_name", "patterns_residue_empty", "asciiLower_idem",
                                  "strTo_case_insensitive", "strTo_accepts", "strTo_unknown", "mapNames_ok", "resolve_patterns",
                                  "resolve_path", "unknown_name_fails"],
        },
        "obs": [],
        "kinds": [],
        "extra": c14_extra,
        "rule": "a case is one run of the built solstat binary in a scratch tree with three candidate directories (./contracts, the configuration file's path, --path) in which every pattern has a finding, with a generated TOML file (random subset and order of documented names, random letter case, sometimes an unknown name, with/without path key) and with/without --path/--toml; distinct by the case description",
        "assumptions": [
            "clap and the toml/serde deserialiser are not modelled (exercised through the binary)",
            "pattern names are ASCII (Rust's to_lowercase is Unicode-aware: U+212A KELVIN SIGN lower-cases to 'k'); the model lower-cases ASCII letters only",
            "the documentation tables and Solstat.toml are read by the translator on every run",
        ],
    },
    "C17": {
        "theorems": {
            "Solstat.Props.C17": [
                "inv_of_fwd", "optInv_of_fwd", "equiv_of_fwd", "equivariant_filterMap",
                "addressBalance_equivariant", "addressZero_equivariant", "boolEqualsBool_equivariant", "multipleRequire_equivariant",
                "optimalComparison_equivariant", "shiftMath_equivariant", "solidityKeccak256_equivariant", "solidityMath_equivariant",
                "unsafeErc20_equivariant", "floatingPragma_equivariant", "divideBeforeMultiply_equivariant", "safeMathCalls_equivariant",
                "cacheArrayLength_equivariant", "incDecLocs_equivariant", "lines_move_with_tokens", "fileNo_irrelevant",
            ],
            "Solstat.Props.MapLoc": ["allNodes_mapLoc", "extract_mapLoc", "mapLoc_comp", "mapLoc_id", "mapLoc_leftInverse", "mapLoc_congr",
                                     "filterMap_detector_equivariant"],
            "Solstat.Props.C15b": ["swapFile_invol", "offsets_fileNo_irrelevant", "lines_fileNo_irrelevant", "lines_fileNo_irrelevant_all"],
            "Solstat.Props.C17s": ["reported_in_tree", "reported_in_tree_all", "no_finding_outside_nodes", "reported_line_is_node_line"],
            "Solstat.Props.C17p": ["matchVersionAt_append", "scanVersion_append", "scanVersion_respace", "versionOfValue_respace"],
            "Solstat.Props.C17b": [
                "listEquiv_of_fwd", "optEquiv_of_fwd", "contractFunctions_mapLoc", "storageVarTable_mapLoc", "stripSubscripts_mapLoc'",
                "payableFunction_equivariant", "constructorOrder_equivariant", "privateConstant_equivariant",
                "privateVarsLeadingUnderscore_equivariant", "privateFuncLeadingUnderscore_equivariant", "packStorageVariables_equivariant",
                "packStructVariables_equivariant", "stringErrors_equivariant", "shortRevertString_equivariant", "safeMath_equivariant",
                "incrementDecrement_equivariant", "assignUpdateArray_equivariant", "constantVariables_equivariant", "sstore_equivariant",
                "memoryToCalldata_equivariant", "immutableVariables_equivariant", "unprotectedSelfdestruct_equivariant",
                "C17_all", "C17_all_names",
            ],
            "Solstat.Props.C17Ext": ["loc_infinite", "extend_to_perm", "C17_sample"],
            "Solstat.Props.C02": ["lineOf_spec", "analyzeLines_spec"],
        },
        "obs": [("relayout", [])],
        "kinds": ["TOKMAP", "RELAY", "STRLIT", "LINES", "PRAGMASP"],
        "viol_exclude_prefix": "panic",   # a detector that aborts is C04's violation, not a layout dependence
        "rule": "a case is one (base layout, re-layout, detector): the base layout separates every token by one space; the re-layout inserts random white space, LF/CRLF, line/block/doc comments with code-like text and multi-byte characters between all tokens (pragma directives are copied verbatim: their value is one token); STRLIT cases replace the content of every string literal by code-like text of the same length; distinct by SHA-1 of the request line; non-trivial when the detector flags something in the base layout",
        "assumptions": [
            "assumption about the parser, evaluated on every sample (TOKMAP): the re-laid-out text parses to exactly the relocated tree, tree2 = mapLoc rho tree1, with rho the map induced by the token offsets (starts to starts, ends to ends; a location's end may be the start of the following token, an empty range sits between two tokens) and rho injective on the locations of the tree; C17_sample turns that into the hypothesis of the equivariance theorems",
            "equivariance is a theorem for every detector of the dispatch table (C17_all over detectorByName, all 30 names: C17_all_names); that the model detectors are the code is the correspondence (model = impl on both layouts, every sample)",
            "string-literal insensitivity (STRLIT) is checked by correspondence and oracle only (same-length replacement so that all offsets stay fixed)",
            "pragma values are compared as text by the version regex: a re-layout that changes the inside of a pragma directive changes a token, which the property excludes",
        ],
    },
    "C18": {
        "theorems": {
            "Solstat.Props.C18h": ["runs_append", "last_run_decides", "history_irrelevant", "failing_run_keeps_report"],
            "Solstat.Props.C18": ["run_frame", "run_failure_writes_nothing", "run_writes_render", "old_report_overwritten",
                                  "report_name_ineligible", "effects_complete"],
            "Solstat.Props.C16": ["ineligible_inert", "ineligible_cannot_fail"],
            "Solstat.Props.System": ["main_run", "main_failure_writes_nothing", "main_run_optimizations", "main_run_vulnerabilities", "main_run_qa"],
        },
        "obs": [("render", [])],
        "kinds": ["FULLREPORT"],
        # what the report says is C11-C13's business; C18 is about the file being (re)written whole
        "viol_only_prefix": ("stale", "MISSING", "PANIC"),
        "disagree_only_prefix": ("stale", "MISSING", "PANIC"),
        "extra": c18_extra,
        "rule": "a case is a scratch tree with a chosen working directory (parent of ./contracts, outside with --path, equal to the analysed directory, inside a sub-directory of it), optionally a stale report, and 2-3 repeated runs of the built binary with a byte snapshot of the whole tree before and after; thorough adds strace of every path opened for writing; plus in-process generate_report over a stale file",
        "assumptions": [
            "the file system is an idealised finite map (partial writes, symlinks, permissions, concurrent modification are not modelled): what std::fs::write and the OS do is observed, not proved (runtime part)",
            "the analyses are read-only: theorem effects_complete on the regenerated inventory of fs / process / env call sites",
        ],
    },
    "C19": {
        "theorems": {
            "Solstat.Props.C19": ["compose_of_distributes", "item_contribution", "distributes_filterMap", "distributes_flatMap",
                                  "contracts_sourceUnit", "distributes_perContract", "constructorOrder_distributes", "packStorage_distributes",
                                  "C19_local", "solidityPragmas_keep", "versionOf_keep"],
            "Solstat.Props.C19b": ["compose_versionGated", "stringErrors_composes", "shortRevertString_composes", "incrementDecrement_composes"],
            "Solstat.Props.C19c": ["storageVarEntries_parts", "writtenNames_parts", "sstore_composes", "keep_sublist", "constantVariables_composes"],
            "Solstat.Props.C19e": ["lfPositionsFrom_blank", "lineOf_blank", "lines_compose", "lines_compose_of_distributes", "item_lines"],
            "Solstat.Props.C19d": ["mem_immutableVariables", "constructorAssigns_parts", "writtenOutsideConstructors_parts", "immutableVariables_composes"],
            "Solstat.Props.Compose": ["allNodes_sourceUnit", "extract_sourceUnit"],
            "Solstat.Props.C01": ["C01", "blocked_empty"],
        },
        "obs": [("compose", [])],
        "kinds": ["COMPOSE", "COMPOSELINES"],
        "viol_exclude_prefix": "panic",   # a detector that aborts is C04's violation, not an interference between items
        "rule": "a case is one (file, detector): the file has >= 2 top-level items; for every item the file is re-parsed with all other non-pragma items blanked (bytes -> spaces, line feeds kept) and the real detector is run on the whole and on every blanked variant; distinct by SHA-1; non-trivial when the whole file has findings",
        "assumptions": [
            "assumption about the parser, evaluated on every sample: blanking all other items yields exactly the whole tree with those items removed and all locations unchanged (`keep i`)",
            "proved for the 22 detectors whose verdict does not look beyond the item (C19_local), for string_errors / short_revert_string given that non-pragma items hold no `pragma solidity` (stringErrors_composes, shortRevertString_composes via versionOf_keep), for increment_decrement given that an increment of one item is not an unchecked prefix increment of another (incrementDecrement_composes), and for sstore / constant_variables under the property's own hypothesis that items do not write to each other's state variables (+ unique names for constant_variables): sstore_composes, constantVariables_composes, immutableVariables_composes: every detector in the property's scope has a composition theorem",
            "the two SafeMath detectors are excluded by the property (file-wide `using` by design)",
        ],
    },
}
