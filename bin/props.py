"""Per-property configuration of bin/check.py: theorem modules and registered theorems (obligations),
observation families, which driver verdicts belong to the property."""

PROPS = {
    "C01": {
        "theorems": {
            "Solstat.Props.C01": [
                "walkT_nil", "walkL_nil", "blocked_empty", "extra_empty", "visited_nodup", "order_ok",
                "walk_residue_empty", "walk_preamble_ok", "schema_ok", "assembly_leaf", "kinds_by_name",
                "node_tags_complete", "targets_residue_empty", "C01", "single_is_multi", "targets_as_set",
                "extract_mem", "assembly_opaque",
            ],
        },
        "obs": [("walk", [])],
        "kinds": ["WALK", "ROOT"],
        "assumptions": [
            "the walker visits the fields of one arm in the order the translator reads them off the source (orderOk) — checked behaviourally on every WALK request (sequences are compared, not sets)",
            "solang-parser produces trees that conform to the schema generated from its pt.rs (evaluated on every FILE/ROOT request)",
            "source order = pre-order in declaration order of pt.rs",
        ],
    },
}
