import Solstat.Props.C09
/-!
# C19 — findings compose over the top-level items of a file
-/
namespace Solstat
open Solstat.Gen T View

/-- a detector distributes over the top-level items: analysing the file is analysing each item
(as a root of its own, at its original position: locations are part of the item) and concatenating -/
def Distributes (d : T → List Loc) : Prop := ∀ parts : List T, d (mkSourceUnit parts) = parts.flatMap d

def isPragmaPart (p : T) : Bool := p.tag? = some .SourceUnitPart_PragmaDirective

/-- the file from which every item other than the pragma directives and the `i`-th item has been
removed (positions in the text, i.e. all locations, unchanged) -/
def keep (i : Nat) (parts : List T) : List T :=
  parts.zipIdx.filterMap fun pj => if isPragmaPart pj.1 || pj.2 = i then some pj.1 else none

theorem mem_keep {i : Nat} {parts : List T} {p : T} (h : p ∈ keep i parts) : p ∈ parts := by
  unfold keep at h
  rw [List.mem_filterMap] at h
  obtain ⟨⟨q, j⟩, hq, he⟩ := h
  split at he
  · simp only [Option.some.injEq] at he; subst he
    exact (List.mem_zipIdx hq).2.2 ▸ List.getElem_mem _
  · cases he

theorem getElem_mem_keep (parts : List T) (i : Nat) (hi : i < parts.length) : parts[i] ∈ keep i parts := by
  unfold keep
  rw [List.mem_filterMap]
  refine ⟨(parts[i], i), ?_, by simp⟩
  rw [List.mem_zipIdx_iff_getElem?]
  simp [hi]

/-- **C19 (generic).** For a detector that distributes over the top-level items, the findings of the
file are exactly the union of the findings obtained when each item is analysed on its own with the
pragmas kept: nothing is added, nothing is lost, whatever the other items are. -/
theorem compose_of_distributes (d : T → List Loc) (hd : Distributes d) (parts : List T) (l : Loc) :
    l ∈ d (mkSourceUnit parts) ↔ ∃ i, i < parts.length ∧ l ∈ d (mkSourceUnit (keep i parts)) := by
  rw [hd parts]
  constructor
  · intro h
    rw [List.mem_flatMap] at h
    obtain ⟨p, hp, hl⟩ := h
    obtain ⟨i, hi, rfl⟩ := List.getElem_of_mem hp
    refine ⟨i, hi, ?_⟩
    rw [hd (keep i parts), List.mem_flatMap]
    exact ⟨parts[i], getElem_mem_keep parts i hi, hl⟩
  · rintro ⟨i, _, h⟩
    rw [hd (keep i parts), List.mem_flatMap] at h
    obtain ⟨p, hp, hl⟩ := h
    rw [List.mem_flatMap]
    exact ⟨p, mem_keep hp, hl⟩

/-- adding, removing or reordering unrelated items never adds or removes a finding inside an item:
the contribution of an item is `d item`, whatever surrounds it -/
theorem item_contribution (d : T → List Loc) (hd : Distributes d) (pre post pre' post' : List T) (item : T) (l : Loc)
    (h : l ∈ d item) : l ∈ d (mkSourceUnit (pre ++ item :: post)) ∧ l ∈ d (mkSourceUnit (pre' ++ item :: post')) := by
  rw [hd, hd]
  simp only [List.flatMap_append, List.flatMap_cons, List.mem_append]
  exact ⟨Or.inr (Or.inl h), Or.inr (Or.inl h)⟩

/-! ## which detectors distribute -/

theorem distributes_filterMap (ts : List Target) (g : T → Option Loc) (hts : ts.contains .SourceUnit = false) :
    Distributes (fun f => (extract ts f).filterMap g) := by
  intro parts
  simp only [extract_sourceUnit, hts, Bool.false_eq_true, if_false, List.nil_append]
  induction parts with
  | nil => rfl
  | cons p ps ih => simp only [List.flatMap_cons, List.filterMap_append, ih]

theorem distributes_flatMap (ts : List Target) (g : T → List Loc) (hts : ts.contains .SourceUnit = false) :
    Distributes (fun f => (extract ts f).flatMap g) := by
  intro parts
  simp only [extract_sourceUnit, hts, Bool.false_eq_true, if_false, List.nil_append]
  induction parts with
  | nil => rfl
  | cons p ps ih => simp only [List.flatMap_cons, List.flatMap_append, ih]

theorem addressBalance_distributes : Distributes addressBalance := distributes_filterMap _ _ (by decide)
theorem addressZero_distributes : Distributes addressZero := distributes_filterMap _ _ (by decide)
theorem boolEqualsBool_distributes : Distributes boolEqualsBool := distributes_filterMap _ _ (by decide)
theorem assignUpdateArray_distributes : Distributes assignUpdateArray := distributes_filterMap _ _ (by decide)
theorem multipleRequire_distributes : Distributes multipleRequire := distributes_filterMap _ _ (by decide)
theorem optimalComparison_distributes : Distributes optimalComparison := distributes_filterMap _ _ (by decide)
theorem shiftMath_distributes : Distributes shiftMath := distributes_filterMap _ _ (by decide)
theorem solidityKeccak256_distributes : Distributes solidityKeccak256 := distributes_filterMap _ _ (by decide)
theorem solidityMath_distributes : Distributes solidityMath := distributes_filterMap _ _ (by decide)
theorem unsafeErc20_distributes : Distributes unsafeErc20Operation := distributes_filterMap _ _ (by decide)
theorem floatingPragma_distributes : Distributes floatingPragma := distributes_filterMap _ _ (by decide)
theorem divideBeforeMultiply_distributes : Distributes divideBeforeMultiply := distributes_filterMap _ _ (by decide)
theorem privateFunc_distributes : Distributes privateFuncLeadingUnderscore := distributes_filterMap _ _ (by decide)
theorem packStruct_distributes : Distributes packStructVariables := distributes_filterMap _ _ (by decide)
theorem cacheArrayLength_distributes : Distributes cacheArrayLength := distributes_flatMap _ _ (by decide)
theorem memoryToCalldata_distributes : Distributes memoryToCalldata := distributes_flatMap _ _ (by decide)

/-- detectors that go contract by contract -/
theorem contracts_sourceUnit (parts : List T) : contracts (mkSourceUnit parts) = parts.flatMap contracts := by
  unfold contracts
  rw [extract_sourceUnit]
  simp

theorem distributes_perContract (h : T → List Loc) : Distributes (fun f => (contracts f).flatMap h) := by
  intro parts
  simp only [contracts_sourceUnit]
  induction parts with
  | nil => rfl
  | cons p ps ih => simp only [List.flatMap_cons, List.flatMap_append, ih]

theorem payableFunction_distributes : Distributes payableFunction := distributes_perContract _
theorem privateConstant_distributes : Distributes privateConstant := distributes_perContract _
theorem privateVars_distributes : Distributes privateVarsLeadingUnderscore := distributes_perContract _
theorem constructorOrder_distributes : Distributes constructorOrder := distributes_perContract _
theorem unprotectedSelfdestruct_distributes : Distributes unprotectedSelfdestruct := distributes_perContract _

theorem packStorage_distributes : Distributes packStorageVariables := by
  intro parts
  unfold packStorageVariables
  simp only [contracts_sourceUnit]
  induction parts with
  | nil => rfl
  | cons p ps ih => simp only [List.flatMap_cons, List.filterMap_append, ih]

/-- **C19** for the 22 detectors whose verdict does not look beyond the item -/
theorem C19_local :
    Distributes addressBalance ∧ Distributes addressZero ∧ Distributes boolEqualsBool ∧ Distributes assignUpdateArray ∧
    Distributes cacheArrayLength ∧ Distributes multipleRequire ∧ Distributes optimalComparison ∧ Distributes shiftMath ∧
    Distributes solidityKeccak256 ∧ Distributes solidityMath ∧ Distributes unsafeErc20Operation ∧ Distributes floatingPragma ∧
    Distributes divideBeforeMultiply ∧ Distributes unprotectedSelfdestruct ∧ Distributes payableFunction ∧
    Distributes privateConstant ∧ Distributes privateVarsLeadingUnderscore ∧ Distributes privateFuncLeadingUnderscore ∧
    Distributes constructorOrder ∧ Distributes packStorageVariables ∧ Distributes packStructVariables ∧
    Distributes memoryToCalldata :=
  ⟨addressBalance_distributes, addressZero_distributes, boolEqualsBool_distributes, assignUpdateArray_distributes,
   cacheArrayLength_distributes, multipleRequire_distributes, optimalComparison_distributes, shiftMath_distributes,
   solidityKeccak256_distributes, solidityMath_distributes, unsafeErc20_distributes, floatingPragma_distributes,
   divideBeforeMultiply_distributes, unprotectedSelfdestruct_distributes, payableFunction_distributes,
   privateConstant_distributes, privateVars_distributes, privateFunc_distributes, constructorOrder_distributes,
   packStorage_distributes, packStruct_distributes, memoryToCalldata_distributes⟩

/-! ## version-gated detectors: the version is a function of the pragmas, which `keep` keeps -/

/-- `string_errors` and `short_revert_string` compose once the version is the same (the items other than
pragma directives contain no `pragma solidity`: true of every parse tree) -/
theorem solidityPragmas_keep (parts : List T) (i : Nat)
    (hnp : ∀ p ∈ parts, isPragmaPart p = false → NoSolidityPragma p) :
    solidityPragmas (mkSourceUnit (keep i parts)) = solidityPragmas (mkSourceUnit parts) := by
  unfold solidityPragmas
  rw [extract_sourceUnit, extract_sourceUnit]
  have hc : ([Target.PragmaDirective].contains Target.SourceUnit) = false := by decide
  simp only [hc, Bool.false_eq_true, if_false, List.nil_append]
  unfold keep
  -- per part: a non-pragma part contributes nothing to either side
  have key : ∀ (ps : List T) (k : Nat), (∀ p ∈ ps, isPragmaPart p = false → NoSolidityPragma p) →
      List.filterMap solidityPragmaOf (List.flatMap (extract [.PragmaDirective])
        (List.filterMap (fun (pj : T × Nat) => if isPragmaPart pj.1 || pj.2 = i then some pj.1 else none) (ps.zipIdx k))) =
      List.filterMap solidityPragmaOf (List.flatMap (extract [.PragmaDirective]) ps) := by
    intro ps
    induction ps with
    | nil => intro k _; rfl
    | cons p ps ih =>
      intro k hp
      have ih' := ih (k + 1) (fun q hq => hp q (by simp [hq]))
      simp only [List.zipIdx_cons, List.filterMap_cons, List.flatMap_cons, List.filterMap_append]
      by_cases hpr : isPragmaPart p = true
      · simp only [hpr, Bool.true_or, if_true, List.flatMap_cons, List.filterMap_append, ih']
      · have hpr' : isPragmaPart p = false := by simpa using hpr
        have hno := hp p (by simp) hpr'
        unfold NoSolidityPragma at hno
        by_cases hk : k = i
        · subst hk
          simp only [hpr', Bool.false_or, decide_true, if_true, List.flatMap_cons, List.filterMap_append]
          rw [ih']
        · simp only [hpr', hk, Bool.false_or, decide_false, Bool.false_eq_true, if_false, hno, List.nil_append, ih']
  exact key parts 0 hnp

theorem versionOf_keep (parts : List T) (i : Nat)
    (hnp : ∀ p ∈ parts, isPragmaPart p = false → NoSolidityPragma p) :
    versionOf (mkSourceUnit (keep i parts)) = versionOf (mkSourceUnit parts) := by
  rw [versionOf_eq, versionOf_eq, solidityPragmas_keep parts i hnp]

end Solstat
