import Solstat.Props.C12
/-!
# C12 — the printed total reads back as a number

`opt_total` / `vuln_total` say that the overview line `pre ++ toString N ++ post` is in the report, `N` the number of
entries listed.  Here the step to the text: reading the decimal number between the fixed prefix and the fixed suffix
of that line gives `N` back, for every `N` (any number of digits) — so a total that is printed with a separator, a
padding, or in another base cannot satisfy it.
-/
namespace Solstat

theorem takeWhile_append_stop' {α : Type} (p : α → Bool) (xs : List α) (y : α) (ys : List α)
    (hx : ∀ x ∈ xs, p x = true) (hy : p y = false) : (xs ++ y :: ys).takeWhile p = xs := by
  induction xs with
  | nil => simp [List.takeWhile, hy]
  | cons x xs ih =>
    simp only [List.cons_append, List.takeWhile_cons, hx x (by simp), if_true]
    rw [ih (fun z hz => hx z (by simp [hz]))]

theorem dropWhile_append_stop' {α : Type} (p : α → Bool) (xs : List α) (y : α) (ys : List α)
    (hx : ∀ x ∈ xs, p x = true) (hy : p y = false) : (xs ++ y :: ys).dropWhile p = y :: ys := by
  induction xs with
  | nil => simp [List.dropWhile, hy]
  | cons x xs ih =>
    simp only [List.cons_append, List.dropWhile_cons, hx x (by simp), if_true]
    exact ih (fun z hz => hx z (by simp [hz]))

/-- strip a prefix -/
def dropPrefix? : List Char → List Char → Option (List Char)
  | [], s => some s
  | _ :: _, [] => none
  | p :: ps, c :: cs => if p = c then dropPrefix? ps cs else none

theorem dropPrefix?_append (p s : List Char) : dropPrefix? p (p ++ s) = some s := by
  induction p with
  | nil => rfl
  | cons a p ih => simp [dropPrefix?, ih]

/-- the number printed between `pre` and `post`: the maximal run of decimal digits after `pre`, followed by exactly `post` -/
def readTotal (pre post line : List Char) : Option Nat :=
  match dropPrefix? pre line with
  | none => none
  | some rest =>
    let ds := rest.takeWhile Char.isDigit
    if ds.isEmpty then none
    else if rest.dropWhile Char.isDigit = post then some (Nat.ofDigitChars 10 ds 0) else none

theorem takeWhile_digits_all (ds : List Char) (h : ∀ c ∈ ds, c.isDigit = true) : ds.takeWhile Char.isDigit = ds := by
  induction ds with
  | nil => rfl
  | cons c cs ih => simp [List.takeWhile_cons, h c (by simp), ih (fun x hx => h x (by simp [hx]))]

theorem dropWhile_digits_all (ds : List Char) (h : ∀ c ∈ ds, c.isDigit = true) : ds.dropWhile Char.isDigit = [] := by
  induction ds with
  | nil => rfl
  | cons c cs ih => simp [List.dropWhile_cons, h c (by simp), ih (fun x hx => h x (by simp [hx]))]

/-- **the printed total reads back**, whatever the number, for a suffix that does not begin with a digit -/
theorem readTotal_render (pre post : List Char) (n : Nat) (hpost : ∀ c ∈ post.head?, c.isDigit = false) :
    readTotal pre post (pre ++ Nat.toDigits 10 n ++ post) = some n := by
  unfold readTotal
  rw [List.append_assoc, dropPrefix?_append]
  have hd : ∀ c ∈ Nat.toDigits 10 n, c.isDigit = true :=
    fun c hc => Nat.isDigit_of_mem_toDigits (b := 10) (by decide) (by decide) hc
  have hne : (Nat.toDigits 10 n).isEmpty = false := by
    cases h : Nat.toDigits 10 n with
    | nil => exact absurd h Nat.toDigits_ne_nil
    | cons _ _ => rfl
  cases post with
  | nil =>
    simp only [List.append_nil, takeWhile_digits_all _ hd, dropWhile_digits_all _ hd, hne]
    simp [Nat.ofDigitChars_ten_toDigits]
  | cons y ys =>
    have hy : y.isDigit = false := hpost y (by simp)
    simp only [takeWhile_append_stop' _ _ _ _ hd hy, dropWhile_append_stop' _ _ _ _ hd hy]
    simp [hne, Nat.ofDigitChars_ten_toDigits]

/-- the overview line of the model, as characters -/
theorem overview_line_toList (pre post : String) (n : Nat) :
    (pre ++ toString n ++ post).toList = pre.toList ++ Nat.toDigits 10 n ++ post.toList := by
  simp only [String.toList_append, Nat.toString_eq_repr, Nat.toList_repr]

/-- **C12, text level (optimisations)**: the report contains an overview line whose printed number reads back as the
number of entries listed -/
theorem opt_total_text (F : Findings Gen.Optimization) :
    ∃ s, Line.text s ∈ optimizationReport optCategory F ∧
      readTotal Gen.sec_opt_overview_linePre.toList Gen.sec_opt_overview_linePost.toList s.toList =
        some (entryCount (optimizationReport optCategory F)) := by
  refine ⟨_, opt_total F, ?_⟩
  rw [overview_line_toList]
  apply readTotal_render
  intro c hc
  have : Gen.sec_opt_overview_linePost.toList = [')'] := by decide
  rw [this] at hc
  simp at hc; subst hc; decide

/-- **C12, text level (vulnerabilities)** -/
theorem vuln_total_text (F : Findings Gen.Vulnerability) :
    ∃ s, Line.text s ∈ vulnerabilityReport vulnCategory F ∧
      readTotal Gen.sec_vuln_overview_linePre.toList Gen.sec_vuln_overview_linePost.toList s.toList =
        some (entryCount (vulnerabilityReport vulnCategory F)) := by
  refine ⟨_, vuln_total F, ?_⟩
  rw [overview_line_toList]
  apply readTotal_render
  intro c hc
  have : Gen.sec_vuln_overview_linePost.toList = [')'] := by decide
  rw [this] at hc
  simp at hc; subst hc; decide

/-- a total printed with a thousands separator does not read back: `1,5` is not `1005` -/
example : readTotal ['T', ' '] [')'] ['T', ' ', '1', ',', '5', ')'] = none := by decide
example : readTotal ['T', ' '] [')'] ['T', ' ', '1', '0', '0', '5', ')'] = some 1005 := by decide

end Solstat
