import Solstat.Props.C02
/-!
# C13 / C15 at the per-file level: the iteration order of the detector's result does not matter

A detector returns a `HashSet<Loc>`; `analyze_for_*` iterates it (in an order that depends on the per-process hash
seed), maps each location to its line and collects the lines in a `BTreeSet`.  In the model the iteration order is
the order of the list `d tree`.  Here: the reported lines are the same for every order, and for every multiplicity,
of that list (`analyzeLines_order_irrelevant`) — a per-file result that depended on the order in which findings are
visited (a cache of the previous finding's line, an incremental count) would contradict it.
-/
namespace Solstat
open Solstat.Gen T

/-- two strictly ascending lists with the same members are equal -/
theorem ascending_ext : ∀ (a b : List Nat), Ascending a → Ascending b → (∀ y, y ∈ a ↔ y ∈ b) → a = b
  | [], [], _, _, _ => rfl
  | [], y :: ys, _, _, h => absurd ((h y).2 (by simp)) (by simp)
  | x :: xs, [], _, _, h => absurd ((h x).1 (by simp)) (by simp)
  | x :: xs, y :: ys, ha, hb, h => by
    have hax := List.pairwise_cons.1 ha
    have hby := List.pairwise_cons.1 hb
    have hxy : x = y := by
      have h1 : x ∈ y :: ys := (h x).1 (by simp)
      have h2 : y ∈ x :: xs := (h y).2 (by simp)
      rcases List.mem_cons.1 h1 with e | h1
      · exact e
      · rcases List.mem_cons.1 h2 with e | h2
        · exact e.symm
        · have := hby.1 x h1
          have := hax.1 y h2
          omega
    subst hxy
    congr 1
    apply ascending_ext xs ys hax.2 hby.2
    intro z
    constructor
    · intro hz
      have : z ∈ x :: ys := (h z).1 (List.mem_cons_of_mem _ hz)
      rcases List.mem_cons.1 this with e | this
      · subst e; exact absurd (hax.1 z hz) (Nat.lt_irrefl _)
      · exact this
    · intro hz
      have : z ∈ x :: xs := (h z).2 (List.mem_cons_of_mem _ hz)
      rcases List.mem_cons.1 this with e | this
      · subst e; exact absurd (hby.1 z hz) (Nat.lt_irrefl _)
      · exact this

/-- the line set depends on the set of its arguments only -/
theorem lineSet_congr (xs ys : List Nat) (h : ∀ y, y ∈ xs ↔ y ∈ ys) : lineSet xs = lineSet ys :=
  ascending_ext _ _ (ascending_lineSet xs) (ascending_lineSet ys) (fun y => by rw [mem_lineSet, mem_lineSet]; exact h y)

/-- **the order (and multiplicity) in which the findings of a file are visited does not matter**: two detectors
that flag the same set of locations give the same lines -/
theorem analyzeLines_order_irrelevant (d d' : T → List Loc) (bs : List UInt8) (tree : T)
    (h : ∀ l, l ∈ d tree ↔ l ∈ d' tree) : analyzeLines d bs tree = analyzeLines d' bs tree := by
  unfold analyzeLines
  apply lineSet_congr
  intro y
  simp only [List.mem_map]
  constructor
  · rintro ⟨l, hl, rfl⟩; exact ⟨l, (h l).1 hl, rfl⟩
  · rintro ⟨l, hl, rfl⟩; exact ⟨l, (h l).2 hl, rfl⟩

/-- in particular for any permutation of the detector's result -/
theorem analyzeLines_perm (d : T → List Loc) (σ : List Loc → List Loc) (hσ : ∀ xs, (σ xs).Perm xs)
    (bs : List UInt8) (tree : T) : analyzeLines (fun t => σ (d t)) bs tree = analyzeLines d bs tree :=
  analyzeLines_order_irrelevant _ _ bs tree (fun l => (hσ (d tree)).mem_iff)

/-- non-vacuity: reversing the findings of a file whose constructs lie on lines 2, 1, 2 -/
example : lineSet [2, 1, 2] = [1, 2] ∧ lineSet [2, 1, 2].reverse = [1, 2] := by decide

end Solstat
