import Solstat.Spec.EntryText
import Solstat.Props.C11
/-!
# C11 — the rendered TEXT reads back to the structured lines

`Props/C11.lean` reads a report back on structured lines (`Line.text` / `Line.entry`).  This file closes the gap to
the bytes: printing a structured line and parsing the text gives the line back — for every file name (colons,
digits, spaces, markdown in the name do not matter: the split is at the last colon and the number has none) and
every line number.  (Text lines are only ever interpreted as entries inside a `### Lines` list, where the renderer puts
nothing but entries and the closing empty line: `sectionBlock`.)
-/
namespace Solstat

theorem takeWhile_append_stop {α : Type} (p : α → Bool) (xs : List α) (y : α) (ys : List α)
    (hx : ∀ x ∈ xs, p x = true) (hy : p y = false) : (xs ++ y :: ys).takeWhile p = xs := by
  induction xs with
  | nil => simp [List.takeWhile, hy]
  | cons x xs ih =>
    simp only [List.cons_append, List.takeWhile_cons, hx x (by simp), if_true]
    rw [ih (fun z hz => hx z (by simp [hz]))]

theorem dropWhile_append_stop {α : Type} (p : α → Bool) (xs : List α) (y : α) (ys : List α)
    (hx : ∀ x ∈ xs, p x = true) (hy : p y = false) : (xs ++ y :: ys).dropWhile p = y :: ys := by
  induction xs with
  | nil => simp [List.dropWhile, hy]
  | cons x xs ih =>
    simp only [List.cons_append, List.dropWhile_cons, hx x (by simp), if_true]
    exact ih (fun z hz => hx z (by simp [hz]))

theorem splitLastColon_append (f ds : List Char) (hd : ∀ c ∈ ds, c ≠ ':') :
    splitLastColon (f ++ ':' :: ds) = some (f, ds) := by
  unfold splitLastColon
  have hr : (f ++ ':' :: ds).reverse = ds.reverse ++ ':' :: f.reverse := by simp
  simp only [hr]
  have hx : ∀ x ∈ ds.reverse, (fun c : Char => decide (c ≠ ':')) x = true := by
    intro x hx; simpa using hd x (List.mem_reverse.1 hx)
  have hy : (fun c : Char => decide (c ≠ ':')) ':' = false := by simp
  rw [dropWhile_append_stop _ _ _ _ hx hy, takeWhile_append_stop _ _ _ _ hx hy]
  simp

theorem digits_no_colon (n : Nat) : ∀ c ∈ Nat.toDigits 10 n, c ≠ ':' := by
  intro c hc e
  have := Nat.isDigit_of_mem_toDigits (b := 10) (by decide) (by decide) hc
  subst e
  revert this; decide

/-- the text of an entry line, as characters -/
def renderEntryChars (f : List Char) (l : Nat) : List Char := '-' :: ' ' :: (f ++ ':' :: Nat.toDigits 10 l)

theorem parseEntryChars_render (f : List Char) (l : Nat) : parseEntryChars (renderEntryChars f l) = some (f, l) := by
  unfold parseEntryChars renderEntryChars
  simp only [splitLastColon_append f _ (digits_no_colon l)]
  have h1 : (Nat.toDigits 10 l).isEmpty = false := by
    cases h : Nat.toDigits 10 l with
    | nil => exact absurd h Nat.toDigits_ne_nil
    | cons _ _ => rfl
  have h2 : (Nat.toDigits 10 l).all Char.isDigit = true := by
    rw [List.all_eq_true]
    intro c hc
    exact Nat.isDigit_of_mem_toDigits (b := 10) (by decide) (by decide) hc
  simp [h1, h2, Nat.ofDigitChars_ten_toDigits]

theorem render_entry_toList (f : String) (l : Nat) : (Line.render (.entry f l)).toList = renderEntryChars f.toList l := by
  have h1 : ("- " : String).toList = ['-', ' '] := by decide
  have h2 : (":" : String).toList = [':'] := by decide
  simp only [Line.render, renderEntryChars, String.toList_append, Nat.toString_eq_repr, Nat.toList_repr, h1, h2]
  simp

/-- **an entry line reads back**, whatever the file name and the number -/
theorem parseLine_entry (f : String) (l : Nat) : parseLine (Line.render (.entry f l)) = .entry f l := by
  unfold parseLine
  rw [render_entry_toList, parseEntryChars_render]
  simp

/-- a text line reads back as itself when it does not have the shape of an entry -/
theorem parseLine_text (s : String) (h : parseEntryChars s.toList = none) : parseLine (Line.render (.text s)) = .text s := by
  unfold parseLine; simp [Line.render, h]

/-- a line that does not start with `- ` is not an entry: covers the overview lines `… (Total X n)` -/
theorem not_entry_of_head (cs : List Char) (h : cs.head? ≠ some '-') : parseEntryChars cs = none := by
  unfold parseEntryChars
  split
  · simp at h
  · rfl

end Solstat
