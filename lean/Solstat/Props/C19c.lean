import Solstat.Props.C19b
import Solstat.Props.Assoc
/-!
# C19, continued: the detectors built on the file-wide state-variable table

`sstore` and `constant_variables` look a name up in one table for the whole file.  They compose over the
top-level items under exactly the hypothesis in the property's quantifier: the items do not mention each
other's state-variable names (and, for `constant_variables`, names are unique within the file).
-/
namespace Solstat
open Solstat.Gen T

/-- the walker's results below a source unit are the results below its parts (no target is the unit itself) -/
theorem extract_parts (ts : List Target) (hts : ts.contains .SourceUnit = false) (parts : List T) :
    extract ts (mkSourceUnit parts) = parts.flatMap (extract ts) := by
  rw [extract_sourceUnit]
  simp only [hts, Bool.false_eq_true, if_false, List.nil_append]

theorem storageVarEntries_parts (ic ii : Bool) (parts : List T) :
    storageVarEntries ic ii (mkSourceUnit parts) = parts.flatMap (storageVarEntries ic ii) := by
  unfold storageVarEntries
  rw [extract_parts _ (by decide)]
  induction parts with
  | nil => rfl
  | cons p ps ih => simp only [List.flatMap_cons, List.flatMap_append, ih]

theorem writtenNames_parts (parts : List T) : writtenNames (mkSourceUnit parts) = parts.flatMap writtenNames := by
  unfold writtenNames
  rw [extract_parts _ (by decide)]
  induction parts with
  | nil => rfl
  | cons p ps ih => simp only [List.flatMap_cons, List.filterMap_append, ih]

theorem tableHas_iff (ic ii : Bool) (su : T) (k : String) :
    assocHas (storageVarTable ic ii su) k = true ↔ k ∈ keys (storageVarEntries ic ii su) := by
  rw [assocHas_iff]
  unfold storageVarTable
  rw [keys_foldl_assocInsert]
  simp [keys]

theorem keys_flatMap {β : Type} (parts : List T) (f : T → List (String × β)) (k : String) :
    k ∈ keys (parts.flatMap f) ↔ ∃ p ∈ parts, k ∈ keys (f p) := by
  simp only [keys, List.map_flatMap, List.mem_flatMap]

/-- the name a plain assignment writes to -/
def assignLhsName : T → Option String
  | .node .Expression_Assign [_, lhs, _] => varName lhs
  | _ => none

/-- the location a plain assignment is reported at -/
def assignLoc : T → Option Loc
  | .node .Expression_Assign [loc, _, _] => Loc.ofT loc
  | _ => none

theorem sstoreAt_some_iff (table : List (String × List T × T)) (n : T) (l : Loc) :
    sstoreAt table n = some l ↔ ∃ v, assignLhsName n = some v ∧ assocHas table v = true ∧ assignLoc n = some l := by
  unfold sstoreAt assignLhsName assignLoc
  split
  · rename_i loc lhs x
    cases hv : varName lhs with
    | none => simp [hv]
    | some v =>
      by_cases hh : assocHas table v = true
      · simp only [hv, hh, if_true, Option.some.injEq]
        exact ⟨fun h => ⟨v, rfl, hh, h⟩, fun ⟨_, _, _, h⟩ => h⟩
      · simp only [hv, hh, if_false, Option.some.injEq]
        constructor
        · intro h; cases h
        · rintro ⟨w, hw, hhw, _⟩; subst hw; exact absurd hhw hh
  · simp

/-- **sstore composes** over the top-level items that do not assign to each other's state variables -/
theorem sstore_composes (parts : List T)
    (hnm : ∀ p ∈ parts, ∀ q ∈ parts, p ≠ q → ∀ n ∈ extract [.Assign] p, ∀ v, assignLhsName n = some v →
      v ∉ keys (storageVarEntries true true q)) (l : Loc) :
    l ∈ sstore (mkSourceUnit parts) ↔ ∃ i, i < parts.length ∧ l ∈ sstore (mkSourceUnit (keep i parts)) := by
  have hmem : ∀ ps : List T, l ∈ sstore (mkSourceUnit ps) ↔
      ∃ p ∈ ps, ∃ n ∈ extract [.Assign] p, ∃ v, assignLhsName n = some v ∧ (∃ q ∈ ps, v ∈ keys (storageVarEntries true true q)) ∧
        assignLoc n = some l := by
    intro ps
    unfold sstore
    rw [extract_parts _ (by decide), List.mem_filterMap]
    constructor
    · rintro ⟨n, hn, hs⟩
      rw [List.mem_flatMap] at hn
      obtain ⟨p, hp, hnp⟩ := hn
      obtain ⟨v, hv, hh, hl⟩ := (sstoreAt_some_iff _ n l).1 hs
      rw [tableHas_iff, storageVarEntries_parts, keys_flatMap] at hh
      exact ⟨p, hp, n, hnp, v, hv, hh, hl⟩
    · rintro ⟨p, hp, n, hnp, v, hv, hq, hl⟩
      refine ⟨n, List.mem_flatMap.2 ⟨p, hp, hnp⟩, (sstoreAt_some_iff _ n l).2 ⟨v, hv, ?_, hl⟩⟩
      rw [tableHas_iff, storageVarEntries_parts, keys_flatMap]
      exact hq
  rw [hmem]
  constructor
  · rintro ⟨p, hp, n, hnp, v, hv, ⟨q, hq, hvq⟩, hl⟩
    obtain ⟨i, hi, rfl⟩ := List.getElem_of_mem hp
    refine ⟨i, hi, (hmem _).2 ⟨parts[i], getElem_mem_keep parts i hi, n, hnp, v, hv, ⟨parts[i], getElem_mem_keep parts i hi, ?_⟩, hl⟩⟩
    by_cases hpq : parts[i] = q
    · rw [hpq]; exact hvq
    · exact absurd hvq (hnm parts[i] hp q hq hpq n hnp v hv)
  · rintro ⟨i, _, h⟩
    obtain ⟨p, hp, n, hnp, v, hv, ⟨q, hq, hvq⟩, hl⟩ := (hmem _).1 h
    exact ⟨p, mem_keep hp, n, hnp, v, hv, ⟨q, mem_keep hq, hvq⟩, hl⟩

/-! ## constant_variables -/

theorem keep_sublist (i : Nat) (parts : List T) : (keep i parts).Sublist parts := by
  unfold keep
  have key : ∀ (ps : List T) (k : Nat),
      (List.filterMap (fun (pj : T × Nat) => if isPragmaPart pj.1 || pj.2 = i then some pj.1 else none) (ps.zipIdx k)).Sublist ps := by
    intro ps
    induction ps with
    | nil => intro k; simp
    | cons p ps ih =>
      intro k
      rw [List.zipIdx_cons, List.filterMap_cons]
      by_cases hc : (isPragmaPart p || decide (k = i)) = true
      · simp only [hc, if_true]
        exact (ih (k + 1)).cons_cons _
      · simp only [hc, if_false]
        exact (ih (k + 1)).cons _
  exact key parts 0

theorem sublist_flatMap {α β : Type} (f : α → List β) {l1 l2 : List α} (h : l1.Sublist l2) : (l1.flatMap f).Sublist (l2.flatMap f) := by
  induction h with
  | slnil => simp
  | cons a _ ih => simp only [List.flatMap_cons]; exact List.Sublist.trans ih (List.sublist_append_right _ _)
  | cons_cons a _ ih => simp only [List.flatMap_cons]; exact List.Sublist.append (List.Sublist.refl _) ih

theorem mem_constantVariables (su : T) (hnd : (keys (storageVarEntries true false su)).Nodup) (l : Loc) :
    l ∈ constantVariables su ↔ ∃ e ∈ storageVarEntries true false su, e.1 ∉ writtenNames su ∧ Loc.ofT e.2.2 = some l := by
  unfold constantVariables
  simp only [List.mem_filterMap]
  constructor
  · rintro ⟨e, he, hl⟩
    rw [mem_foldl_assocRemove] at he
    unfold storageVarTable at he
    rw [mem_foldl_assocInsert_nodup _ _ _ hnd (by simp [keys])] at he
    simp only [List.not_mem_nil, false_or] at he
    exact ⟨e, he.1, he.2, hl⟩
  · rintro ⟨e, he, hw, hl⟩
    refine ⟨e, ?_, hl⟩
    rw [mem_foldl_assocRemove]
    unfold storageVarTable
    rw [mem_foldl_assocInsert_nodup _ _ _ hnd (by simp [keys])]
    exact ⟨Or.inr he, hw⟩

/-- **constant_variables composes** when state-variable names are unique within the file and no item writes to a
state variable of another item -/
theorem constantVariables_composes (parts : List T)
    (hnd : (keys (storageVarEntries true false (mkSourceUnit parts))).Nodup)
    (hnm : ∀ p ∈ parts, ∀ q ∈ parts, p ≠ q → ∀ v ∈ keys (storageVarEntries true false p), v ∉ writtenNames q) (l : Loc) :
    l ∈ constantVariables (mkSourceUnit parts) ↔ ∃ i, i < parts.length ∧ l ∈ constantVariables (mkSourceUnit (keep i parts)) := by
  have hndk : ∀ i, (keys (storageVarEntries true false (mkSourceUnit (keep i parts)))).Nodup := by
    intro i
    rw [storageVarEntries_parts] at hnd ⊢
    unfold keys at hnd ⊢
    exact List.Nodup.sublist (List.Sublist.map _ (sublist_flatMap _ (keep_sublist i parts))) hnd
  rw [mem_constantVariables _ hnd]
  simp only [fun i => mem_constantVariables _ (hndk i), storageVarEntries_parts, writtenNames_parts, List.mem_flatMap, not_exists, not_and]
  constructor
  · rintro ⟨e, ⟨p, hp, he⟩, hw, hl⟩
    obtain ⟨i, hi, rfl⟩ := List.getElem_of_mem hp
    exact ⟨i, hi, e, ⟨parts[i], getElem_mem_keep parts i hi, he⟩, fun q hq => hw q (mem_keep hq), hl⟩
  · rintro ⟨i, _, e, ⟨p, hp, he⟩, hw, hl⟩
    refine ⟨e, ⟨p, mem_keep hp, he⟩, ?_, hl⟩
    intro q hq
    by_cases hpq : p = q
    · subst hpq; exact hw p hp
    · exact hnm p (mem_keep hp) q hq hpq e.1 (by simp only [keys, List.mem_map]; exact ⟨e, he, rfl⟩)

end Solstat
