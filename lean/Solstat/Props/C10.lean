import Solstat.Detectors
import Solstat.Spec.Basic
/-!
# C10 — packing suggestions are sound with respect to the storage-slot model
-/
namespace Solstat
open Solstat.Gen

/-! ## the slot counter equals Solidity's layout rule -/

/-- the two loops run in lock step: (bits used, slots closed) vs (slot index, bits used) -/
theorem slots_fold_eq_layout_fold : ∀ (xs : List Nat) (u s : Nat),
    (xs.foldl slotsStep (u, s)) = ((xs.foldl layoutStep (s, u)).2, (xs.foldl layoutStep (s, u)).1)
  | [], _, _ => rfl
  | x :: xs, u, s => by
    simp only [List.foldl]
    by_cases h : u + x > 256
    · have h' : ¬ (u + x ≤ 256) := by omega
      simp only [slotsStep, layoutStep, h, h', if_true, if_false]
      exact slots_fold_eq_layout_fold xs x (s + 1)
    · have h' : u + x ≤ 256 := by omega
      simp only [slotsStep, layoutStep, h, h', if_true, if_false]
      exact slots_fold_eq_layout_fold xs (u + x) s

theorem layout_used_pos : ∀ (xs : List Nat) (s u : Nat), (∀ x ∈ xs, 1 ≤ x) → 1 ≤ u →
    1 ≤ (xs.foldl layoutStep (s, u)).2
  | [], _, _, _, hu => hu
  | x :: xs, s, u, hx, hu => by
    simp only [List.foldl]
    have hx1 : 1 ≤ x := hx x (by simp)
    have hrest : ∀ y ∈ xs, 1 ≤ y := fun y hy => hx y (by simp [hy])
    unfold layoutStep
    by_cases h : u + x ≤ 256
    · simp only [h, if_true]; exact layout_used_pos xs s (u + x) hrest (by omega)
    · simp only [h, if_false]; exact layout_used_pos xs (s + 1) x hrest hx1

/-- **C10 (slot counter).** For every sequence of sizes between 1 and 256 bits the number of slots
the code attributes equals the number Solidity's layout rule assigns (consecutive items share a
slot while they fit in 256 bits). No bound on the length. -/
theorem slots_eq_layout (xs : List Nat) (h : ∀ x ∈ xs, 1 ≤ x ∧ x ≤ 256) : slotsUsed xs = slotsOfLayout xs := by
  cases xs with
  | nil => simp [slotsUsed, slotsOfLayout]
  | cons x xs =>
    have hx := h x (by simp)
    have hrest : ∀ y ∈ xs, 1 ≤ y := fun y hy => (h y (by simp [hy])).1
    have h0 : slotsStep (0, 0) x = (x, 0) := by
      unfold slotsStep
      have : ¬ (0 + x > 256) := by omega
      simp only [this, if_false]; simp
    have hfold : (x :: xs).foldl slotsStep (0, 0) =
        ((xs.foldl layoutStep (0, x)).2, (xs.foldl layoutStep (0, x)).1) := by
      simp only [List.foldl, h0]; exact slots_fold_eq_layout_fold xs x 0
    have hpos := layout_used_pos xs 0 x hrest hx.1
    have hgt : (xs.foldl layoutStep (0, x)).2 > 0 := by omega
    simp only [slotsUsed, slotsOfLayout, hfold, hgt, if_true]

/-- the intermediate sums of the Rust loop stay below 2¹⁶ on that domain (no `u16` overflow) -/
theorem slots_no_overflow : ∀ (xs : List Nat) (u s : Nat), (∀ x ∈ xs, x ≤ 256) → u ≤ 256 →
    (xs.foldl slotsStep (u, s)).1 ≤ 256
  | [], _, _, _, hu => hu
  | x :: xs, u, s, hx, hu => by
    simp only [List.foldl]
    have hx1 : x ≤ 256 := hx x (by simp)
    have hrest : ∀ y ∈ xs, y ≤ 256 := fun y hy => hx y (by simp [hy])
    unfold slotsStep
    by_cases h : u + x > 256
    · simp only [h, if_true]; exact slots_no_overflow xs x (s + 1) hrest hx1
    · simp only [h, if_false]; exact slots_no_overflow xs (u + x) s hrest (by omega)

/-! ## the sort the detectors use -/

theorem insertSorted_perm (x : Nat) : ∀ ys : List Nat, (insertSorted x ys).Perm (x :: ys)
  | [] => by simp [insertSorted]
  | y :: ys => by
    unfold insertSorted
    by_cases h : x ≤ y
    · simp [h]
    · simp only [h, if_false]
      exact ((insertSorted_perm x ys).cons y).trans (List.Perm.swap x y ys)

theorem sortNat_perm : ∀ xs : List Nat, (sortNat xs).Perm xs
  | [] => by simp [sortNat]
  | x :: xs => by
    have ih := sortNat_perm xs
    unfold sortNat at ih ⊢
    simp only [List.foldr]
    exact (insertSorted_perm x _).trans (ih.cons x)

theorem mem_insertSorted (x y : Nat) (ys : List Nat) : y ∈ insertSorted x ys ↔ y = x ∨ y ∈ ys := by
  rw [(insertSorted_perm x ys).mem_iff]; simp

theorem insertSorted_sorted (x : Nat) : ∀ ys : List Nat, ys.Pairwise (· ≤ ·) → (insertSorted x ys).Pairwise (· ≤ ·)
  | [], _ => by simp [insertSorted]
  | y :: ys, h => by
    have hy := List.pairwise_cons.1 h
    unfold insertSorted
    by_cases hxy : x ≤ y
    · simp only [hxy, if_true]
      refine List.pairwise_cons.2 ⟨?_, h⟩
      intro a ha
      rcases List.mem_cons.1 ha with rfl | ha
      · exact hxy
      · exact Nat.le_trans hxy (hy.1 a ha)
    · simp only [hxy, if_false]
      refine List.pairwise_cons.2 ⟨?_, insertSorted_sorted x ys hy.2⟩
      intro a ha
      rcases (mem_insertSorted x a ys).1 ha with rfl | ha
      · omega
      · exact hy.1 a ha

/-- `sortNat` is the ascending sort (`Vec::sort` on `u16`) -/
theorem sortNat_sorted : ∀ xs : List Nat, (sortNat xs).Pairwise (· ≤ ·)
  | [] => by simp [sortNat]
  | x :: xs => by
    have ih := sortNat_sorted xs
    unfold sortNat at ih ⊢
    simp only [List.foldr]
    exact insertSorted_sorted x _ ih

/-! ## the report -/

/-- **C10 (only if).** A contract or struct is reported only if some reordering of its members
occupies strictly fewer slots than the declared order. -/
theorem report_sound (xs : List Nat) (h : canPack xs = true) :
    ∃ ys : List Nat, ys.Perm xs ∧ slotsUsed ys < slotsUsed xs := by
  refine ⟨sortNat xs, sortNat_perm xs, ?_⟩
  simpa [canPack] using h

/-- **C10 (never when optimal).** -/
theorem report_not_if_optimal (xs : List Nat)
    (hopt : ∀ ys : List Nat, ys.Perm xs → slotsUsed xs ≤ slotsUsed ys) : canPack xs = false := by
  cases h : canPack xs with
  | false => rfl
  | true =>
    obtain ⟨ys, hp, hlt⟩ := report_sound xs h
    have := hopt ys hp
    omega

/-- **C10 (always when sorting saves a slot).** If the ascending arrangement of the members saves a
slot the report is made — in particular when both sort directions save one. `asc` is any ascending
arrangement: it is unique. -/
theorem report_if_sorting_saves (xs asc : List Nat) (hp : asc.Perm xs) (hs : asc.Pairwise (· ≤ ·))
    (hsave : slotsUsed asc < slotsUsed xs) : canPack xs = true := by
  have huniq : asc = sortNat xs := by
    apply List.Perm.eq_of_pairwise (le := (· ≤ ·))
    · intro a b _ _ h1 h2; exact Nat.le_antisymm h1 h2
    · exact hs
    · exact sortNat_sorted xs
    · exact hp.trans (sortNat_perm xs).symm
  subst huniq
  simpa [canPack] using hsave

theorem report_if_both_sorts_save (xs asc desc : List Nat) (hpa : asc.Perm xs) (hsa : asc.Pairwise (· ≤ ·))
    (_hpd : desc.Perm xs) (_hsd : desc.Pairwise (· ≥ ·))
    (ha : slotsUsed asc < slotsUsed xs) (_hd : slotsUsed desc < slotsUsed xs) : canPack xs = true :=
  report_if_sorting_saves xs asc hpa hsa ha

/-! ## type sizes (the table is regenerated from `get_type_size`) -/

theorem typeSize_bool (loc : T) : typeSize (.node .Expression_Type [loc, .node .Type_Bool []]) = 8 := rfl
theorem typeSize_address (loc : T) : typeSize (.node .Expression_Type [loc, .node .Type_Address []]) = 160 := rfl
theorem typeSize_address_payable (loc : T) : typeSize (.node .Expression_Type [loc, .node .Type_AddressPayable []]) = 160 := rfl
theorem typeSize_uint (loc : T) (n : Nat) : typeSize (.node .Expression_Type [loc, .node .Type_Uint [.nat n]]) = n := rfl
theorem typeSize_int (loc : T) (n : Nat) : typeSize (.node .Expression_Type [loc, .node .Type_Int [.nat n]]) = n := rfl
theorem typeSize_bytes (loc : T) (n : Nat) : typeSize (.node .Expression_Type [loc, .node .Type_Bytes [.nat n]]) = 8 * n := by
  simp [typeSize, typeSizeOfTag]; omega
theorem typeSize_other_type (tag : Tag)
    (h : tag ∉ [Tag.Type_Bool, .Type_Address, .Type_AddressPayable, .Type_Uint, .Type_Int, .Type_Bytes]) :
    typeSizeOfTag tag 0 = 256 ∧ (∀ n, typeSizeOfTag tag n = 256) := by
  cases tag <;> simp_all [typeSizeOfTag]
theorem typeSize_residue_empty : Gen.typeSizeResidue = [] := by decide
theorem typeSize_non_type : Gen.typeSizeNonType = 256 := by decide

/-- on the types the parser can produce the model's table is the documented one -/
theorem typeSize_eq_spec_elementary (loc : T) (tag : Tag) (n : Nat)
    (h : tag ∈ [Tag.Type_Uint, .Type_Int, .Type_Bytes]) :
    typeSize (.node .Expression_Type [loc, .node tag [.nat n]]) = specTypeSize (.node .Expression_Type [loc, .node tag [.nat n]]) := by
  simp at h
  rcases h with rfl | rfl | rfl <;> simp [typeSize, specTypeSize, typeSizeOfTag] <;> omega

/-- non-vacuity: `uint128, uint256, uint128` can be packed; `uint128, uint128, uint256` cannot -/
example : canPack [128, 256, 128] = true ∧ canPack [128, 128, 256] = false := by decide

end Solstat
