import Solstat.Props.Lift
import Solstat.Props.TreeLemmas
/-!
# The walker over a source unit is the concatenation over its top-level items
(used by C09 — placement of unrelated pragmas — and by C19 — composition)
-/
namespace Solstat
open Solstat.Gen T

/-- a source unit with the given top-level parts -/
def mkSourceUnit (parts : List T) : T := .node .S_SourceUnit [.node .Vec parts]

theorem subtreesNoAsmL_eq_flatMap (ks : List T) : subtreesNoAsmL ks = ks.flatMap subtreesNoAsm := by
  induction ks with
  | nil => simp [subtreesNoAsmL]
  | cons k ks ih => simp [subtreesNoAsmL, ih]

theorem allNodes_sourceUnit (parts : List T) :
    allNodes (mkSourceUnit parts) = mkSourceUnit parts :: parts.flatMap allNodes := by
  unfold allNodes mkSourceUnit
  simp only [subtreesNoAsm, subtreesNoAsmL, subtreesNoAsmL_eq_flatMap]
  have h1 : (Tag.S_SourceUnit = Tag.Statement_Assembly) = False := by simp
  have h2 : (Tag.Vec = Tag.Statement_Assembly) = False := by simp
  simp only [h1, h2, if_false, List.append_nil, List.filter_cons, T.isNode, isNodeTag, if_true, Bool.false_eq_true]
  congr 1
  induction parts with
  | nil => simp
  | cons p ps ih => simp [List.filter_append, ih]

/-- **composition of the walker** over the top-level items -/
theorem filter_flatMap_allNodes (ts : List Target) (parts : List T) :
    (parts.flatMap allNodes).filter (fun n => hasKind (fun tag => ts.contains (specKind tag)) n) =
      parts.flatMap (extract ts) := by
  induction parts with
  | nil => simp
  | cons p ps ih =>
    simp only [List.flatMap_cons, List.filter_append]
    rw [ih, C01]

theorem extract_sourceUnit (ts : List Target) (parts : List T) :
    extract ts (mkSourceUnit parts) =
      (if ts.contains .SourceUnit then [mkSourceUnit parts] else []) ++ parts.flatMap (extract ts) := by
  rw [C01, allNodes_sourceUnit, List.filter_cons]
  have : hasKind (fun tag => ts.contains (specKind tag)) (mkSourceUnit parts) = ts.contains .SourceUnit := by
    simp [mkSourceUnit, hasKind, specKind]
  rw [this, filter_flatMap_allNodes]
  cases h : ts.contains .SourceUnit <;> simp

end Solstat
