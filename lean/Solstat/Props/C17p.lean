import Solstat.Utils
/-!
# C17 inside a `pragma solidity` value

solang lexes the value of a pragma as one token; in Solidity's own grammar the operators and versions of the
constraint list are separate tokens, and the white space between them is layout.  The version the detectors use
is the last match of `\d+\.\d+\.+\d+` in the value.  Here: that match depends only on the maximal runs of
digits and dots of the value, so any change of the characters BETWEEN those runs that keeps the runs apart
(re-spacing around `^ ~ >= <= > < = ||`, tabs or line breaks instead of blanks) leaves the version, and with it
every version-gated verdict, unchanged (`versionOfValue_respace`).
-/
namespace Solstat

/-- a character the version regex can consume -/
def isVC (c : Char) : Bool := isDigitC c || c == '.'

/-- the string is empty or starts with a character the regex cannot consume -/
def HeadNotVC : List Char → Prop
  | [] => True
  | c :: _ => isVC c = false

theorem spanDigits_append_run (k r : List Char) (hr : HeadNotVC r) :
    spanDigits (k ++ r) = ((spanDigits k).1, (spanDigits k).2 ++ r) := by
  induction k with
  | nil =>
    cases r with
    | nil => rfl
    | cons c cs =>
      have : isDigitC c = false := by
        have h : isVC c = false := hr
        simp only [isVC, Bool.or_eq_false_iff] at h; exact h.1
      simp [spanDigits, this]
  | cons c k ih =>
    simp only [List.cons_append, spanDigits]
    by_cases hc : isDigitC c = true
    · simp [hc, ih]
    · simp [hc]

theorem spanDots_append_run (k r : List Char) (hr : HeadNotVC r) :
    spanDots (k ++ r) = ((spanDots k).1, (spanDots k).2 ++ r) := by
  induction k with
  | nil =>
    cases r with
    | nil => rfl
    | cons c cs =>
      have : c ≠ '.' := by
        have h : isVC c = false := hr
        simp only [isVC, Bool.or_eq_false_iff, beq_eq_false_iff_ne, ne_eq] at h; exact h.2
      simp [spanDots, this]
  | cons c k ih =>
    simp only [List.cons_append, spanDots]
    by_cases hc : c = '.'
    · simp [hc, ih]
    · simp [hc]

theorem spanDigits_eq (s : List Char) : (spanDigits s).1 ++ (spanDigits s).2 = s := by
  induction s with
  | nil => rfl
  | cons c cs ih =>
    simp only [spanDigits]
    by_cases hc : isDigitC c = true
    · simp [hc, ih]
    · simp [hc]

theorem spanDots_eq (s : List Char) : (spanDots s).1 ++ (spanDots s).2 = s := by
  induction s with
  | nil => rfl
  | cons c cs ih =>
    simp only [spanDots]
    by_cases hc : c = '.'
    · simp [hc, ih]
    · simp [hc]

theorem headNotVC_ne_dot {c : Char} {cs : List Char} (h : HeadNotVC (c :: cs)) : c ≠ '.' := by
  have h' : isVC c = false := h
  simp only [isVC, Bool.or_eq_false_iff, beq_eq_false_iff_ne, ne_eq] at h'; exact h'.2

/-- a match that starts inside a run of version characters stays inside it -/
theorem matchVersionAt_append (k r : List Char) (hr : HeadNotVC r) :
    matchVersionAt (k ++ r) = (matchVersionAt k).map (fun p => (p.1, p.2 ++ r)) := by
  unfold matchVersionAt
  rw [spanDigits_append_run k r hr]
  rcases hk : spanDigits k with ⟨d1, t1⟩
  cases d1 with
  | nil => simp
  | cons a d1 =>
    cases t1 with
    | nil =>
      cases r with
      | nil => simp
      | cons c cs =>
        have := headNotVC_ne_dot hr
        simp only [List.nil_append]
        split
        · rename_i heq; simp at heq
        · rename_i heq
          simp only [Prod.mk.injEq, List.cons.injEq] at heq
          exact absurd heq.2.1 this
        · simp
    | cons c t =>
      by_cases hc : c = '.'
      · subst hc
        simp only [List.cons_append]
        rw [spanDigits_append_run t r hr]
        rcases ht : spanDigits t with ⟨d2, t2⟩
        cases d2 with
        | nil => simp
        | cons b d2 =>
          simp only
          rw [spanDots_append_run t2 r hr]
          rcases ht2 : spanDots t2 with ⟨dots, t3⟩
          cases dots with
          | nil => simp
          | cons e dots =>
            simp only
            rw [spanDigits_append_run t3 r hr]
            rcases ht3 : spanDigits t3 with ⟨d3, t4⟩
            cases d3 with
            | nil => simp
            | cons f d3 => simp
      · simp only [List.cons_append]
        split
        · rename_i heq; simp at heq
        · rename_i heq
          simp only [Prod.mk.injEq, List.cons.injEq] at heq
          exact absurd heq.2.1 hc
        · split
          · rename_i heq; simp at heq
          · rename_i heq
            simp only [Prod.mk.injEq, List.cons.injEq] at heq
            exact absurd heq.2.1 hc
          · simp

/-- a match is a non-empty prefix -/
theorem matchVersionAt_split {s m rest : List Char} (h : matchVersionAt s = some (m, rest)) :
    s = m ++ rest ∧ m ≠ [] := by
  unfold matchVersionAt at h
  have e1 := spanDigits_eq s
  rcases hk : spanDigits s with ⟨d1, t1⟩
  rw [hk] at h e1
  cases d1 with
  | nil => simp at h
  | cons a d1 =>
    cases t1 with
    | nil => simp at h
    | cons c t =>
      by_cases hc : c = '.'
      · subst hc
        simp only at h
        have e2 := spanDigits_eq t
        rcases ht : spanDigits t with ⟨d2, t2⟩
        rw [ht] at h e2
        cases d2 with
        | nil => simp at h
        | cons b d2 =>
          simp only at h
          have e3 := spanDots_eq t2
          rcases ht2 : spanDots t2 with ⟨dots, t3⟩
          rw [ht2] at h e3
          cases dots with
          | nil => simp at h
          | cons e dots =>
            simp only at h
            have e4 := spanDigits_eq t3
            rcases ht3 : spanDigits t3 with ⟨d3, t4⟩
            rw [ht3] at h e4
            cases d3 with
            | nil => simp at h
            | cons f d3 =>
              simp only [Option.some.injEq, Prod.mk.injEq] at h
              obtain ⟨rfl, rfl⟩ := h
              simp only at e1 e2 e3 e4
              refine ⟨?_, by simp⟩
              rw [← e1, ← e2, ← e3, ← e4]
              simp
      · exfalso
        revert h
        split
        · rename_i heq; simp at heq
        · rename_i heq
          simp only [Prod.mk.injEq, List.cons.injEq] at heq
          exact absurd heq.2.1 hc
        · simp

/-- enough fuel is as good as exactly enough -/
theorem lastVersionMatch_fuel : ∀ (n : Nat) (s : List Char) (fuel : Nat) (acc : Option (List Char)),
    s.length ≤ n → s.length ≤ fuel → lastVersionMatch fuel s acc = lastVersionMatch s.length s acc := by
  intro n
  induction n with
  | zero =>
    intro s fuel acc hs _
    have : s = [] := List.length_eq_zero_iff.1 (Nat.le_zero.1 hs)
    subst this
    cases fuel <;> rfl
  | succ n ih =>
    intro s fuel acc hs hf
    cases s with
    | nil => cases fuel <;> rfl
    | cons c cs =>
      cases fuel with
      | zero => simp at hf
      | succ fuel =>
        simp only [List.length_cons, lastVersionMatch]
        cases hm : matchVersionAt (c :: cs) with
        | none =>
          simp only
          exact ih cs fuel acc (by simpa using hs) (by simpa using hf)
        | some p =>
          obtain ⟨m, rest⟩ := p
          simp only
          obtain ⟨hsplit, hne⟩ := matchVersionAt_split hm
          have hlen : rest.length < (c :: cs).length := by
            have := congrArg List.length hsplit
            simp only [List.length_append] at this
            have : 0 < m.length := List.length_pos_iff.2 hne
            omega
          simp only [List.length_cons] at hlen hs hf
          rw [ih rest fuel (some m) (by omega) (by omega), ih rest cs.length (some m) (by omega) (by omega)]

/-- the scan with exactly enough fuel -/
def scanVersion (s : List Char) (acc : Option (List Char)) : Option (List Char) := lastVersionMatch s.length s acc

theorem scanVersion_nil (acc : Option (List Char)) : scanVersion [] acc = acc := rfl

theorem scanVersion_cons_none {c : Char} {cs : List Char} (acc : Option (List Char)) (h : matchVersionAt (c :: cs) = none) :
    scanVersion (c :: cs) acc = scanVersion cs acc := by
  simp [scanVersion, lastVersionMatch, h]

theorem scanVersion_cons_some {c : Char} {cs m rest : List Char} (acc : Option (List Char))
    (h : matchVersionAt (c :: cs) = some (m, rest)) : scanVersion (c :: cs) acc = scanVersion rest (some m) := by
  obtain ⟨hsplit, hne⟩ := matchVersionAt_split h
  have hlen : rest.length ≤ cs.length := by
    have := congrArg List.length hsplit
    simp only [List.length_append, List.length_cons] at this
    have : 0 < m.length := List.length_pos_iff.2 hne
    omega
  simp only [scanVersion, List.length_cons, lastVersionMatch, h]
  exact lastVersionMatch_fuel rest.length rest cs.length (some m) (Nat.le_refl _) hlen

/-- a character the regex cannot consume is skipped -/
theorem scanVersion_skip {c : Char} (cs : List Char) (acc : Option (List Char)) (hc : isVC c = false) :
    scanVersion (c :: cs) acc = scanVersion cs acc := by
  apply scanVersion_cons_none
  have : isDigitC c = false := by
    simp only [isVC, Bool.or_eq_false_iff] at hc; exact hc.1
  simp [matchVersionAt, spanDigits, this]

/-- scanning a run followed by text that starts with a non-version character: first the run, then the text -/
theorem scanVersion_append : ∀ (n : Nat) (k r : List Char) (acc : Option (List Char)), k.length ≤ n → HeadNotVC r →
    scanVersion (k ++ r) acc = scanVersion r (scanVersion k acc) := by
  intro n
  induction n with
  | zero =>
    intro k r acc hk _
    have : k = [] := List.length_eq_zero_iff.1 (Nat.le_zero.1 hk)
    subst this; rfl
  | succ n ih =>
    intro k r acc hk hr
    cases k with
    | nil => rfl
    | cons c k =>
      have happ := matchVersionAt_append (c :: k) r hr
      cases hm : matchVersionAt (c :: k) with
      | none =>
        rw [hm] at happ
        simp only [Option.map_none] at happ
        rw [List.cons_append] at happ ⊢
        rw [scanVersion_cons_none acc happ, scanVersion_cons_none acc hm]
        exact ih k r acc (by simpa using hk) hr
      | some p =>
        obtain ⟨m, rest⟩ := p
        rw [hm] at happ
        simp only [Option.map_some] at happ
        rw [List.cons_append] at happ ⊢
        rw [scanVersion_cons_some acc happ, scanVersion_cons_some acc hm]
        obtain ⟨hsplit, hne⟩ := matchVersionAt_split hm
        have hlen : rest.length ≤ n := by
          have := congrArg List.length hsplit
          simp only [List.length_append, List.length_cons] at this hk
          have : 0 < m.length := List.length_pos_iff.2 hne
          omega
        exact ih rest r (some m) hlen hr

/-- two pragma values with the same runs of version characters, kept apart by at least one other character -/
inductive Respace : List Char → List Char → Prop
  | nil : Respace [] []
  | run (k r r' : List Char) : HeadNotVC r → HeadNotVC r' → Respace r r' → Respace (k ++ r) (k ++ r')
  | gapL (c : Char) (r r' : List Char) : isVC c = false → Respace r r' → Respace (c :: r) r'
  | gapR (c : Char) (r r' : List Char) : isVC c = false → Respace r r' → Respace r (c :: r')

theorem scanVersion_respace {s s' : List Char} (h : Respace s s') : ∀ acc, scanVersion s acc = scanVersion s' acc := by
  induction h with
  | nil => intro acc; rfl
  | run k r r' hr hr' _ ih =>
    intro acc
    rw [scanVersion_append k.length k r acc (Nat.le_refl _) hr, scanVersion_append k.length k r' acc (Nat.le_refl _) hr', ih]
  | gapL c r r' hc _ ih => intro acc; rw [scanVersion_skip r acc hc, ih]
  | gapR c r r' hc _ ih => intro acc; rw [scanVersion_skip r' acc hc, ih]

/-- **the version read from a pragma value does not depend on the layout between its tokens** -/
theorem versionOfValue_respace {s s' : List Char} (h : Respace s s') : versionOfValue s = versionOfValue s' := by
  have := scanVersion_respace h none
  unfold scanVersion at this
  unfold versionOfValue versionPieces
  rw [this]

/-! non-vacuity: `^0.7.6||^0.8.4` and `^0.7.6 || ^0.8.4` -/
private def dense : List Char := ['^', '0', '.', '7', '.', '6', '|', '|', '^', '0', '.', '8', '.', '4']
private def spaced : List Char := ['^', '0', '.', '7', '.', '6', ' ', '|', '|', ' ', '^', '0', '.', '8', '.', '4']

example : Respace dense spaced := by
  refine .gapL '^' _ _ (by decide) (.gapR '^' _ _ (by decide) ?_)
  refine .run ['0', '.', '7', '.', '6'] ['|', '|', '^', '0', '.', '8', '.', '4'] [' ', '|', '|', ' ', '^', '0', '.', '8', '.', '4']
    (show isVC '|' = false by decide) (show isVC ' ' = false by decide) ?_
  refine .gapR ' ' _ _ (by decide) (.gapL '|' _ _ (by decide) (.gapR '|' _ _ (by decide) (.gapL '|' _ _ (by decide) (.gapR '|' _ _ (by decide) ?_))))
  refine .gapR ' ' _ _ (by decide) (.gapL '^' _ _ (by decide) (.gapR '^' _ _ (by decide) ?_))
  exact .run ['0', '.', '8', '.', '4'] [] [] trivial trivial .nil

example : versionOfValue dense = some (0, 8, 4) ∧ versionOfValue spaced = some (0, 8, 4) := by decide

end Solstat
