import Solstat.MainModel
import Solstat.Props.Pipeline
import Solstat.Props.C18
import Solstat.Props.C14
/-!
# The whole run, in one statement

For every command line and configuration that resolves to options `o`, every directory listing and every
per-file analysis: if the three directory analyses succeed, the run leaves every path other than
`<cwd>/solstat_report.md` untouched and writes there exactly the rendering of the three findings maps; and what
can be read back from each category part of that rendering is, as a multiset, exactly the (pattern, file, line)
triples of the per-file results of the eligible files for the selected patterns.  (C14 says what `o` is; C03/C16
what the maps are; C11–C13 what the rendering is; C18 what is written.)
-/
namespace Solstat

variable {P : Type} [DecidableEq P]

theorem dedupKeys_of_nodup : ∀ (ps : List P), ps.Nodup → dedupKeys ps = ps
  | [], _ => rfl
  | p :: ps, h => by
    have hnd := List.nodup_cons.1 h
    unfold dedupKeys
    rw [dedupKeys_of_nodup ps hnd.2]
    congr 1
    apply List.filter_eq_self.2
    intro q hq
    have : q ≠ p := fun e => hnd.1 (e ▸ hq)
    simpa using this

theorem triples_mapOf (ps : List P) (hnd : ps.Nodup) (m : FMap P) : triples (mapOf ps m) = triples (findingsOf ps m) := by
  unfold mapOf
  rw [dedupKeys_of_nodup ps hnd]
  unfold findingsOf triples
  clear hnd
  induction ps with
  | nil => rfl
  | cons p ps ih =>
    simp only [List.filterMap_cons, List.map_cons, List.flatMap_cons]
    by_cases he : (m p).isEmpty = true
    · have hm : m p = [] := by simpa using he
      simp only [he, if_true, hm, List.flatMap_nil, List.nil_append]
      exact ih
    · simp only [he, Bool.false_eq_true, if_false, List.flatMap_cons]
      rw [ih]

/-- **the whole run** -/
theorem main_run (gV : List UInt8 → Nat → Gen.Vulnerability → List Nat) (gO : List UInt8 → Nat → Gen.Optimization → List Nat)
    (gQ : List UInt8 → Nat → Gen.QualityAssurance → List Nat) (tree : String → Option (List Entry))
    (w : World) (cwd : String) (args : CliArgs) (ce : Bool) (o : Opts) (es : List Entry)
    (mv : FMap Gen.Vulnerability) (mo : FMap Gen.Optimization) (mq : FMap Gen.QualityAssurance)
    (hr : resolve args ce = .ok o) (ht : tree o.path = some es)
    (hv : analyzeDir gV o.vulnerabilities es = .ok mv) (ho : analyzeDir gO o.optimizations es = .ok mo)
    (hq : analyzeDir gQ o.qa es = .ok mq) :
    let after := (mainModel gV gO gQ tree w cwd args ce).1
    (∀ p, p ≠ reportPath cwd → after p = w p) ∧
    after (reportPath cwd) = some (reportBytes (fullReport vulnCategory optCategory qaCategory
      (mapOf o.vulnerabilities mv) (mapOf o.optimizations mo) (mapOf o.qa mq))) := by
  refine ⟨fun p hp => run_frame _ w cwd args ce p hp, ?_⟩
  unfold mainModel
  apply run_writes_render _ w cwd args ce o _ hr
  simp [analyseAll, ht, hv, ho, hq]

/-- what the optimisation part of that report says, read back: exactly the per-file results -/
theorem main_run_optimizations (gO : List UInt8 → Nat → Gen.Optimization → List Nat) (ps : List Gen.Optimization) (hnd : ps.Nodup)
    (es : List Entry) (mo : FMap Gen.Optimization) (ho : analyzeDir gO ps es = .ok mo) :
    ((rbRun optCategory ⟨none, false, []⟩ (optimizationReport optCategory (mapOf ps mo))).out).Perm (expectedTriples gO ps es) := by
  have h1 := C11_optimization (mapOf ps mo)
  rw [triples_mapOf ps hnd mo, triples_findingsOf gO ps hnd es mo ho] at h1
  exact h1

theorem main_run_vulnerabilities (gV : List UInt8 → Nat → Gen.Vulnerability → List Nat) (ps : List Gen.Vulnerability) (hnd : ps.Nodup)
    (es : List Entry) (mv : FMap Gen.Vulnerability) (hv : analyzeDir gV ps es = .ok mv) :
    ((rbRun vulnCategory ⟨none, false, []⟩ (vulnerabilityReport vulnCategory (mapOf ps mv))).out).Perm (expectedTriples gV ps es) := by
  have h1 := C11_vulnerability (mapOf ps mv)
  rw [triples_mapOf ps hnd mv, triples_findingsOf gV ps hnd es mv hv] at h1
  exact h1

theorem main_run_qa (gQ : List UInt8 → Nat → Gen.QualityAssurance → List Nat) (ps : List Gen.QualityAssurance) (hnd : ps.Nodup)
    (es : List Entry) (mq : FMap Gen.QualityAssurance) (hq : analyzeDir gQ ps es = .ok mq) :
    ((rbRun qaCategory ⟨none, false, []⟩ (qaReport qaCategory (mapOf ps mq))).out).Perm (expectedTriples gQ ps es) := by
  have h1 := C11_qa (mapOf ps mq)
  rw [triples_mapOf ps hnd mq, triples_findingsOf gQ ps hnd es mq hq] at h1
  exact h1

/-- a run whose options do not resolve, or whose analysis fails, writes nothing -/
theorem main_failure_writes_nothing (gV : List UInt8 → Nat → Gen.Vulnerability → List Nat) (gO : List UInt8 → Nat → Gen.Optimization → List Nat)
    (gQ : List UInt8 → Nat → Gen.QualityAssurance → List Nat) (tree : String → Option (List Entry))
    (w : World) (cwd : String) (args : CliArgs) (ce : Bool)
    (h : (mainModel gV gO gQ tree w cwd args ce).2 = false) : (mainModel gV gO gQ tree w cwd args ce).1 = w :=
  run_failure_writes_nothing _ w cwd args ce h

end Solstat
