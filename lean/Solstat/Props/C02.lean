import Solstat.Analyze
import Solstat.Spec.Basic
/-!
# C02 — every reported line is the line on which the flagged construct begins
-/
namespace Solstat

theorem lineLoop_count (off : Nat) : ∀ (bs : List UInt8) (base i : Nat),
    lineLoop off (lfPositionsFrom base bs) i = i + countLF (bs.take (off + 1 - base))
  | [], _, _ => by simp [lfPositionsFrom, lineLoop, countLF]
  | b :: bs, base, i => by
    by_cases hb : b = 10
    · by_cases hgt : base > off
      · have h0 : off + 1 - base = 0 := by omega
        simp [lfPositionsFrom, hb, lineLoop, hgt, h0, countLF]
      · have h1 : off + 1 - base = (off - base) + 1 := by omega
        have h2 : off + 1 - (base + 1) = off - base := by omega
        have ih := lineLoop_count off bs (base + 1) (i + 1)
        simp [lfPositionsFrom, hb, lineLoop, hgt, h1, countLF, ih, h2]
        omega
    · have ih := lineLoop_count off bs (base + 1) i
      by_cases hgt : base > off
      · have h0 : off + 1 - base = 0 := by omega
        have h2 : off + 1 - (base + 1) = 0 := by omega
        simp [lfPositionsFrom, hb, ih, h0, h2, countLF]
      · have h1 : off + 1 - base = (off - base) + 1 := by omega
        have h2 : off + 1 - (base + 1) = off - base := by omega
        simp [lfPositionsFrom, hb, ih, h1, h2, countLF]

theorem countLF_append (xs ys : List UInt8) : countLF (xs ++ ys) = countLF xs + countLF ys := by
  induction xs with
  | nil => simp [countLF]
  | cons x xs ih => simp [countLF, ih]; omega

/-- `get_line_number` counts the line feeds at positions `≤ off` -/
theorem lineOf_eq (bs : List UInt8) (off : Nat) : lineOf bs off = 1 + countLF (bs.take (off + 1)) := by
  unfold lineOf lfPositions
  rw [lineLoop_count]
  simp

/-- **C02 (offset level).** For every file content and every byte offset inside it that is not
itself a line feed (a token never starts on one), the line reported is one plus the number of
line feeds that precede the offset.  Covers a final line without `\n`, CRLF, blank lines and
multi-byte characters: offsets are byte offsets on both sides. -/
theorem lineOf_spec (bs : List UInt8) (off : Nat) (h : off < bs.length) (hne : bs[off] ≠ 10) :
    lineOf bs off = specLine bs off := by
  rw [lineOf_eq, specLine]
  have : bs.take (off + 1) = bs.take off ++ [bs[off]] := by
    rw [List.take_succ]; simp [List.getElem?_eq_getElem h]
  rw [this, countLF_append]
  simp [countLF, hne]

theorem mem_insertNat (x y : Nat) : ∀ xs : List Nat, y ∈ insertNat x xs ↔ y = x ∨ y ∈ xs
  | [] => by simp [insertNat]
  | z :: zs => by
    unfold insertNat
    by_cases h1 : x = z
    · subst h1; simp
    · by_cases h2 : x < z
      · simp [h1, h2]
      · simp [h1, h2, mem_insertNat x y zs]; constructor
        · rintro (h | h | h) <;> simp [h]
        · rintro (h | h | h) <;> simp [h]

theorem mem_lineSet (y : Nat) : ∀ xs : List Nat, y ∈ lineSet xs ↔ y ∈ xs
  | [] => by simp [lineSet]
  | x :: xs => by
    have ih := mem_lineSet y xs
    unfold lineSet at ih ⊢
    simp [List.foldr, mem_insertNat, ih]

/-- strictly ascending, hence duplicate free: the `BTreeSet` the code returns -/
abbrev Ascending (xs : List Nat) : Prop := xs.Pairwise (· < ·)

theorem ascending_insertNat (x : Nat) : ∀ xs : List Nat, Ascending xs → Ascending (insertNat x xs)
  | [], _ => by simp [insertNat]
  | z :: zs, h => by
    have hz := List.pairwise_cons.1 h
    unfold insertNat
    by_cases h1 : x = z
    · subst h1; simpa using hz
    · by_cases h2 : x < z
      · simp only [h1, h2, if_true, if_false]
        refine List.pairwise_cons.2 ⟨?_, h⟩
        intro a ha
        rcases List.mem_cons.1 ha with rfl | ha
        · exact h2
        · exact Nat.lt_trans h2 (hz.1 a ha)
      · simp only [h1, h2, if_false]
        refine List.pairwise_cons.2 ⟨?_, ascending_insertNat x zs hz.2⟩
        intro a ha
        rcases (mem_insertNat x a zs).1 ha with rfl | ha
        · omega
        · exact hz.1 a ha

theorem ascending_lineSet : ∀ xs : List Nat, Ascending (lineSet xs)
  | [] => by simp [lineSet]
  | x :: xs => by
    have ih := ascending_lineSet xs
    unfold lineSet at ih ⊢
    simpa [List.foldr] using ascending_insertNat x _ ih

/-- **C02 (file level).** The lines a per-file entry point returns are exactly the lines on which
the constructs flagged by its detector begin, for any detector `d`, any bytes and any tree whose
flagged locations start inside the file on a byte that is not a line feed. -/
theorem analyzeLines_spec (d : T → List Loc) (bs : List UInt8) (tree : T)
    (hin : ∀ loc ∈ d tree, ∃ h : loc.start < bs.length, bs[loc.start] ≠ 10) (l : Nat) :
    l ∈ analyzeLines d bs tree ↔ ∃ loc ∈ d tree, l = specLine bs loc.start := by
  unfold analyzeLines
  rw [mem_lineSet, List.mem_map]
  constructor
  · rintro ⟨loc, hm, rfl⟩
    obtain ⟨h, hne⟩ := hin loc hm
    exact ⟨loc, hm, lineOf_spec bs _ h hne⟩
  · rintro ⟨loc, hm, rfl⟩
    obtain ⟨h, hne⟩ := hin loc hm
    exact ⟨loc, hm, (lineOf_spec bs _ h hne)⟩

theorem analyzeLines_ascending (d : T → List Loc) (bs : List UInt8) (tree : T) :
    Ascending (analyzeLines d bs tree) := ascending_lineSet _

/-- non-vacuity: a construct on an unterminated last line, after a CRLF and a two-byte character -/
example : lineOf [0x61, 0x0D, 0x0A, 0xC3, 0xA9, 0x62] 5 = 2 ∧ specLine [0x61, 0x0D, 0x0A, 0xC3, 0xA9, 0x62] 5 = 2 := by
  decide

end Solstat
