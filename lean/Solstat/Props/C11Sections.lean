import Solstat.Spec.Report
/-!
# C11 — every pattern is headed by its own section (regenerated table = reviewed table)
-/
namespace Solstat

/-- the section each pattern's findings are listed under is the reviewed one: `get_optimization_report_section`,
`get_vulnerability_report_section` and `get_qa_report_section` attach to every pattern the text written for it -/
theorem signatures_as_reviewed : generatedSignatures = reviewedSignatures := by decide +kernel

/-- every configuration name selects the pattern it names (regenerated `str_to_*` tables = reviewed table) -/
theorem names_as_reviewed : generatedNames = reviewedNames := by decide +kernel

end Solstat
