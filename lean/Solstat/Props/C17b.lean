import Solstat.Props.C17
/-!
# C17, continued: the declaration-level detectors commute with relocation

`payable_function`, `private_constant`, `private_vars_leading_underscore`, `private_func_leading_underscore`
and `constructor_order` read attribute lists, names and visibilities of declarations and report the
declaration's (or the name's) location.  None of them looks inside a location, so they commute with
`mapLoc ρ` for every permutation `ρ` of the locations.
-/
namespace Solstat
open Solstat.Gen T

/-! ## generic: readers that return sub-trees -/

/-- list-valued readers of sub-trees: non-empty results carried along ⇒ equivariant -/
theorem listEquiv_of_fwd (g : T → List T)
    (hf : ∀ (ρ : LocPerm) n, g n ≠ [] → g (mapLoc ρ.to n) = (g n).map (mapLoc ρ.to)) (ρ : LocPerm) (n : T) :
    g (mapLoc ρ.to n) = (g n).map (mapLoc ρ.to) := by
  by_cases h : g n = []
  · rw [h, List.map_nil]
    apply Classical.byContradiction
    intro hne
    have := hf ρ.symm _ hne
    simp only [LocPerm.symm, mapLoc_inv_to] at this
    rw [h] at this
    have : g (mapLoc ρ.to n) = [] := by
      cases hg : g (mapLoc ρ.to n) with
      | nil => rfl
      | cons a as => rw [hg] at this; simp at this
    exact hne this
  · exact hf ρ n h

/-- option-valued readers of one sub-tree -/
theorem optEquiv_of_fwd (g : T → Option T)
    (hf : ∀ (ρ : LocPerm) n a, g n = some a → g (mapLoc ρ.to n) = some (mapLoc ρ.to a)) (ρ : LocPerm) (n : T) :
    g (mapLoc ρ.to n) = (g n).map (mapLoc ρ.to) := by
  cases h : g n with
  | some a => simpa using hf ρ n a h
  | none =>
    cases h2 : g (mapLoc ρ.to n) with
    | none => rfl
    | some a' =>
      have := hf ρ.symm _ a' h2
      simp only [LocPerm.symm, mapLoc_inv_to] at this
      rw [h] at this; cases this

theorem ofT_equiv (ρ : LocPerm) (t : T) : Loc.ofT (mapLoc ρ.to t) = (Loc.ofT t).map ρ.to :=
  equiv_of_fwd Loc.ofT (fun ρ t l h => ofT_fwd ρ t l h) ρ t

theorem optItem_mapLoc (ρ : LocPerm) (t : T) : optItem (mapLoc ρ.to t) = (optItem t).map (mapLoc ρ.to) := by
  apply optEquiv_of_fwd optItem
  intro ρ n a h
  unfold optItem at h
  split at h
  · simp only [Option.some.injEq] at h; subst h
    simp [optItem]
  · simp at h

/-- a relocated node keeps its tag: a `.node tag _` stays a `.node tag _` -/
theorem mapLoc_node_shape (ρ : LocPerm) (tag : Tag) (ks : List T) : ∃ ks', mapLoc ρ.to (.node tag ks) = .node tag ks' := by
  have h := mapLoc_tag ρ.to (.node tag ks)
  cases hm : mapLoc ρ.to (.node tag ks) with
  | node t' ks' => rw [hm] at h; simp [T.tag?] at h; subst h; exact ⟨ks', rfl⟩
  | str _ => rw [hm] at h; simp [T.tag?] at h
  | nat _ => rw [hm] at h; simp [T.tag?] at h
  | bool _ => rw [hm] at h; simp [T.tag?] at h

/-! ## the fields of function and variable definitions -/

theorem getElem?_map_mapLoc (ρ : LocPerm) (fields : List T) (i : Nat) :
    (fields.map (mapLoc ρ.to))[i]? = (fields[i]?).map (mapLoc ρ.to) := by simp

theorem fnTy_map (ρ : LocPerm) (fields : List T) : fnTy (fields.map (mapLoc ρ.to)) = fnTy fields := by
  unfold fnTy
  rw [getElem?_map_mapLoc]
  cases fields[1]? with
  | none => rfl
  | some t => simp [tag_inv]

theorem fnAttrs_map (ρ : LocPerm) (fields : List T) : fnAttrs (fields.map (mapLoc ρ.to)) = (fnAttrs fields).map (mapLoc ρ.to) := by
  unfold fnAttrs
  rw [getElem?_map_mapLoc]
  cases fields[5]? with
  | none => rfl
  | some t => simp [vecItems_mapLoc]

theorem fnBody_map (ρ : LocPerm) (fields : List T) : fnBody (fields.map (mapLoc ρ.to)) = (fnBody fields).map (mapLoc ρ.to) := by
  unfold fnBody
  rw [getElem?_map_mapLoc]
  cases fields[8]? with
  | none => rfl
  | some t => simp [optItem_mapLoc]

theorem fnName_map (ρ : LocPerm) (fields : List T) : fnName (fields.map (mapLoc ρ.to)) = (fnName fields).map (mapLoc ρ.to) := by
  unfold fnName
  rw [getElem?_map_mapLoc]
  cases fields[2]? with
  | none => rfl
  | some t => simp [optItem_mapLoc]

theorem fnLoc_map (ρ : LocPerm) (fields : List T) : fnLoc (fields.map (mapLoc ρ.to)) = (fnLoc fields).map ρ.to := by
  unfold fnLoc
  rw [getElem?_map_mapLoc]
  cases fields[0]? with
  | none => rfl
  | some t => simp [ofT_equiv]

theorem isConstructor_map (ρ : LocPerm) (fields : List T) : isConstructor (fields.map (mapLoc ρ.to)) = isConstructor fields := by
  unfold isConstructor; rw [fnTy_map]

/-- the visibility read off one attribute -/
def visOfAttr : T → Option Tag
  | .node .FunctionAttribute_Visibility [.node v _] => some v
  | _ => none

theorem fnVisibilities_eq (fields : List T) : fnVisibilities fields = (fnAttrs fields).filterMap visOfAttr := by
  unfold fnVisibilities
  congr 1

theorem visOfAttr_fwd (ρ : LocPerm) (a : T) (v : Tag) (h : visOfAttr a = some v) : visOfAttr (mapLoc ρ.to a) = some v := by
  unfold visOfAttr at h
  split at h
  · rename_i v' ks
    simp only [Option.some.injEq] at h; subst h
    obtain ⟨ks', hk⟩ := mapLoc_node_shape ρ v' ks
    simp [visOfAttr, hk]
  · simp at h

theorem visOfAttr_inv (ρ : LocPerm) (a : T) : visOfAttr (mapLoc ρ.to a) = visOfAttr a := optInv_of_fwd visOfAttr visOfAttr_fwd ρ a

theorem fnVisibilities_map (ρ : LocPerm) (fields : List T) : fnVisibilities (fields.map (mapLoc ρ.to)) = fnVisibilities fields := by
  rw [fnVisibilities_eq, fnVisibilities_eq, fnAttrs_map, List.filterMap_map]
  congr 1
  funext a
  exact visOfAttr_inv ρ a

theorem isPublicOrExternal_map (ρ : LocPerm) (fields : List T) : isPublicOrExternal (fields.map (mapLoc ρ.to)) = isPublicOrExternal fields := by
  unfold isPublicOrExternal; rw [fnVisibilities_map]

def isPayableAttr : T → Bool
  | .node .FunctionAttribute_Mutability [.node .Mutability_Payable _] => true
  | _ => false

theorem isPayable_eq (fields : List T) : isPayable fields = (fnAttrs fields).any isPayableAttr := by
  unfold isPayable
  congr 1

theorem isPayableAttr_fwd (ρ : LocPerm) (a : T) (h : isPayableAttr a = true) : isPayableAttr (mapLoc ρ.to a) = true := by
  unfold isPayableAttr at h
  split at h
  · rename_i ks
    obtain ⟨ks', hk⟩ := mapLoc_node_shape ρ .Mutability_Payable ks
    simp [isPayableAttr, hk]
  · simp at h

theorem isPayableAttr_inv (ρ : LocPerm) (a : T) : isPayableAttr (mapLoc ρ.to a) = isPayableAttr a := inv_of_fwd isPayableAttr isPayableAttr_fwd ρ a

theorem isPayable_map (ρ : LocPerm) (fields : List T) : isPayable (fields.map (mapLoc ρ.to)) = isPayable fields := by
  rw [isPayable_eq, isPayable_eq, fnAttrs_map, List.any_map]
  congr 1
  funext a
  exact isPayableAttr_inv ρ a

/-! ## contracts, their parts and their functions -/

theorem contractParts_mapLoc (ρ : LocPerm) (c : T) : contractParts (mapLoc ρ.to c) = (contractParts c).map (mapLoc ρ.to) := by
  apply listEquiv_of_fwd contractParts
  intro ρ n h
  unfold contractParts at h
  split at h
  · simp [contractParts, vecItems_mapLoc]
  · exact absurd rfl h

theorem contractLoc_mapLoc (ρ : LocPerm) (c : T) : contractLoc (mapLoc ρ.to c) = (contractLoc c).map ρ.to := by
  apply equiv_of_fwd contractLoc
  intro ρ n l h
  unfold contractLoc at h
  split at h
  · rename_i loc rest
    have := ofT_fwd ρ loc l h
    simp [contractLoc, this]
  · simp at h

/-- the fields of a contract-level function definition -/
def contractFnFields : T → Option (List T)
  | .node .ContractPart_FunctionDefinition [.node .S_FunctionDefinition fields] => some fields
  | _ => none

theorem contractFunctions_eq (c : T) :
    contractFunctions c = (extract [.FunctionDefinition] c).filterMap fun n => (contractFnFields n).map (n, ·) := by
  unfold contractFunctions
  congr 1
  funext n
  unfold contractFnFields
  split <;> simp_all

theorem contractFnFields_mapLoc (ρ : LocPerm) (n : T) :
    contractFnFields (mapLoc ρ.to n) = (contractFnFields n).map (List.map (mapLoc ρ.to)) := by
  cases h : contractFnFields n with
  | some fields =>
    unfold contractFnFields at h
    split at h
    · simp only [Option.some.injEq] at h; subst h
      simp [contractFnFields]
    · simp at h
  | none =>
    cases h2 : contractFnFields (mapLoc ρ.to n) with
    | none => rfl
    | some fs =>
      exfalso
      unfold contractFnFields at h2
      split at h2
      · rename_i fields heq
        -- the relocated node has the shape, hence so has the node (relocate back)
        have hb : mapLoc ρ.inv (mapLoc ρ.to n) = n := mapLoc_inv_to ρ n
        rw [heq] at hb
        simp at hb
        rw [← hb] at h
        simp [contractFnFields] at h
      · simp at h2

theorem contractFunctions_mapLoc (ρ : LocPerm) (c : T) :
    contractFunctions (mapLoc ρ.to c) =
      (contractFunctions c).map fun pf => (mapLoc ρ.to pf.1, pf.2.map (mapLoc ρ.to)) := by
  rw [contractFunctions_eq, contractFunctions_eq, extract_mapLoc, List.filterMap_map, List.map_filterMap]
  congr 1
  funext n
  simp only [Function.comp]
  rw [contractFnFields_mapLoc]
  cases contractFnFields n <;> simp

theorem contracts_mapLoc (ρ : LocPerm) (su : T) : contracts (mapLoc ρ.to su) = (contracts su).map (mapLoc ρ.to) :=
  extract_mapLoc ρ.to _ su

/-- detectors of the form "for every contract, …" -/
theorem equivariant_perContract (F : T → List Loc) (hF : ∀ (ρ : LocPerm) c, F (mapLoc ρ.to c) = (F c).map ρ.to) :
    Equivariant (fun su => (contracts su).flatMap F) := by
  intro ρ su
  simp only [contracts_mapLoc, List.flatMap_map, List.map_flatMap]
  congr 1
  funext c
  exact hF ρ c

/-! ## payable_function -/

theorem payableFunction_equivariant : Equivariant payableFunction := by
  unfold payableFunction
  apply equivariant_perContract
  intro ρ c
  rw [contractFunctions_mapLoc, List.filterMap_map, List.map_filterMap]
  congr 1
  funext pf
  simp only [Function.comp, fnBody_map, isPublicOrExternal_map, isPayable_map, fnLoc_map, Option.isSome_map]
  split <;> simp

/-! ## constructor_order -/

theorem constructorOrderScan_map (ρ : LocPerm) : ∀ (fs : List (List T)) (seen : Bool),
    constructorOrderScan (fs.map (List.map (mapLoc ρ.to))) seen = (constructorOrderScan fs seen).map ρ.to
  | [], _ => by simp [constructorOrderScan]
  | fields :: rest, seen => by
    simp only [List.map_cons]
    unfold constructorOrderScan
    simp only [isConstructor_map, fnTy_map, fnLoc_map]
    split
    · rw [constructorOrderScan_map ρ rest seen]
      split <;> simp [Option.toList] <;> cases fnLoc fields <;> simp
    · split
      · exact constructorOrderScan_map ρ rest seen
      · exact constructorOrderScan_map ρ rest true

theorem constructorOrder_equivariant : Equivariant constructorOrder := by
  unfold constructorOrder
  apply equivariant_perContract
  intro ρ c
  rw [contractFunctions_mapLoc, List.map_map]
  have : ((fun x : T × List T => x.2) ∘ fun pf : T × List T => (mapLoc ρ.to pf.1, pf.2.map (mapLoc ρ.to))) =
      (List.map (mapLoc ρ.to)) ∘ (fun x : T × List T => x.2) := by funext pf; rfl
  rw [this, ← List.map_map]
  exact constructorOrderScan_map ρ _ false

/-! ## variable definitions: private_constant, private_vars_leading_underscore -/

theorem varDefFields_mapLoc (ρ : LocPerm) (p : T) : varDefFields (mapLoc ρ.to p) = (varDefFields p).map (List.map (mapLoc ρ.to)) := by
  cases h : varDefFields p with
  | some fields =>
    unfold varDefFields at h
    split at h
    · simp only [Option.some.injEq] at h; subst h
      simp [varDefFields]
    · simp at h
  | none =>
    cases h2 : varDefFields (mapLoc ρ.to p) with
    | none => rfl
    | some fs =>
      exfalso
      unfold varDefFields at h2
      split at h2
      · rename_i fields heq
        have hb : mapLoc ρ.inv (mapLoc ρ.to p) = p := mapLoc_inv_to ρ p
        rw [heq] at hb
        simp at hb
        rw [← hb] at h
        simp [varDefFields] at h
      · simp at h2

theorem varAttrs_map (ρ : LocPerm) (fields : List T) : varAttrs (fields.map (mapLoc ρ.to)) = (varAttrs fields).map (mapLoc ρ.to) := by
  unfold varAttrs
  rw [getElem?_map_mapLoc]
  cases fields[2]? with
  | none => rfl
  | some t => simp [vecItems_mapLoc]

theorem varLoc_map (ρ : LocPerm) (fields : List T) : varLoc (fields.map (mapLoc ρ.to)) = (varLoc fields).map ρ.to := by
  unfold varLoc
  rw [getElem?_map_mapLoc]
  cases fields[0]? with
  | none => rfl
  | some t => simp [ofT_equiv]

theorem varNameOf_map (ρ : LocPerm) (fields : List T) : varNameOf (fields.map (mapLoc ρ.to)) = varNameOf fields := by
  unfold varNameOf
  rw [getElem?_map_mapLoc]
  cases fields[3]? with
  | none => rfl
  | some t => simp [identName_inv]

theorem varIsConstant_map (ρ : LocPerm) (fields : List T) : varIsConstant (fields.map (mapLoc ρ.to)) = varIsConstant fields := by
  unfold varIsConstant
  rw [varAttrs_map, List.any_map]
  congr 1
  funext a
  simp [tag_inv]

def varVisOfAttr : T → Option Tag
  | .node .VariableAttribute_Visibility [.node v _] => some v
  | _ => none

theorem varVisibilities_eq (fields : List T) : varVisibilities fields = (varAttrs fields).filterMap varVisOfAttr := by
  unfold varVisibilities
  congr 1

theorem varVisOfAttr_fwd (ρ : LocPerm) (a : T) (v : Tag) (h : varVisOfAttr a = some v) : varVisOfAttr (mapLoc ρ.to a) = some v := by
  unfold varVisOfAttr at h
  split at h
  · rename_i v' ks
    simp only [Option.some.injEq] at h; subst h
    obtain ⟨ks', hk⟩ := mapLoc_node_shape ρ v' ks
    simp [varVisOfAttr, hk]
  · simp at h

theorem varVisibilities_map (ρ : LocPerm) (fields : List T) : varVisibilities (fields.map (mapLoc ρ.to)) = varVisibilities fields := by
  rw [varVisibilities_eq, varVisibilities_eq, varAttrs_map, List.filterMap_map]
  congr 1
  funext a
  exact optInv_of_fwd varVisOfAttr varVisOfAttr_fwd ρ a

theorem privateConstant_equivariant : Equivariant privateConstant := by
  unfold privateConstant
  apply equivariant_perContract
  intro ρ c
  rw [contractParts_mapLoc, List.filterMap_map, List.map_filterMap]
  congr 1
  funext p
  simp only [Function.comp, varDefFields_mapLoc]
  cases varDefFields p with
  | none => rfl
  | some fields =>
    simp only [Option.map_some, varIsConstant_map, varVisibilities_map, varLoc_map]
    split <;> simp

theorem privateVarsLeadingUnderscore_equivariant : Equivariant privateVarsLeadingUnderscore := by
  unfold privateVarsLeadingUnderscore
  apply equivariant_perContract
  intro ρ c
  rw [contractParts_mapLoc, List.filterMap_map, List.map_filterMap]
  congr 1
  funext p
  simp only [Function.comp, varDefFields_mapLoc]
  cases varDefFields p with
  | none => rfl
  | some fields =>
    simp only [Option.map_some, varIsConstant_map, varVisibilities_map, varLoc_map, varNameOf_map]
    split
    · rfl
    · cases varNameOf fields with
      | none => rfl
      | some name => simp only; split <;> simp

/-! ## private_func_leading_underscore -/

def privateFuncAt (n : T) : Option Loc :=
  match contractFnFields n with
  | some fields =>
    if fnTy fields = some .FunctionTy_Function then
      match fnName fields with
      | some (.node .S_Identifier [loc, .str name]) =>
        if (fnVisibilities fields).any (fun v => underscoreMismatch (!(v = .Visibility_Public || v = .Visibility_External)) name)
        then Loc.ofT loc else none
      | _ => none
    else none
  | none => none

theorem privateFunc_eq (su : T) : privateFuncLeadingUnderscore su = (extract [.FunctionDefinition] su).filterMap privateFuncAt := by
  unfold privateFuncLeadingUnderscore
  congr 1
  funext n
  unfold privateFuncAt contractFnFields
  split <;> first | rfl | simp_all

theorem privateFuncAt_fwd (ρ : LocPerm) (n : T) (l : Loc) (h : privateFuncAt n = some l) :
    privateFuncAt (mapLoc ρ.to n) = some (ρ.to l) := by
  unfold privateFuncAt at h ⊢
  rw [contractFnFields_mapLoc]
  cases hf : contractFnFields n with
  | none => simp [hf] at h
  | some fields =>
    simp only [hf, Option.map_some, fnTy_map, fnName_map, fnVisibilities_map] at h ⊢
    split at h
    · rename_i hty
      simp only [hty, if_true]
      split at h
      · rename_i loc name hname
        simp only [hname, Option.map_some, mapLoc_node' ρ.to .S_Identifier _ (by decide), List.map_cons, List.map_nil, mapLoc_str]
        split at h
        · rename_i hv
          rw [if_pos hv]
          exact ofT_fwd ρ loc l h
        · simp at h
      · simp at h
    · simp at h

theorem privateFuncLeadingUnderscore_equivariant : Equivariant privateFuncLeadingUnderscore := by
  intro ρ su
  rw [privateFunc_eq, privateFunc_eq]
  exact equivariant_filterMap _ _ privateFuncAt_fwd ρ su

/-! ## packing: the sizes are read off type tags -/

theorem typeSize_fwd_eq (ρ : LocPerm) (ty : T) : typeSize (mapLoc ρ.to ty) = typeSize ty := by
  -- sizes depend on the tag of the type node (and, for sized types, on its numeric argument); a location in
  -- that position (never produced by the parser) has the default size whatever it holds
  have key : ∀ (ρ : LocPerm) (ty : T), typeSize ty ≠ typeSizeNonType → typeSize (mapLoc ρ.to ty) = typeSize ty := by
    intro ρ ty h
    unfold typeSize at h ⊢
    split at h
    · rename_i l tag n rest
      by_cases hl : tag = .Loc_File
      · subst hl; exact absurd (by simp [typeSizeOfTag, typeSizeNonType]) h
      · simp [mapLoc_node' ρ.to tag _ hl]
    · rename_i l tag ks hno
      by_cases hl : tag = .Loc_File
      · subst hl; exact absurd (by simp [typeSizeOfTag, typeSizeNonType]) h
      · simp only [mapLoc_node' ρ.to .Expression_Type _ (by decide), List.map_cons, List.map_nil, mapLoc_node' ρ.to tag ks hl]
        cases ks with
        | nil => simp
        | cons k ks' =>
          cases k with
          | nat n => exact absurd rfl (hno n ks')
          | node t' ks'' =>
            obtain ⟨q, hq⟩ := mapLoc_node_shape ρ t' ks''
            simp [hq]
          | str _ => simp
          | bool _ => simp
    · exact absurd rfl h
  by_cases h : typeSize ty = typeSizeNonType
  · rw [h]
    apply Classical.byContradiction
    intro hne
    have := key ρ.symm _ hne
    simp only [LocPerm.symm, mapLoc_inv_to] at this
    rw [h] at this
    exact hne this.symm
  · exact key ρ ty h

theorem varDefSize_mapLoc (ρ : LocPerm) (p : T) : varDefSize (mapLoc ρ.to p) = varDefSize p := by
  unfold varDefSize
  rw [varDefFields_mapLoc]
  cases varDefFields p with
  | none => rfl
  | some fields =>
    match fields with
    | [] => rfl
    | [_] => rfl
    | _ :: ty :: _ => simp [typeSize_fwd_eq]

theorem packStorageVariables_equivariant : Equivariant packStorageVariables := by
  intro ρ su
  unfold packStorageVariables
  rw [contracts_mapLoc, List.filterMap_map, List.map_filterMap]
  congr 1
  funext c
  simp only [Function.comp, contractParts_mapLoc, List.filterMap_map, contractLoc_mapLoc]
  have : (varDefSize ∘ mapLoc ρ.to) = varDefSize := by funext p; exact varDefSize_mapLoc ρ p
  rw [this]
  split <;> simp

theorem structFieldSize_mapLoc (ρ : LocPerm) (f : T) : structFieldSize (mapLoc ρ.to f) = structFieldSize f := by
  apply optInv_of_fwd structFieldSize
  intro ρ n a h
  unfold structFieldSize at h
  split at h
  · rename_i l ty rest
    simp only [Option.some.injEq] at h
    simp [structFieldSize, typeSize_fwd_eq, h]
  · simp at h

theorem structFieldsOf_fwd (ρ : LocPerm) (n : T) (l : Loc) (fs : List T) (h : structFieldsOf n = some (l, fs)) :
    structFieldsOf (mapLoc ρ.to n) = some (ρ.to l, fs.map (mapLoc ρ.to)) := by
  unfold structFieldsOf at h
  split at h
  · rename_i loc x fields
    cases hl : Loc.ofT loc with
    | none => simp [hl] at h
    | some l' =>
      simp only [hl, Option.map_some, Option.some.injEq, Prod.mk.injEq] at h
      obtain ⟨rfl, rfl⟩ := h
      simp [structFieldsOf, ofT_fwd ρ loc l' hl, vecItems_mapLoc]
  · rename_i loc x fields
    cases hl : Loc.ofT loc with
    | none => simp [hl] at h
    | some l' =>
      simp only [hl, Option.map_some, Option.some.injEq, Prod.mk.injEq] at h
      obtain ⟨rfl, rfl⟩ := h
      simp [structFieldsOf, ofT_fwd ρ loc l' hl, vecItems_mapLoc]
  · simp at h

def packStructAt (n : T) : Option Loc :=
  match structFieldsOf n with
  | some (loc, fields) => if canPack (fields.filterMap structFieldSize) then some loc else none
  | none => none

theorem packStruct_eq (su : T) : packStructVariables su = (extract [.StructDefinition] su).filterMap packStructAt := by
  unfold packStructVariables
  congr 1

theorem packStructAt_fwd (ρ : LocPerm) (n : T) (l : Loc) (h : packStructAt n = some l) :
    packStructAt (mapLoc ρ.to n) = some (ρ.to l) := by
  unfold packStructAt at h ⊢
  cases hs : structFieldsOf n with
  | none => simp [hs] at h
  | some lf =>
    obtain ⟨loc, fields⟩ := lf
    rw [structFieldsOf_fwd ρ n loc fields hs]
    simp only [hs] at h
    simp only [List.filterMap_map]
    have : (structFieldSize ∘ mapLoc ρ.to) = structFieldSize := by funext p; exact structFieldSize_mapLoc ρ p
    rw [this]
    split at h
    · rename_i hc
      simp only [Option.some.injEq] at h; subst h
      simp [hc]
    · simp at h

theorem packStructVariables_equivariant : Equivariant packStructVariables := by
  intro ρ su
  rw [packStruct_eq, packStruct_eq]
  exact equivariant_filterMap _ _ packStructAt_fwd ρ su

/-! ## the version of the file and the version-gated detectors -/

theorem solidityPragmaOf_fwd (ρ : LocPerm) (n : T) (v : String) (h : solidityPragmaOf n = some v) :
    solidityPragmaOf (mapLoc ρ.to n) = some v := by
  unfold solidityPragmaOf at h
  split at h
  · rename_i l id l2 u v'
    split at h
    · rename_i hid
      simp only [Option.some.injEq] at h; subst h
      simp [solidityPragmaOf, identName_inv, hid]
    · simp at h
  · simp at h

theorem solidityPragmas_mapLoc (ρ : LocPerm) (su : T) : solidityPragmas (mapLoc ρ.to su) = solidityPragmas su := by
  unfold solidityPragmas
  rw [extract_mapLoc, List.filterMap_map]
  congr 1
  funext n
  exact optInv_of_fwd solidityPragmaOf solidityPragmaOf_fwd ρ n

theorem versionOf_mapLoc (ρ : LocPerm) (su : T) : versionOf (mapLoc ρ.to su) = versionOf su := by
  unfold versionOf; rw [solidityPragmas_mapLoc]

theorem requireStringPieces_fwd (ρ : LocPerm) (n : T) (ps : List T) (h : requireStringPieces n = some ps) :
    requireStringPieces (mapLoc ρ.to n) = some (ps.map (mapLoc ρ.to)) := by
  unfold requireStringPieces at h
  split at h
  · rename_i l callee args
    split at h
    · rename_i hc
      split at h
      · rename_i pieces hlast
        simp only [Option.some.injEq] at h; subst h
        simp only [requireStringPieces, mapLoc_node' ρ.to .Expression_FunctionCall _ (by decide), List.map_cons, List.map_nil,
          varName_inv, hc, if_true, vecItems_mapLoc, List.getLast?_map, hlast, Option.map_some,
          mapLoc_node' ρ.to .Expression_StringLiteral _ (by decide)]
      · simp at h
    · simp at h
  · simp at h

theorem stringErrorAt_fwd (ρ : LocPerm) (n : T) (l : Loc) (h : stringErrorAt n = some l) : stringErrorAt (mapLoc ρ.to n) = some (ρ.to l) := by
  unfold stringErrorAt at h ⊢
  split at h
  · rename_i loc rest ps hp
    rw [requireStringPieces_fwd ρ n _ hp]
    simp only [List.map_cons, mapLoc_node' ρ.to .S_StringLiteral _ (by decide)]
    exact ofT_fwd ρ loc l h
  · simp at h

theorem shortRevertAt_fwd (ρ : LocPerm) (n : T) (l : Loc) (h : shortRevertAt n = some l) : shortRevertAt (mapLoc ρ.to n) = some (ρ.to l) := by
  unfold shortRevertAt at h ⊢
  split at h
  · rename_i loc u s rest hp
    rw [requireStringPieces_fwd ρ n _ hp]
    simp only [List.map_cons, List.map_nil, mapLoc_node' ρ.to .S_StringLiteral _ (by decide), mapLoc_str]
    split at h
    · rename_i hlen
      rw [if_pos hlen]
      exact ofT_fwd ρ loc l h
    · simp at h
  · simp at h

theorem stringErrors_equivariant : Equivariant stringErrors := by
  intro ρ su
  unfold stringErrors
  rw [versionOf_mapLoc]
  cases versionOf su with
  | none => rfl
  | some v =>
    simp only
    split
    · exact equivariant_filterMap _ _ stringErrorAt_fwd ρ su
    · rfl

theorem shortRevertString_equivariant : Equivariant shortRevertString := by
  intro ρ su
  unfold shortRevertString
  rw [versionOf_mapLoc]
  cases versionOf su with
  | none => rfl
  | some v =>
    simp only
    split
    · exact equivariant_filterMap _ _ shortRevertAt_fwd ρ su
    · rfl

def usingSafeMathAt : T → Bool
  | .node _ [.node .S_Using [_, .node .UsingList_Library [.node .S_IdentifierPath [_, ids]], _, _]] =>
    (vecItems ids).any (fun i => identName i = some "SafeMath")
  | _ => false

theorem usingSafeMath_eq (su : T) : usingSafeMath su = (extract [.Using] su).any usingSafeMathAt := by
  unfold usingSafeMath
  congr 1

theorem usingSafeMathAt_fwd (ρ : LocPerm) (n : T) (h : usingSafeMathAt n = true) : usingSafeMathAt (mapLoc ρ.to n) = true := by
  unfold usingSafeMathAt at h
  split at h
  · rename_i tag l l2 ids x y
    by_cases ht : tag = .Loc_File
    · subst ht
      -- a location node has three numeric children: with this shape it is relocated like any other node
      have hill : ¬ IsLocArgs [T.node .S_Using [l, .node .UsingList_Library [.node .S_IdentifierPath [l2, ids]], x, y]] := by
        rintro ⟨f, s, e, h⟩; simp at h
      rw [mapLoc_locnode_ill ρ.to _ hill]
      simp only [List.map_cons, List.map_nil, mapLoc_node' ρ.to .S_Using _ (by decide),
        mapLoc_node' ρ.to .UsingList_Library _ (by decide), mapLoc_node' ρ.to .S_IdentifierPath _ (by decide), usingSafeMathAt,
        vecItems_mapLoc, List.any_map]
      rw [List.any_eq_true] at h ⊢
      obtain ⟨i, hi, hn⟩ := h
      exact ⟨i, hi, by simpa [identName_inv] using hn⟩
    · simp only [mapLoc_node' ρ.to tag _ ht, List.map_cons, List.map_nil, mapLoc_node' ρ.to .S_Using _ (by decide),
        mapLoc_node' ρ.to .UsingList_Library _ (by decide), mapLoc_node' ρ.to .S_IdentifierPath _ (by decide), usingSafeMathAt,
        vecItems_mapLoc, List.any_map]
      rw [List.any_eq_true] at h ⊢
      obtain ⟨i, hi, hn⟩ := h
      exact ⟨i, hi, by simpa [identName_inv] using hn⟩
  · simp at h

theorem usingSafeMath_mapLoc (ρ : LocPerm) (su : T) : usingSafeMath (mapLoc ρ.to su) = usingSafeMath su := by
  rw [usingSafeMath_eq, usingSafeMath_eq, extract_mapLoc, List.any_map]
  congr 1
  funext n
  exact inv_of_fwd usingSafeMathAt usingSafeMathAt_fwd ρ n

theorem safeMath_equivariant (pre080 : Bool) : Equivariant (safeMath pre080) := by
  intro ρ su
  unfold safeMath
  rw [versionOf_mapLoc, usingSafeMath_mapLoc]
  cases versionOf su with
  | none => rfl
  | some v =>
    simp only
    rw [safeMathCalls_equivariant ρ su]
    split <;> (split <;> simp)

/-! ## increment_decrement: all inc/dec locations minus the prefix ones inside unchecked blocks -/

theorem uncheckedStatements_mapLoc (ρ : LocPerm) (n : T) :
    uncheckedStatements (mapLoc ρ.to n) = (uncheckedStatements n).map (mapLoc ρ.to) := by
  apply listEquiv_of_fwd uncheckedStatements
  intro ρ n h
  unfold uncheckedStatements at h
  split at h
  · simp [uncheckedStatements, vecItems_mapLoc]
  · exact absurd rfl h

theorem uncheckedPrefixLocs_equivariant : Equivariant uncheckedPrefixLocs := by
  intro ρ su
  unfold uncheckedPrefixLocs
  rw [extract_mapLoc, List.flatMap_map, List.map_flatMap]
  congr 1
  funext n
  rw [uncheckedStatements_mapLoc, List.flatMap_map, List.map_flatMap]
  congr 1
  funext st
  exact incDecLocs_equivariant _ ρ st

theorem LocPerm.injective (ρ : LocPerm) : Function.Injective ρ.to := fun a b h => by
  have := congrArg ρ.inv h
  rwa [ρ.left, ρ.left] at this

theorem contains_map_perm (ρ : LocPerm) (ls : List Loc) (l : Loc) : (ls.map ρ.to).contains (ρ.to l) = ls.contains l := by
  induction ls with
  | nil => rfl
  | cons x xs ih =>
    simp only [List.map_cons, List.contains_cons, ih]
    by_cases h : l = x
    · subst h; simp
    · have hne : ρ.to l ≠ ρ.to x := fun e => h (ρ.injective e)
      have h1 : (ρ.to l == ρ.to x) = false := by simpa using hne
      have h2 : (l == x) = false := by simpa using h
      rw [h1, h2]

theorem incrementDecrement_equivariant : Equivariant incrementDecrement := by
  intro ρ su
  unfold incrementDecrement
  simp only
  rw [uncheckedPrefixLocs_equivariant ρ su, incDecLocs_equivariant incDecTargets ρ su, List.filter_map]
  congr 1
  apply List.filter_congr
  intro l _
  simp only [Function.comp]
  rw [contains_map_perm]

/-! ## assign_update_array_value -/

theorem subscriptOfVarLit_fwd (ρ : LocPerm) (n : T) (r : String × String) (h : subscriptOfVarLit n = some r) :
    subscriptOfVarLit (mapLoc ρ.to n) = some r := by
  unfold subscriptOfVarLit at h
  split at h
  · rename_i l base l2 k u
    simp only [subscriptOfVarLit, mapLoc_node' ρ.to .Expression_ArraySubscript _ (by decide), List.map_cons, List.map_nil,
      mapLoc_node' ρ.to .Some _ (by decide), mapLoc_node' ρ.to .Expression_NumberLiteral _ (by decide), mapLoc_str, varName_inv]
    exact h
  · simp at h

theorem subscriptOfVarLit_inv (ρ : LocPerm) (n : T) : subscriptOfVarLit (mapLoc ρ.to n) = subscriptOfVarLit n :=
  optInv_of_fwd subscriptOfVarLit subscriptOfVarLit_fwd ρ n

theorem isSubscript_mapLoc (ρ : LocPerm) (n : T) : isSubscript (mapLoc ρ.to n) = (isSubscript n).map (mapLoc ρ.to) := by
  apply optEquiv_of_fwd isSubscript
  intro ρ n a h
  unfold isSubscript at h
  split at h
  · simp only [Option.some.injEq] at h; subst h
    simp [isSubscript]
  · simp at h

theorem arith_not_loc (op : Tag) (h : arithTags.contains op = true) : op ≠ .Loc_File := by
  intro e; subst e; revert h; decide

theorem assignUpdateArrayAt_fwd (ρ : LocPerm) (n : T) (l : Loc) (h : assignUpdateArrayAt n = some l) :
    assignUpdateArrayAt (mapLoc ρ.to n) = some (ρ.to l) := by
  unfold assignUpdateArrayAt at h
  split at h
  · rename_i loc lhs op x a b
    cases ht : subscriptOfVarLit lhs with
    | none => simp [ht] at h
    | some target =>
      simp only [ht] at h
      split at h
      · rename_i hop
        have hne := arith_not_loc op hop
        simp only [assignUpdateArrayAt, mapLoc_node' ρ.to .Expression_Assign _ (by decide), List.map_cons, List.map_nil,
          mapLoc_node' ρ.to op _ hne, subscriptOfVarLit_inv, ht, hop, if_true, isSubscript_mapLoc]
        cases hs : isSubscript a with
        | none => simp [hs] at h
        | some baseA =>
          simp only [hs, Option.map_some, varName_inv] at h ⊢
          cases hv : varName baseA with
          | some w =>
            simp only [hv] at h ⊢
            split at h
            · rename_i hc; rw [if_pos hc]; exact ofT_fwd ρ loc l h
            · simp at h
          | none =>
            simp only [hv] at h ⊢
            split at h
            · rename_i hc; rw [if_pos hc]; exact ofT_fwd ρ loc l h
            · simp at h
      · simp at h
  · simp at h

theorem assignUpdateArray_equivariant : Equivariant assignUpdateArray := equivariant_filterMap _ _ assignUpdateArrayAt_fwd

/-! ## the state-variable table and the detectors built on it: constant_variables, sstore -/

/-- relocation of one table entry: the name is text, the attributes and the type location are sub-trees -/
def mapEntry (ρ : LocPerm) (e : String × List T × T) : String × List T × T :=
  (e.1, e.2.1.map (mapLoc ρ.to), mapLoc ρ.to e.2.2)

/-- one contract part's table entry -/
def storageVarEntryOf (ignoreConst ignoreImmut : Bool) : T → Option (String × List T × T)
  | .node .ContractPart_VariableDefinition [.node .S_VariableDefinition [_, ty, attrs, name, _]] =>
    let as := vecItems attrs
    let isConst := as.any (fun a => a.tag? == some .VariableAttribute_Constant)
    let isImmut := as.any (fun a => a.tag? == some .VariableAttribute_Immutable)
    if (ignoreConst && isConst) || (ignoreImmut && isImmut) then none
    else
      match ty, identName name with
      | .node .Expression_Type [loc, tyv], some n =>
        if tyv.tag? == some .Type_Mapping then none else some (n, as, loc)
      | _, _ => none
  | _ => none

theorem storageVarEntries_eq (ic ii : Bool) (su : T) :
    storageVarEntries ic ii su = (extract [.ContractDefinition] su).flatMap fun c => (contractParts c).filterMap (storageVarEntryOf ic ii) := by
  unfold storageVarEntries
  congr 1
  funext c
  unfold contractParts
  split <;> first | rfl | simp_all

theorem any_tag_map (ρ : LocPerm) (as : List T) (tag : Tag) :
    (as.map (mapLoc ρ.to)).any (fun a => a.tag? == some tag) = as.any (fun a => a.tag? == some tag) := by
  rw [List.any_map]; congr 1; funext a; simp [tag_inv]

theorem storageVarEntryOf_fwd (ic ii : Bool) (ρ : LocPerm) (p : T) (e : String × List T × T)
    (h : storageVarEntryOf ic ii p = some e) : storageVarEntryOf ic ii (mapLoc ρ.to p) = some (mapEntry ρ e) := by
  unfold storageVarEntryOf at h
  split at h
  · rename_i x ty attrs name y
    simp only at h
    split at h
    · simp at h
    · rename_i hflags
      split at h
      · rename_i loc tyv n hn
        split at h
        · simp at h
        · rename_i hmap
          simp only [Option.some.injEq] at h; subst h
          simp only [storageVarEntryOf, mapLoc_node' ρ.to .ContractPart_VariableDefinition _ (by decide), List.map_cons, List.map_nil,
            mapLoc_node' ρ.to .S_VariableDefinition _ (by decide), vecItems_mapLoc, any_tag_map, hflags, if_false,
            mapLoc_node' ρ.to .Expression_Type _ (by decide), identName_inv, hn, tag_inv, hmap, mapEntry]
          simp
      · simp at h
  · simp at h

theorem storageVarEntryOf_mapLoc (ic ii : Bool) (ρ : LocPerm) (p : T) :
    storageVarEntryOf ic ii (mapLoc ρ.to p) = (storageVarEntryOf ic ii p).map (mapEntry ρ) := by
  cases h : storageVarEntryOf ic ii p with
  | some e => simpa using storageVarEntryOf_fwd ic ii ρ p e h
  | none =>
    cases h2 : storageVarEntryOf ic ii (mapLoc ρ.to p) with
    | none => rfl
    | some e' =>
      have := storageVarEntryOf_fwd ic ii ρ.symm _ e' h2
      simp only [LocPerm.symm, mapLoc_inv_to] at this
      rw [h] at this; cases this

theorem storageVarEntries_mapLoc (ic ii : Bool) (ρ : LocPerm) (su : T) :
    storageVarEntries ic ii (mapLoc ρ.to su) = (storageVarEntries ic ii su).map (mapEntry ρ) := by
  rw [storageVarEntries_eq, storageVarEntries_eq, extract_mapLoc, List.flatMap_map, List.map_flatMap]
  congr 1
  funext c
  rw [contractParts_mapLoc, List.filterMap_map, List.map_filterMap]
  congr 1
  funext p
  exact storageVarEntryOf_mapLoc ic ii ρ p

/-! association lists: operations keyed by the name commute with a map of the values -/

theorem filter_key_map {β γ : Type} (g : String × β → String × γ) (hg : ∀ e, (g e).1 = e.1) (m : List (String × β)) (k : String) :
    (m.map g).filter (fun e => e.1 ≠ k) = (m.filter (fun e => e.1 ≠ k)).map g := by
  induction m with
  | nil => rfl
  | cons e es ih =>
    simp only [List.map_cons, List.filter_cons, hg e, ih]
    split <;> simp

theorem assocInsert_map {β γ : Type} (g : String × β → String × γ) (hg : ∀ e, (g e).1 = e.1) (m : List (String × β)) (e : String × β) :
    assocInsert (m.map g) e.1 (g e).2 = (assocInsert m e.1 e.2).map g := by
  unfold assocInsert
  rw [filter_key_map g hg, List.map_append]
  congr 1
  simp only [List.map_cons, List.map_nil]
  congr 1
  apply Prod.ext
  · exact (hg e).symm
  · rfl

theorem assocRemove_map {β γ : Type} (g : String × β → String × γ) (hg : ∀ e, (g e).1 = e.1) (m : List (String × β)) (k : String) :
    assocRemove (m.map g) k = (assocRemove m k).map g := filter_key_map g hg m k

theorem assocHas_map {β γ : Type} (g : String × β → String × γ) (hg : ∀ e, (g e).1 = e.1) (m : List (String × β)) (k : String) :
    assocHas (m.map g) k = assocHas m k := by
  unfold assocHas
  rw [List.any_map]
  congr 1
  funext e
  simp [hg e]

theorem mapEntry_key (ρ : LocPerm) (e : String × List T × T) : (mapEntry ρ e).1 = e.1 := rfl

theorem storageVarTable_mapLoc (ic ii : Bool) (ρ : LocPerm) (su : T) :
    storageVarTable ic ii (mapLoc ρ.to su) = (storageVarTable ic ii su).map (mapEntry ρ) := by
  unfold storageVarTable
  rw [storageVarEntries_mapLoc]
  generalize storageVarEntries ic ii su = es
  have key : ∀ (es : List (String × List T × T)) (acc : List (String × List T × T)),
      (es.map (mapEntry ρ)).foldl (fun m e => assocInsert m e.1 e.2) (acc.map (mapEntry ρ)) =
        (es.foldl (fun m e => assocInsert m e.1 e.2) acc).map (mapEntry ρ) := by
    intro es
    induction es with
    | nil => intro acc; rfl
    | cons e es ih =>
      intro acc
      simp only [List.map_cons, List.foldl_cons]
      rw [mapEntry_key, assocInsert_map (mapEntry ρ) (mapEntry_key ρ) acc e]
      exact ih _
  simpa using key es []

theorem writtenName_fwd (ρ : LocPerm) (n : T) (s : String) (h : writtenName n = some s) : writtenName (mapLoc ρ.to n) = some s := by
  unfold writtenName at h
  split at h
  · rename_i tag x target rest
    split at h
    · rename_i hw
      have hne : tag ≠ .Loc_File := by intro e; subst e; revert hw; decide
      simp only [writtenName, mapLoc_node' ρ.to tag _ hne, List.map_cons, hw, if_true, varName_inv]
      exact h
    · simp at h
  · simp at h

theorem writtenNames_mapLoc (ρ : LocPerm) (root : T) : writtenNames (mapLoc ρ.to root) = writtenNames root := by
  unfold writtenNames
  rw [extract_mapLoc, List.filterMap_map]
  congr 1
  funext n
  exact optInv_of_fwd writtenName writtenName_fwd ρ n

theorem constantVariables_equivariant : Equivariant constantVariables := by
  intro ρ su
  unfold constantVariables
  simp only
  rw [storageVarTable_mapLoc, writtenNames_mapLoc]
  generalize storageVarTable true false su = table
  generalize writtenNames su = ws
  have key : ∀ (ws : List String) (t : List (String × List T × T)),
      ws.foldl assocRemove (t.map (mapEntry ρ)) = (ws.foldl assocRemove t).map (mapEntry ρ) := by
    intro ws
    induction ws with
    | nil => intro t; rfl
    | cons w ws ih =>
      intro t
      simp only [List.foldl_cons]
      rw [assocRemove_map (mapEntry ρ) (mapEntry_key ρ) t w]; exact ih _
  rw [key, List.filterMap_map, List.map_filterMap]
  congr 1
  funext e
  simp [Function.comp, mapEntry, ofT_equiv]

theorem sstoreAt_fwd (ρ : LocPerm) (table : List (String × List T × T)) (n : T) (l : Loc) (h : sstoreAt table n = some l) :
    sstoreAt (table.map (mapEntry ρ)) (mapLoc ρ.to n) = some (ρ.to l) := by
  unfold sstoreAt at h
  split at h
  · rename_i loc lhs x
    cases hv : varName lhs with
    | none => simp [hv] at h
    | some v =>
      simp only [hv] at h
      split at h
      · rename_i hh
        have hh' : assocHas (table.map (mapEntry ρ)) v = true := by rw [assocHas_map (mapEntry ρ) (mapEntry_key ρ)]; exact hh
        simp only [sstoreAt, mapLoc_node' ρ.to .Expression_Assign _ (by decide), List.map_cons, List.map_nil, varName_inv, hv, hh', if_true]
        exact ofT_fwd ρ loc l h
      · simp at h
  · simp at h

theorem sstore_equivariant : Equivariant sstore := by
  intro ρ su
  unfold sstore
  rw [storageVarTable_mapLoc, extract_mapLoc, List.filterMap_map, List.map_filterMap]
  congr 1
  funext n
  simp only [Function.comp]
  generalize storageVarTable true true su = table
  cases h : sstoreAt table n with
  | some l => simpa using sstoreAt_fwd ρ table n l h
  | none =>
    cases h2 : sstoreAt (table.map (mapEntry ρ)) (mapLoc ρ.to n) with
    | none => rfl
    | some l' =>
      have := sstoreAt_fwd ρ.symm _ _ l' h2
      have hid : (List.map (mapEntry ρ.symm) (List.map (mapEntry ρ) table)) = table := by
        rw [List.map_map]
        have : (mapEntry ρ.symm ∘ mapEntry ρ) = id := by
          funext e
          simp only [Function.comp, mapEntry, LocPerm.symm, List.map_map, id]
          have hm : (mapLoc ρ.inv ∘ mapLoc ρ.to) = id := by funext t; exact mapLoc_inv_to ρ t
          rw [hm, List.map_id, mapLoc_inv_to]
        rw [this, List.map_id]
      simp only [LocPerm.symm] at this hid
      rw [hid, mapLoc_inv_to, h] at this
      cases this

/-! ## memory_to_calldata -/

/-- `t` is an array subscript with three fields -/
def isAS : T → Bool
  | .node .Expression_ArraySubscript [_, _, _] => true
  | _ => false

theorem isAS_iff (t : T) : isAS t = true ↔ ∃ l b i, t = .node .Expression_ArraySubscript [l, b, i] := by
  constructor
  · intro h
    unfold isAS at h
    split at h
    · rename_i l b i; exact ⟨l, b, i, rfl⟩
    · simp at h
  · rintro ⟨l, b, i, rfl⟩; rfl

theorem isAS_fwd (ρ : LocPerm) (t : T) (h : isAS t = true) : isAS (mapLoc ρ.to t) = true := by
  obtain ⟨l, b, i, rfl⟩ := (isAS_iff t).1 h
  simp [isAS]

theorem isAS_inv (ρ : LocPerm) (t : T) : isAS (mapLoc ρ.to t) = isAS t := inv_of_fwd isAS isAS_fwd ρ t

theorem strip_E1 (l l' b' i' i : T) :
    stripSubscripts (.node .Expression_ArraySubscript [l, .node .Expression_ArraySubscript [l', b', i'], i]) =
      stripSubscripts (.node .Expression_ArraySubscript [l', b', i']) := by
  conv => lhs; unfold stripSubscripts

theorem strip_E2 (l base i : T) (h : isAS base = false) : stripSubscripts (.node .Expression_ArraySubscript [l, base, i]) = base := by
  unfold stripSubscripts
  split
  · simp [isAS] at h
  · rfl

theorem strip_E3 (t : T) (h : isAS t = false) : stripSubscripts t = t := by
  unfold stripSubscripts
  split
  · simp [isAS] at h
  · rfl

theorem stripSubscripts_mapLoc (ρ : LocPerm) : ∀ (n : Nat) (t : T), sizeOf t ≤ n →
    stripSubscripts (mapLoc ρ.to t) = mapLoc ρ.to (stripSubscripts t) := by
  intro n
  induction n with
  | zero =>
    intro t ht
    cases t <;> simp at ht <;> omega
  | succ n ih =>
    intro t ht
    cases hA : isAS t with
    | false =>
      rw [strip_E3 t hA, strip_E3 _ (by rw [isAS_inv]; exact hA)]
    | true =>
      obtain ⟨l, base, i, rfl⟩ := (isAS_iff t).1 hA
      cases hB : isAS base with
      | false =>
        rw [strip_E2 l base i hB]
        simp only [mapLoc_node' ρ.to .Expression_ArraySubscript _ (by decide), List.map_cons, List.map_nil]
        rw [strip_E2 _ _ _ (by rw [isAS_inv]; exact hB)]
      | true =>
        obtain ⟨l', b', i', rfl⟩ := (isAS_iff base).1 hB
        rw [strip_E1]
        simp only [mapLoc_node' ρ.to .Expression_ArraySubscript _ (by decide), List.map_cons, List.map_nil]
        rw [strip_E1]
        have hsz : sizeOf (T.node .Expression_ArraySubscript [l', b', i']) ≤ n := by
          simp at ht ⊢; omega
        have := ih _ hsz
        simp only [mapLoc_node' ρ.to .Expression_ArraySubscript _ (by decide), List.map_cons, List.map_nil] at this
        exact this

theorem stripSubscripts_mapLoc' (ρ : LocPerm) (t : T) : stripSubscripts (mapLoc ρ.to t) = mapLoc ρ.to (stripSubscripts t) :=
  stripSubscripts_mapLoc ρ (sizeOf t) t (Nat.le_refl _)

theorem assignedBase_fwd (ρ : LocPerm) (n : T) (s : String) (h : assignedBase n = some s) : assignedBase (mapLoc ρ.to n) = some s := by
  unfold assignedBase at h
  split at h
  · rename_i tag x target rest
    split at h
    · rename_i hw
      have hne : tag ≠ .Loc_File := by intro e; subst e; revert hw; decide
      simp only [assignedBase, mapLoc_node' ρ.to tag _ hne, List.map_cons, hw, if_true, stripSubscripts_mapLoc', varName_inv]
      exact h
    · simp at h
  · simp at h

theorem assignedBases_mapLoc (ρ : LocPerm) (body : T) : assignedBases (mapLoc ρ.to body) = assignedBases body := by
  unfold assignedBases
  rw [extract_mapLoc, List.filterMap_map]
  congr 1
  funext n
  exact optInv_of_fwd assignedBase assignedBase_fwd ρ n

theorem fnParams_map (ρ : LocPerm) (fields : List T) : fnParams (fields.map (mapLoc ρ.to)) = (fnParams fields).map (mapLoc ρ.to) := by
  unfold fnParams
  rw [getElem?_map_mapLoc]
  cases fields[4]? with
  | none => rfl
  | some t => simp [vecItems_mapLoc]

/-- a named `memory` parameter: (name, loc of the keyword) -/
def memoryParamOf : T → Option (String × T)
  | .node .Tuple [_, .node .Some [.node .S_Parameter [_, _, .node .Some [.node .StorageLocation_Memory [loc]], .node .Some [id]]]] =>
    (identName id).map (·, loc)
  | _ => none

theorem memoryArgs_eq (fields : List T) :
    memoryArgs fields = (fnParams fields).foldl (fun acc p => match memoryParamOf p with | some e => assocInsert acc e.1 e.2 | none => acc) [] := by
  unfold memoryArgs
  congr 1
  funext acc p
  unfold memoryParamOf
  split
  · rename_i id
    cases hid : identName id <;> simp [hid]
  · simp_all

theorem memoryParamOf_fwd (ρ : LocPerm) (p : T) (e : String × T) (h : memoryParamOf p = some e) :
    memoryParamOf (mapLoc ρ.to p) = some (e.1, mapLoc ρ.to e.2) := by
  unfold memoryParamOf at h
  split at h
  · rename_i a b c loc id
    cases hn : identName id with
    | none => simp [hn] at h
    | some name =>
      simp only [hn, Option.map_some, Option.some.injEq] at h; subst h
      simp only [memoryParamOf, mapLoc_node' ρ.to .Tuple _ (by decide), List.map_cons, List.map_nil, mapLoc_node' ρ.to .Some _ (by decide),
        mapLoc_node' ρ.to .S_Parameter _ (by decide), mapLoc_node' ρ.to .StorageLocation_Memory _ (by decide), identName_inv, hn, Option.map_some]
  · simp at h

theorem memoryParamOf_mapLoc (ρ : LocPerm) (p : T) :
    memoryParamOf (mapLoc ρ.to p) = (memoryParamOf p).map fun e => (e.1, mapLoc ρ.to e.2) := by
  cases h : memoryParamOf p with
  | some e => simpa using memoryParamOf_fwd ρ p e h
  | none =>
    cases h2 : memoryParamOf (mapLoc ρ.to p) with
    | none => rfl
    | some e' =>
      have := memoryParamOf_fwd ρ.symm _ e' h2
      simp only [LocPerm.symm, mapLoc_inv_to] at this
      rw [h] at this; cases this

theorem memoryArgs_map (ρ : LocPerm) (fields : List T) :
    memoryArgs (fields.map (mapLoc ρ.to)) = (memoryArgs fields).map fun e => (e.1, mapLoc ρ.to e.2) := by
  rw [memoryArgs_eq, memoryArgs_eq, fnParams_map]
  generalize fnParams fields = ps
  have key : ∀ (ps : List T) (acc : List (String × T)),
      (ps.map (mapLoc ρ.to)).foldl (fun acc p => match memoryParamOf p with | some e => assocInsert acc e.1 e.2 | none => acc)
          (acc.map fun e => (e.1, mapLoc ρ.to e.2)) =
        (ps.foldl (fun acc p => match memoryParamOf p with | some e => assocInsert acc e.1 e.2 | none => acc) acc).map
          fun e => (e.1, mapLoc ρ.to e.2) := by
    intro ps
    induction ps with
    | nil => intro acc; rfl
    | cons p ps ih =>
      intro acc
      simp only [List.map_cons, List.foldl_cons, memoryParamOf_mapLoc]
      cases memoryParamOf p with
      | none => exact ih acc
      | some e =>
        simp only [Option.map_some]
        have := assocInsert_map (fun e : String × T => (e.1, mapLoc ρ.to e.2)) (fun _ => rfl) acc e
        simp only at this
        rw [this]
        exact ih _
  simpa using key ps []

theorem functionDefinitionFields_mapLoc (ρ : LocPerm) (n : T) :
    functionDefinitionFields (mapLoc ρ.to n) = (functionDefinitionFields n).map (List.map (mapLoc ρ.to)) := by
  have fwd : ∀ (ρ : LocPerm) (n : T) (fs : List T), functionDefinitionFields n = some fs →
      functionDefinitionFields (mapLoc ρ.to n) = some (fs.map (mapLoc ρ.to)) := by
    intro ρ n fs h
    unfold functionDefinitionFields at h
    split at h
    · simp only [Option.some.injEq] at h; subst h; simp [functionDefinitionFields]
    · simp only [Option.some.injEq] at h; subst h; simp [functionDefinitionFields]
    · simp at h
  cases h : functionDefinitionFields n with
  | some fs => simpa using fwd ρ n fs h
  | none =>
    cases h2 : functionDefinitionFields (mapLoc ρ.to n) with
    | none => rfl
    | some fs' =>
      have := fwd ρ.symm _ fs' h2
      simp only [LocPerm.symm, mapLoc_inv_to] at this
      rw [h] at this; cases this

theorem memoryToCalldata_equivariant : Equivariant memoryToCalldata := by
  intro ρ su
  unfold memoryToCalldata
  rw [extract_mapLoc, List.flatMap_map, List.map_flatMap]
  congr 1
  funext n
  rw [functionDefinitionFields_mapLoc]
  cases functionDefinitionFields n with
  | none => rfl
  | some fields =>
    simp only [Option.map_some, isConstructor_map, fnBody_map]
    split
    · rfl
    · cases fnBody fields with
      | none => rfl
      | some body =>
        simp only [Option.map_some, assignedBases_mapLoc, memoryArgs_map]
        generalize assignedBases body = ws
        generalize memoryArgs fields = args
        have key : ∀ (ws : List String) (t : List (String × T)),
            ws.foldl assocRemove (t.map fun e => (e.1, mapLoc ρ.to e.2)) = (ws.foldl assocRemove t).map fun e => (e.1, mapLoc ρ.to e.2) := by
          intro ws
          induction ws with
          | nil => intro t; rfl
          | cons w ws ih =>
            intro t
            simp only [List.foldl_cons]
            rw [assocRemove_map (fun e : String × T => (e.1, mapLoc ρ.to e.2)) (fun _ => rfl) t w]; exact ih _
        rw [key, List.filterMap_map, List.map_filterMap]
        congr 1
        funext e
        simp [Function.comp, ofT_equiv]

/-! ## immutable_variables -/

theorem isNonValueType_fwd (ρ : LocPerm) (n : T) (h : isNonValueType n = true) : isNonValueType (mapLoc ρ.to n) = true := by
  unfold isNonValueType at h
  split at h
  · rename_i ks
    simp [isNonValueType]
  · rename_i l callee args
    split at h
    · rename_i l2 obj m
      simp only [isNonValueType, mapLoc_node' ρ.to .Expression_FunctionCall _ (by decide), List.map_cons, List.map_nil,
        mapLoc_node' ρ.to .Expression_MemberAccess _ (by decide), varName_inv]
      exact h
    · rename_i l2 t ks
      simp only [decide_eq_true_eq] at h; subst h
      obtain ⟨ks', hk⟩ := mapLoc_node_shape ρ .Type_DynamicBytes ks
      simp [isNonValueType, hk]
    · simp at h
  · simp at h

theorem isNonValueType_inv (ρ : LocPerm) (n : T) : isNonValueType (mapLoc ρ.to n) = isNonValueType n :=
  inv_of_fwd isNonValueType isNonValueType_fwd ρ n

theorem assocGet_map {β γ : Type} (g : String × β → String × γ) (hg : ∀ e, (g e).1 = e.1) (m : List (String × β)) (k : String) :
    assocGet (m.map g) k = ((m.find? (fun e => e.1 = k)).map g).map (·.2) := by
  unfold assocGet
  rw [List.find?_map]
  congr 3
  funext e
  simp [hg e]

theorem ctorAssignEntry_fwd (ρ : LocPerm) (table : List (String × List T × T)) (n : T) (e : String × T)
    (h : ctorAssignEntry table n = some e) :
    ctorAssignEntry (table.map (mapEntry ρ)) (mapLoc ρ.to n) = some (e.1, mapLoc ρ.to e.2) := by
  unfold ctorAssignEntry at h
  split at h
  · rename_i x lhs rhs
    split at h
    · simp at h
    · rename_i hnv
      cases hv : varName lhs with
      | none => simp [hv] at h
      | some v =>
        simp only [hv] at h
        cases hg : assocGet table v with
        | none => simp [hg] at h
        | some al =>
          simp only [hg, Option.some.injEq] at h; subst h
          have hg' : assocGet (table.map (mapEntry ρ)) v = some (al.1.map (mapLoc ρ.to), mapLoc ρ.to al.2) := by
            rw [assocGet_map (mapEntry ρ) (mapEntry_key ρ)]
            unfold assocGet at hg
            cases hf : table.find? (fun e => e.1 = v) with
            | none => simp [hf] at hg
            | some ent =>
              simp only [hf, Option.map_some, Option.some.injEq] at hg
              simp [mapEntry, ← hg]
          simp only [ctorAssignEntry, mapLoc_node' ρ.to .Expression_Assign _ (by decide), List.map_cons, List.map_nil,
            isNonValueType_inv, hnv, varName_inv, hv, hg']
          simp
  · simp at h

theorem mapEntry_symm (ρ : LocPerm) (table : List (String × List T × T)) : (table.map (mapEntry ρ)).map (mapEntry ρ.symm) = table := by
  rw [List.map_map]
  have : (mapEntry ρ.symm ∘ mapEntry ρ) = id := by
    funext e
    simp only [Function.comp, mapEntry, LocPerm.symm, List.map_map, id]
    have hm : (mapLoc ρ.inv ∘ mapLoc ρ.to) = id := by funext t; exact mapLoc_inv_to ρ t
    rw [hm, List.map_id, mapLoc_inv_to]
  rw [this, List.map_id]

theorem ctorAssignEntry_mapLoc (ρ : LocPerm) (table : List (String × List T × T)) (n : T) :
    ctorAssignEntry (table.map (mapEntry ρ)) (mapLoc ρ.to n) = (ctorAssignEntry table n).map fun e => (e.1, mapLoc ρ.to e.2) := by
  cases h : ctorAssignEntry table n with
  | some e => simpa using ctorAssignEntry_fwd ρ table n e h
  | none =>
    cases h2 : ctorAssignEntry (table.map (mapEntry ρ)) (mapLoc ρ.to n) with
    | none => rfl
    | some e' =>
      have := ctorAssignEntry_fwd ρ.symm _ _ e' h2
      rw [mapEntry_symm] at this
      simp only [LocPerm.symm, mapLoc_inv_to] at this
      rw [h] at this; cases this

theorem constructorAssigns_mapLoc (ρ : LocPerm) (su : T) : constructorAssigns (mapLoc ρ.to su) = (constructorAssigns su).map (mapLoc ρ.to) := by
  unfold constructorAssigns
  rw [contracts_mapLoc, List.flatMap_map, List.map_flatMap]
  congr 1
  funext c
  rw [contractFunctions_mapLoc, List.flatMap_map, List.map_flatMap]
  congr 1
  funext pf
  simp only [Function.comp, isConstructor_map]
  split
  · exact extract_mapLoc ρ.to _ _
  · rfl

theorem assignedInConstructor_mapLoc (ρ : LocPerm) (su : T) (table : List (String × List T × T)) :
    assignedInConstructor (mapLoc ρ.to su) (table.map (mapEntry ρ)) =
      (assignedInConstructor su table).map fun e => (e.1, mapLoc ρ.to e.2) := by
  unfold assignedInConstructor
  rw [constructorAssigns_mapLoc, List.filterMap_map]
  have : (ctorAssignEntry (table.map (mapEntry ρ)) ∘ mapLoc ρ.to) = fun n => (ctorAssignEntry table n).map fun e => (e.1, mapLoc ρ.to e.2) := by
    funext n; exact ctorAssignEntry_mapLoc ρ table n
  rw [this, ← List.map_filterMap]
  generalize (constructorAssigns su).filterMap (ctorAssignEntry table) = es
  have key : ∀ (es : List (String × T)) (acc : List (String × T)),
      (es.map fun e => (e.1, mapLoc ρ.to e.2)).foldl (fun acc e => assocInsert acc e.1 e.2) (acc.map fun e => (e.1, mapLoc ρ.to e.2)) =
        (es.foldl (fun acc e => assocInsert acc e.1 e.2) acc).map fun e => (e.1, mapLoc ρ.to e.2) := by
    intro es
    induction es with
    | nil => intro acc; rfl
    | cons e es ih =>
      intro acc
      simp only [List.map_cons, List.foldl_cons]
      have := assocInsert_map (fun e : String × T => (e.1, mapLoc ρ.to e.2)) (fun _ => rfl) acc e
      simp only at this
      rw [this]
      exact ih _
  simpa using key es []

theorem writtenOutsideConstructors_mapLoc (ρ : LocPerm) (su : T) : writtenOutsideConstructors (mapLoc ρ.to su) = writtenOutsideConstructors su := by
  unfold writtenOutsideConstructors
  rw [contracts_mapLoc, List.flatMap_map]
  congr 1
  funext c
  simp only [Function.comp]
  rw [contractFunctions_mapLoc, List.flatMap_map]
  congr 1
  funext pf
  simp only [Function.comp, isConstructor_map]
  split
  · rfl
  · exact writtenNames_mapLoc ρ _

theorem immutableVariables_equivariant : Equivariant immutableVariables := by
  intro ρ su
  unfold immutableVariables
  simp only
  rw [storageVarTable_mapLoc, assignedInConstructor_mapLoc, writtenOutsideConstructors_mapLoc]
  generalize assignedInConstructor su (storageVarTable true true su) = pot
  generalize writtenOutsideConstructors su = ws
  have key : ∀ (ws : List String) (t : List (String × T)),
      ws.foldl assocRemove (t.map fun e => (e.1, mapLoc ρ.to e.2)) = (ws.foldl assocRemove t).map fun e => (e.1, mapLoc ρ.to e.2) := by
    intro ws
    induction ws with
    | nil => intro t; rfl
    | cons w ws ih =>
      intro t
      simp only [List.foldl_cons]
      rw [assocRemove_map (fun e : String × T => (e.1, mapLoc ρ.to e.2)) (fun _ => rfl) t w]; exact ih _
  rw [key, List.filterMap_map, List.map_filterMap]
  congr 1
  funext e
  simp [Function.comp, ofT_equiv]

/-! ## unprotected_selfdestruct -/

theorem isMsgSender_fwd (ρ : LocPerm) (n : T) (h : isMsgSender n = true) : isMsgSender (mapLoc ρ.to n) = true := by
  unfold isMsgSender at h
  split at h
  · simp only [isMsgSender, mapLoc_node' ρ.to .Expression_MemberAccess _ (by decide), List.map_cons, List.map_nil, varName_inv, identName_inv]
    exact h
  · simp at h

theorem isMsgSender_inv (ρ : LocPerm) (n : T) : isMsgSender (mapLoc ρ.to n) = isMsgSender n := inv_of_fwd isMsgSender isMsgSender_fwd ρ n

theorem isSenderCheckArg_fwd (ρ : LocPerm) (n : T) (h : isSenderCheckArg n = true) : isSenderCheckArg (mapLoc ρ.to n) = true := by
  unfold isSenderCheckArg at h
  split at h
  · simp only [isSenderCheckArg, mapLoc_node' ρ.to .Expression_Equal _ (by decide), List.map_cons, List.map_nil, isMsgSender_inv]
    exact h
  · simp only [isSenderCheckArg, mapLoc_node' ρ.to .Expression_NotEqual _ (by decide), List.map_cons, List.map_nil, isMsgSender_inv]
    exact h
  · rename_i hne1 hne2
    -- `msg.sender` itself: a member access, hence neither `==` nor `!=`
    have hm := isMsgSender_fwd ρ n h
    unfold isMsgSender at h
    split at h
    · rename_i l obj id
      simp only [mapLoc_node' ρ.to .Expression_MemberAccess _ (by decide), List.map_cons, List.map_nil] at hm ⊢
      unfold isSenderCheckArg
      exact hm
    · simp at h

theorem isSenderCheckArg_inv (ρ : LocPerm) (n : T) : isSenderCheckArg (mapLoc ρ.to n) = isSenderCheckArg n :=
  inv_of_fwd isSenderCheckArg isSenderCheckArg_fwd ρ n

theorem isSelfdestructCallee_inv (ρ : LocPerm) (c : T) : isSelfdestructCallee (mapLoc ρ.to c) = isSelfdestructCallee c := by
  unfold isSelfdestructCallee; rw [varName_inv]

theorem isAnyTypeExpr_fwd (ρ : LocPerm) (n : T) (h : isAnyTypeExpr n = true) : isAnyTypeExpr (mapLoc ρ.to n) = true := by
  unfold isAnyTypeExpr at h
  split at h
  · simp [isAnyTypeExpr]
  · simp at h

theorem isAnyTypeExpr_inv (ρ : LocPerm) (n : T) : isAnyTypeExpr (mapLoc ρ.to n) = isAnyTypeExpr n := inv_of_fwd isAnyTypeExpr isAnyTypeExpr_fwd ρ n

theorem callParts_mapLoc (ρ : LocPerm) (n : T) :
    callParts (mapLoc ρ.to n) = (callParts n).map fun ca => (mapLoc ρ.to ca.1, ca.2.map (mapLoc ρ.to)) := by
  have fwd : ∀ (ρ : LocPerm) (n : T) (ca : T × List T), callParts n = some ca →
      callParts (mapLoc ρ.to n) = some (mapLoc ρ.to ca.1, ca.2.map (mapLoc ρ.to)) := by
    intro ρ n ca h
    unfold callParts at h
    split at h
    · simp only [Option.some.injEq] at h; subst h
      simp [callParts, vecItems_mapLoc]
    · simp at h
  cases h : callParts n with
  | some ca => simpa using fwd ρ n ca h
  | none =>
    cases h2 : callParts (mapLoc ρ.to n) with
    | none => rfl
    | some ca' =>
      have := fwd ρ.symm _ ca' h2
      simp only [LocPerm.symm, mapLoc_inv_to] at this
      rw [h] at this; cases this

theorem mapLoc_injective (ρ : LocPerm) : Function.Injective (mapLoc ρ.to) := fun a b h => by
  have := congrArg (mapLoc ρ.inv) h
  rwa [mapLoc_inv_to, mapLoc_inv_to] at this

theorem contains_map_tree (ρ : LocPerm) (ls : List T) (c : T) : (ls.map (mapLoc ρ.to)).contains (mapLoc ρ.to c) = ls.contains c := by
  induction ls with
  | nil => rfl
  | cons x xs ih =>
    simp only [List.map_cons, List.contains_cons, ih]
    by_cases h : c = x
    · subst h; simp
    · have hne : mapLoc ρ.to c ≠ mapLoc ρ.to x := fun e => h (mapLoc_injective ρ e)
      have h1 : (mapLoc ρ.to c == mapLoc ρ.to x) = false := by simpa using hne
      have h2 : (c == x) = false := by simpa using h
      rw [h1, h2]

/-- the calls nested in the arguments of the selfdestruct calls below `body` -/
def sdArgCalls (body : T) : List T :=
  (extract [.FunctionCall] body).flatMap fun c =>
    match callParts c with
    | some (callee, args) => if isSelfdestructCallee callee then args.flatMap (extract [.FunctionCall]) else []
    | none => []

def senderCheckCall (c : T) : Bool :=
  match callParts c with
  | some (callee, args) => !isAnyTypeExpr callee && !isSelfdestructCallee callee && args.any isSenderCheckArg
  | none => false

theorem hasSenderCheck_unfold (body : T) :
    hasSenderCheck body = (extract [.FunctionCall] body).any fun c => !(sdArgCalls body).contains c && senderCheckCall c := rfl

theorem sdArgCalls_mapLoc (ρ : LocPerm) (body : T) : sdArgCalls (mapLoc ρ.to body) = (sdArgCalls body).map (mapLoc ρ.to) := by
  unfold sdArgCalls
  rw [extract_mapLoc, List.flatMap_map, List.map_flatMap]
  congr 1
  funext c
  rw [callParts_mapLoc]
  cases callParts c with
  | none => rfl
  | some ca =>
    obtain ⟨callee, args⟩ := ca
    simp only [Option.map_some, isSelfdestructCallee_inv]
    split
    · rw [List.flatMap_map, List.map_flatMap]
      congr 1
      funext a
      exact extract_mapLoc ρ.to _ a
    · rfl

theorem senderCheckCall_mapLoc (ρ : LocPerm) (c : T) : senderCheckCall (mapLoc ρ.to c) = senderCheckCall c := by
  unfold senderCheckCall
  rw [callParts_mapLoc]
  cases callParts c with
  | none => rfl
  | some ca =>
    obtain ⟨callee, args⟩ := ca
    simp only [Option.map_some, isAnyTypeExpr_inv, isSelfdestructCallee_inv, List.any_map]
    congr 2
    funext a
    exact isSenderCheckArg_inv ρ a

theorem hasSenderCheck_mapLoc (ρ : LocPerm) (body : T) : hasSenderCheck (mapLoc ρ.to body) = hasSenderCheck body := by
  rw [hasSenderCheck_unfold, hasSenderCheck_unfold, extract_mapLoc, List.any_map, sdArgCalls_mapLoc]
  congr 1
  funext c
  simp only [Function.comp, contains_map_tree, senderCheckCall_mapLoc]

def onlyModifierAttr : T → Bool
  | .node .FunctionAttribute_BaseOrModifier [_, .node .S_Base [_, .node .S_IdentifierPath [_, ids], _]] =>
    (vecItems ids).any fun i =>
      match identName i with
      | some n => containsSub "only".toList n.toList
      | none => false
  | _ => false

theorem hasOnlyModifier_eq (fields : List T) : hasOnlyModifier fields = (fnAttrs fields).any onlyModifierAttr := rfl

theorem onlyModifierAttr_fwd (ρ : LocPerm) (a : T) (h : onlyModifierAttr a = true) : onlyModifierAttr (mapLoc ρ.to a) = true := by
  unfold onlyModifierAttr at h
  split at h
  · rename_i l l2 l3 ids x
    simp only [onlyModifierAttr, mapLoc_node' ρ.to .FunctionAttribute_BaseOrModifier _ (by decide), List.map_cons, List.map_nil,
      mapLoc_node' ρ.to .S_Base _ (by decide), mapLoc_node' ρ.to .S_IdentifierPath _ (by decide), vecItems_mapLoc, List.any_map]
    rw [List.any_eq_true] at h ⊢
    obtain ⟨i, hi, hn⟩ := h
    exact ⟨i, hi, by simpa [identName_inv] using hn⟩
  · simp at h

theorem hasOnlyModifier_map (ρ : LocPerm) (fields : List T) : hasOnlyModifier (fields.map (mapLoc ρ.to)) = hasOnlyModifier fields := by
  rw [hasOnlyModifier_eq, hasOnlyModifier_eq, fnAttrs_map, List.any_map]
  congr 1
  funext a
  exact inv_of_fwd onlyModifierAttr onlyModifierAttr_fwd ρ a

theorem selfdestructCallAt_fwd (p : Bool) (ρ : LocPerm) (n : T) (l : Loc) (h : selfdestructCallAt p n = some l) :
    selfdestructCallAt p (mapLoc ρ.to n) = some (ρ.to l) := by
  unfold selfdestructCallAt at h
  split at h
  · rename_i loc callee x
    split at h
    · rename_i hc
      simp only [selfdestructCallAt, mapLoc_node' ρ.to .Expression_FunctionCall _ (by decide), List.map_cons, List.map_nil,
        isSelfdestructCallee_inv, hc, if_true]
      exact ofT_fwd ρ loc l h
    · simp at h
  · simp at h

theorem unprotectedSelfdestruct_equivariant : Equivariant unprotectedSelfdestruct := by
  unfold unprotectedSelfdestruct
  apply equivariant_perContract
  intro ρ c
  rw [contractFunctions_mapLoc, List.flatMap_map, List.map_flatMap]
  congr 1
  funext pf
  simp only [Function.comp, fnBody_map, isConstructor_map, isPublicOrExternal_map, hasOnlyModifier_map]
  cases fnBody pf.2 with
  | none => rfl
  | some body =>
    simp only [Option.map_some, hasSenderCheck_mapLoc]
    split
    · rfl
    · exact equivariant_filterMap _ _ (selfdestructCallAt_fwd _) ρ body

/-! ## all together -/

/-- **C17, all detectors**: every detector the tool can dispatch to commutes with every permutation of the
locations: `d (mapLoc ρ f) = (d f).map ρ` for every tree `f` -/
theorem C17_all (name : String) (d : T → List Loc) (h : detectorByName name = some d) : Equivariant d := by
  unfold detectorByName at h
  split at h <;> first
    | (simp only [Option.some.injEq] at h; subst h;
       first
        | exact addressBalance_equivariant | exact addressZero_equivariant | exact assignUpdateArray_equivariant
        | exact boolEqualsBool_equivariant | exact cacheArrayLength_equivariant | exact constantVariables_equivariant
        | exact immutableVariables_equivariant | exact incrementDecrement_equivariant | exact memoryToCalldata_equivariant
        | exact multipleRequire_equivariant | exact optimalComparison_equivariant | exact packStorageVariables_equivariant
        | exact packStructVariables_equivariant | exact payableFunction_equivariant | exact privateConstant_equivariant
        | exact safeMath_equivariant true | exact safeMath_equivariant false | exact shiftMath_equivariant
        | exact shortRevertString_equivariant | exact solidityKeccak256_equivariant | exact solidityMath_equivariant
        | exact sstore_equivariant | exact stringErrors_equivariant | exact divideBeforeMultiply_equivariant
        | exact floatingPragma_equivariant | exact unprotectedSelfdestruct_equivariant | exact unsafeErc20_equivariant
        | exact constructorOrder_equivariant | exact privateFuncLeadingUnderscore_equivariant
        | exact privateVarsLeadingUnderscore_equivariant)
    | simp at h

/-- every name of the dispatch table is covered (non-vacuity of `C17_all`) -/
theorem C17_all_names : ∀ name ∈ detectorNames, (detectorByName name).isSome = true := by decide

end Solstat
