import Solstat.Main
import Solstat.Props.C16
import Solstat.Gen.Inventory
/-!
# C18 — a run only reads its inputs and writes one report file
-/
namespace Solstat

/-- **frame**: every path other than `cwd/solstat_report.md` holds what it held before the run -/
theorem run_frame (analyse : World → Opts → Except String (List Line)) (w : World) (cwd : String) (args : CliArgs) (ce : Bool)
    (p : String) (hp : p ≠ reportPath cwd) : (run analyse w cwd args ce).1 p = w p := by
  unfold run
  cases hr : resolve args ce with
  | error e => rfl
  | ok o =>
    cases ha : analyse w o with
    | error e => simp [ha]
    | ok lines => simp [ha, World.write, hp]

/-- a failing run (unknown pattern name, missing directory, unreadable source) writes nothing at all -/
theorem run_failure_writes_nothing (analyse : World → Opts → Except String (List Line)) (w : World) (cwd : String)
    (args : CliArgs) (ce : Bool) (h : (run analyse w cwd args ce).2 = false) : (run analyse w cwd args ce).1 = w := by
  unfold run at h ⊢
  cases hr : resolve args ce with
  | error e => rfl
  | ok o =>
    cases ha : analyse w o with
    | error e => simp [ha]
    | ok lines => simp [hr, ha] at h

/-- **overwrite, not append**: after a successful run the report file holds exactly the rendering of
this run's findings — its previous content does not occur in the result -/
theorem run_writes_render (analyse : World → Opts → Except String (List Line)) (w : World) (cwd : String)
    (args : CliArgs) (ce : Bool) (o : Opts) (lines : List Line) (hr : resolve args ce = .ok o) (ha : analyse w o = .ok lines) :
    (run analyse w cwd args ce).1 (reportPath cwd) = some (reportBytes lines) := by
  unfold run; simp [hr, ha, World.write]

/-- an old report does not influence the new one as long as the analysis does not read it: if the
analysis gives the same result on two file systems that differ only at the report path, the two
runs leave the same file system behind -/
theorem old_report_overwritten (analyse : World → Opts → Except String (List Line)) (w : World) (cwd : String)
    (args : CliArgs) (ce : Bool) (old : List UInt8)
    (hindep : ∀ o, analyse (w.write (reportPath cwd) old) o = analyse w o)
    (hok : (run analyse w cwd args ce).2 = true) :
    (run analyse (w.write (reportPath cwd) old) cwd args ce).1 = (run analyse w cwd args ce).1 := by
  unfold run at hok ⊢
  cases hr : resolve args ce with
  | error e => simp [hr] at hok
  | ok o =>
    simp only [hr] at hok ⊢
    simp only [hindep o]
    cases ha : analyse w o with
    | error e => simp [ha] at hok
    | ok lines =>
      simp only
      funext p
      simp only [World.write]
      by_cases hp : p = reportPath cwd <;> simp [hp]

/-- the report's name is not an eligible source name: a report lying inside the analysed directory is
inert for the analysis (C16 `ineligible_inert` / `ineligible_cannot_fail`) -/
theorem report_name_ineligible : eligible "solstat_report.md" = false := by decide

/-- calls that only read or exit -/
def readOnlyCalls : List String := ["fs::read_dir", "fs::read_to_string", "fs::read", "fs::metadata", "Args::parse", "process::exit"]

/-- **effects inventory** (regenerated from all non-test sources on every run, whatever function a call sits
in): the only call that is not a read or an exit is the one `fs::write` in `src/report/generation.rs` -/
theorem effects_complete :
    Gen.effectCalls.filter (fun e => !readOnlyCalls.contains e.2) = [("src/report/generation.rs", "fs::write")] := by decide

end Solstat
