import Solstat.Props.C18
/-!
# C18 / C13 over a history of runs

`run` is one execution of `main`.  Here: any number of earlier runs from the same working directory — over other
directories, with other configurations, successful or failing — leave no trace in the report of the next
successful run: it holds exactly the rendering of that run's own findings, the same bytes a run in a fresh
working directory produces (`last_run_decides`, `history_irrelevant`).  The analysis is taken to be a function
of the options alone (it reads the analysed tree, which the runs do not change: `run_frame`; the report's own
name is not an eligible source name: `report_name_ineligible`).
-/
namespace Solstat

/-- a sequence of runs from one working directory; each element: the command line and whether `./contracts` exists -/
def runs (analyse : World → Opts → Except String (List Line)) (cwd : String) : World → List (CliArgs × Bool) → World
  | w, [] => w
  | w, a :: rest => runs analyse cwd (run analyse w cwd a.1 a.2).1 rest

theorem runs_append (analyse : World → Opts → Except String (List Line)) (cwd : String) (w : World)
    (xs ys : List (CliArgs × Bool)) : runs analyse cwd w (xs ++ ys) = runs analyse cwd (runs analyse cwd w xs) ys := by
  induction xs generalizing w with
  | nil => rfl
  | cons a xs ih => simp only [List.cons_append, runs]; exact ih _

/-- after any history, a successful run leaves exactly the rendering of its own findings in the report -/
theorem last_run_decides (analyse : Opts → Except String (List Line)) (cwd : String) (w : World)
    (history : List (CliArgs × Bool)) (last : CliArgs) (ce : Bool) (o : Opts) (lines : List Line)
    (hr : resolve last ce = .ok o) (ha : analyse o = .ok lines) :
    runs (fun _ => analyse) cwd w (history ++ [(last, ce)]) (reportPath cwd) = some (reportBytes lines) := by
  rw [runs_append]
  simp only [runs]
  exact run_writes_render (fun _ => analyse) _ cwd last ce o lines hr ha

/-- the same bytes as a run in any other (e.g. fresh) working-directory state -/
theorem history_irrelevant (analyse : Opts → Except String (List Line)) (cwd : String) (w w' : World)
    (history : List (CliArgs × Bool)) (last : CliArgs) (ce : Bool)
    (hok : (run (fun _ => analyse) w' cwd last ce).2 = true) :
    runs (fun _ => analyse) cwd w (history ++ [(last, ce)]) (reportPath cwd) =
      (run (fun _ => analyse) w' cwd last ce).1 (reportPath cwd) := by
  unfold run at hok
  cases hr : resolve last ce with
  | error e => simp [hr] at hok
  | ok o =>
    simp only [hr] at hok
    cases ha : analyse o with
    | error e => simp [ha] at hok
    | ok lines =>
      rw [last_run_decides analyse cwd w history last ce o lines hr ha,
        run_writes_render (fun _ => analyse) w' cwd last ce o lines hr ha]

/-- a failing last run leaves the report of the run before it untouched (nothing is written) -/
theorem failing_run_keeps_report (analyse : World → Opts → Except String (List Line)) (cwd : String) (w : World)
    (history : List (CliArgs × Bool)) (last : CliArgs) (ce : Bool)
    (hfail : (run analyse (runs analyse cwd w history) cwd last ce).2 = false) :
    runs analyse cwd w (history ++ [(last, ce)]) = runs analyse cwd w history := by
  rw [runs_append]
  simp only [runs]
  exact run_failure_writes_nothing analyse _ cwd last ce hfail

end Solstat
