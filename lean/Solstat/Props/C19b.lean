import Solstat.Props.C19
/-!
# C19, continued: the version-gated detectors and increment_decrement

`string_errors` and `short_revert_string` are a per-node detector behind a test on the version of the file;
`keep i` keeps the pragmas, so the test has the same outcome on the whole file and on every reduced file.
`increment_decrement` subtracts the prefix increments found inside `unchecked` blocks from all increments; both
passes distribute, and the subtraction composes when no location of one item is a location of another
(true of every parse: items are disjoint byte ranges).
-/
namespace Solstat
open Solstat.Gen T

/-- a detector that is a distributing detector behind a gate on the version -/
theorem compose_versionGated (inner : T → List Loc) (hinner : Distributes inner) (gate : Nat × Nat × Nat → Bool)
    (d : T → List Loc)
    (hd : ∀ su, d su = match versionOf su with | none => [] | some v => if gate v then inner su else [])
    (parts : List T) (hnp : ∀ p ∈ parts, isPragmaPart p = false → NoSolidityPragma p) (l : Loc) :
    l ∈ d (mkSourceUnit parts) ↔ ∃ i, i < parts.length ∧ l ∈ d (mkSourceUnit (keep i parts)) := by
  have hv : ∀ i, versionOf (mkSourceUnit (keep i parts)) = versionOf (mkSourceUnit parts) := fun i => versionOf_keep parts i hnp
  cases hver : versionOf (mkSourceUnit parts) with
  | none =>
    constructor
    · intro h; rw [hd, hver] at h; simp at h
    · rintro ⟨i, _, h⟩; rw [hd, hv i, hver] at h; simp at h
  | some v =>
    cases hg : gate v with
    | false =>
      constructor
      · intro h; rw [hd, hver] at h; simp [hg] at h
      · rintro ⟨i, _, h⟩; rw [hd, hv i, hver] at h; simp [hg] at h
    | true =>
      have h1 : d (mkSourceUnit parts) = inner (mkSourceUnit parts) := by rw [hd, hver]; simp [hg]
      have h2 : ∀ i, d (mkSourceUnit (keep i parts)) = inner (mkSourceUnit (keep i parts)) := by
        intro i; rw [hd, hv i, hver]; simp [hg]
      rw [h1]
      simp only [h2]
      exact compose_of_distributes inner hinner parts l

theorem stringErrors_composes (parts : List T) (hnp : ∀ p ∈ parts, isPragmaPart p = false → NoSolidityPragma p) (l : Loc) :
    l ∈ stringErrors (mkSourceUnit parts) ↔ ∃ i, i < parts.length ∧ l ∈ stringErrors (mkSourceUnit (keep i parts)) := by
  apply compose_versionGated (fun su => (extract [.FunctionCall] su).filterMap stringErrorAt)
    (distributes_filterMap _ _ (by decide)) (fun v => !verLt v (0, 8, 4)) stringErrors _ parts hnp l
  intro su
  unfold stringErrors
  cases versionOf su <;> rfl

theorem shortRevertString_composes (parts : List T) (hnp : ∀ p ∈ parts, isPragmaPart p = false → NoSolidityPragma p) (l : Loc) :
    l ∈ shortRevertString (mkSourceUnit parts) ↔ ∃ i, i < parts.length ∧ l ∈ shortRevertString (mkSourceUnit (keep i parts)) := by
  apply compose_versionGated (fun su => (extract [.FunctionCall] su).filterMap shortRevertAt)
    (distributes_filterMap _ _ (by decide)) (fun v => verLt v (0, 8, 4)) shortRevertString _ parts hnp l
  intro su
  unfold shortRevertString
  cases versionOf su <;> rfl

/-! ## increment_decrement -/

theorem incDecAll_distributes : Distributes (incDecLocs incDecTargets) := distributes_filterMap _ _ (by decide)

theorem uncheckedPrefixLocs_distributes : Distributes uncheckedPrefixLocs := distributes_flatMap _ _ (by decide)

theorem mem_incrementDecrement (su : T) (l : Loc) :
    l ∈ incrementDecrement su ↔ l ∈ incDecLocs incDecTargets su ∧ l ∉ uncheckedPrefixLocs su := by
  unfold incrementDecrement
  simp [List.mem_filter]

/-- **increment_decrement composes** when a location that is an increment in one item is not the location of an
unchecked prefix increment of another item (items are disjoint byte ranges, so this holds of every parse) -/
theorem incrementDecrement_composes (parts : List T)
    (hdis : ∀ p ∈ parts, ∀ q ∈ parts, p ≠ q → ∀ l, l ∈ incDecLocs incDecTargets p → l ∉ uncheckedPrefixLocs q) (l : Loc) :
    l ∈ incrementDecrement (mkSourceUnit parts) ↔ ∃ i, i < parts.length ∧ l ∈ incrementDecrement (mkSourceUnit (keep i parts)) := by
  simp only [mem_incrementDecrement, incDecAll_distributes _, uncheckedPrefixLocs_distributes _, List.mem_flatMap]
  constructor
  · rintro ⟨⟨p, hp, hl⟩, hno⟩
    obtain ⟨i, hi, rfl⟩ := List.getElem_of_mem hp
    refine ⟨i, hi, ⟨parts[i], getElem_mem_keep parts i hi, hl⟩, ?_⟩
    rintro ⟨q, hq, hlq⟩
    exact hno ⟨q, mem_keep hq, hlq⟩
  · rintro ⟨i, hi, ⟨p, hp, hl⟩, hno⟩
    refine ⟨⟨p, mem_keep hp, hl⟩, ?_⟩
    rintro ⟨q, hq, hlq⟩
    by_cases hpq : p = q
    · subst hpq; exact hno ⟨p, hp, hlq⟩
    · exact hdis p (mem_keep hp) q hq hpq l hl hlq

end Solstat
