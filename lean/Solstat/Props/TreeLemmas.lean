import Solstat.Tree
/-! # Facts about `subtreesNoAsm` / `allNodes` used by the property proofs -/
namespace Solstat
open Solstat.Gen T

theorem self_mem_subtreesNoAsm (t : T) : t ∈ subtreesNoAsm t := by
  cases t <;> simp [subtreesNoAsm]

theorem mem_subtreesNoAsmL_of_mem {ks : List T} {k n : T} (hk : k ∈ ks) (hn : n ∈ subtreesNoAsm k) :
    n ∈ subtreesNoAsmL ks := by
  induction ks with
  | nil => cases hk
  | cons x xs ih =>
    simp only [subtreesNoAsmL, List.mem_append]
    rcases List.mem_cons.1 hk with rfl | h
    · exact Or.inl hn
    · exact Or.inr (ih h)

mutual
theorem subtreesNoAsm_trans : ∀ (t s n : T), s ∈ subtreesNoAsm t → n ∈ subtreesNoAsm s → n ∈ subtreesNoAsm t
  | .node tag ks, s, n, hs, hn => by
    simp only [subtreesNoAsm, List.mem_cons] at hs ⊢
    rcases hs with rfl | hs
    · simpa [subtreesNoAsm] using hn
    · by_cases ha : tag = .Statement_Assembly
      · simp [ha] at hs
      · simp only [ha, if_false] at hs ⊢
        exact Or.inr (subtreesNoAsmL_trans ks s n hs hn)
  | .str _, s, n, hs, hn => by simp [subtreesNoAsm] at hs; subst hs; exact hn
  | .nat _, s, n, hs, hn => by simp [subtreesNoAsm] at hs; subst hs; exact hn
  | .bool _, s, n, hs, hn => by simp [subtreesNoAsm] at hs; subst hs; exact hn
theorem subtreesNoAsmL_trans : ∀ (ts : List T) (s n : T), s ∈ subtreesNoAsmL ts → n ∈ subtreesNoAsm s → n ∈ subtreesNoAsmL ts
  | [], _, _, hs, _ => by simp [subtreesNoAsmL] at hs
  | k :: ks, s, n, hs, hn => by
    simp only [subtreesNoAsmL, List.mem_append] at hs ⊢
    rcases hs with hs | hs
    · exact Or.inl (subtreesNoAsm_trans k s n hs hn)
    · exact Or.inr (subtreesNoAsmL_trans ks s n hs hn)
end

/-- a direct child of a node that is not an assembly statement -/
theorem kid_mem_subtreesNoAsm {tag : Tag} {ks : List T} {k : T} (ha : tag ≠ .Statement_Assembly) (hk : k ∈ ks) :
    k ∈ subtreesNoAsm (.node tag ks) := by
  simp only [subtreesNoAsm, ha, if_false, List.mem_cons]
  exact Or.inr (mem_subtreesNoAsmL_of_mem hk (self_mem_subtreesNoAsm k))

theorem mem_allNodes {f n : T} : n ∈ allNodes f ↔ n ∈ subtreesNoAsm f ∧ n.isNode = true := by
  simp [allNodes, List.mem_filter]

/-- nodes of a sub-term that lies outside assembly are nodes of the whole -/
theorem allNodes_trans {f s n : T} (hs : s ∈ subtreesNoAsm f) (hn : n ∈ allNodes s) : n ∈ allNodes f := by
  rw [mem_allNodes] at hn ⊢
  exact ⟨subtreesNoAsm_trans f s n hs hn.1, hn.2⟩

end Solstat
