import Solstat.Props.C07
import Solstat.Props.Assoc
/-!
# C08 — mutability suggestions are never made for something the file writes to
-/
namespace Solstat
open Solstat.Gen T View

/-! ## direct writes -/

/-- `name` is the direct target of an assignment, compound assignment, increment or decrement
somewhere below `root` (any syntactic position outside assembly) -/
def Written (root : T) (name : String) : Prop := ∃ n ∈ allNodes root, writtenName n = some name

theorem writtenName_kind (n : T) (name : String) (h : writtenName n = some name) :
    ∃ tag kids, n = .node tag kids ∧ isNodeTag tag = true ∧ specKind tag ∈ writeTargets := by
  unfold writtenName at h
  split at h
  · rename_i tag l target rest
    split at h
    · rename_i hc
      refine ⟨tag, _, rfl, ?_, ?_⟩
      · simp [writeTags] at hc
        rcases hc with rfl | rfl | rfl | rfl | rfl | rfl | rfl | rfl | rfl | rfl | rfl | rfl | rfl | rfl | rfl <;> decide
      · simp [writeTags] at hc
        rcases hc with rfl | rfl | rfl | rfl | rfl | rfl | rfl | rfl | rfl | rfl | rfl | rfl | rfl | rfl | rfl <;> decide
    · simp at h
  · simp at h

theorem mem_writtenNames (root : T) (name : String) : name ∈ writtenNames root ↔ Written root name := by
  unfold writtenNames Written
  exact mem_extract_filterMap' writeTargets writtenName root name writtenName_kind

/-! ## constant_variables -/

/-- the state variables the detector considers: contract-level variable definitions of a
non-mapping elementary type expression, minus constants / immutables as requested -/
def StateVars (ignoreConst ignoreImmut : Bool) (f : T) : List (String × List T × T) :=
  storageVarEntries ignoreConst ignoreImmut f

/-- state-variable names are unique within the file (hypothesis of the property) -/
def NamesUnique (ignoreConst ignoreImmut : Bool) (f : T) : Prop := (keys (StateVars ignoreConst ignoreImmut f)).Nodup

theorem mem_storageVarTable (kc ki : Bool) (f : T) (hu : NamesUnique kc ki f) (e : String × List T × T) :
    e ∈ storageVarTable kc ki f ↔ e ∈ StateVars kc ki f := by
  unfold storageVarTable StateVars
  have hu' : (keys (storageVarEntries kc ki f)).Nodup := hu
  rw [mem_foldl_assocInsert_nodup (storageVarEntries kc ki f) [] e hu' (by intro k _; simp [keys])]
  simp

/-- **C08, constant_variables (exact).** Under unique state-variable names: the reported locations
are the type locations of the non-constant elementary-typed state variables that are never the
direct target of a write anywhere in the file. -/
theorem constantVariables_exact (f : T) (hu : NamesUnique true false f) (l : Loc) :
    l ∈ constantVariables f ↔
      ∃ e ∈ StateVars true false f, ¬ Written f e.1 ∧ Loc.ofT e.2.2 = some l := by
  unfold constantVariables
  simp only [List.mem_filterMap]
  constructor
  · rintro ⟨e, he, hl⟩
    rw [mem_foldl_assocRemove] at he
    exact ⟨e, (mem_storageVarTable true false f hu e).1 he.1, fun hw => he.2 ((mem_writtenNames f e.1).2 hw), hl⟩
  · rintro ⟨e, he, hw, hl⟩
    refine ⟨e, ?_, hl⟩
    rw [mem_foldl_assocRemove]
    exact ⟨(mem_storageVarTable true false f hu e).2 he, fun hm => hw ((mem_writtenNames f e.1).1 hm)⟩

/-- never a variable that is written (no uniqueness needed for this half) -/
theorem constantVariables_sound (f : T) (l : Loc) (h : l ∈ constantVariables f) :
    ∃ e ∈ storageVarTable true false f, ¬ Written f e.1 ∧ Loc.ofT e.2.2 = some l := by
  unfold constantVariables at h
  simp only [List.mem_filterMap] at h
  obtain ⟨e, he, hl⟩ := h
  rw [mem_foldl_assocRemove] at he
  exact ⟨e, he.1, fun hw => he.2 ((mem_writtenNames f e.1).2 hw), hl⟩

/-! ## sstore -/

theorem sstoreAt_iff (table : List (String × List T × T)) (n : T) (l : Loc) :
    sstoreAt table n = some l ↔
      ∃ loc lhs rhs v, n = .node .Expression_Assign [loc, lhs, rhs] ∧ varName lhs = some v ∧ v ∈ keys table ∧ Loc.ofT loc = some l := by
  constructor
  · intro h
    unfold sstoreAt at h
    split at h
    · rename_i loc lhs rhs
      cases hv : varName lhs with
      | none => simp [hv] at h
      | some v =>
        simp only [hv] at h
        split at h
        · rename_i hc; exact ⟨loc, lhs, rhs, v, rfl, hv, (assocHas_iff table v).1 hc, h⟩
        · simp at h
    · simp at h
  · rintro ⟨loc, lhs, rhs, v, rfl, hv, hk, hl⟩
    simp [sstoreAt, hv, (assocHas_iff table v).2 hk, hl]

/-- **C08, sstore.** Exactly the plain assignments, anywhere in the file, whose target is an
identifier naming an elementary-typed, non-constant, non-immutable state variable. -/
theorem sstore_exact (f : T) (l : Loc) :
    l ∈ sstore f ↔
      ∃ n ∈ allNodes f, ∃ loc lhs rhs v, n = .node .Expression_Assign [loc, lhs, rhs] ∧ varName lhs = some v ∧
        v ∈ keys (storageVarTable true true f) ∧ Loc.ofT loc = some l := by
  unfold sstore
  rw [mem_extract_filterMap]
  · constructor
    · rintro ⟨n, hn, h⟩; exact ⟨n, hn, (sstoreAt_iff _ n l).1 h⟩
    · rintro ⟨n, hn, h⟩; exact ⟨n, hn, (sstoreAt_iff _ n l).2 h⟩
  · intro n l h
    obtain ⟨loc, lhs, rhs, v, rfl, _⟩ := (sstoreAt_iff _ n l).1 h
    exact ⟨_, _, rfl, by decide, by decide⟩

theorem keys_storageVarTable (kc ki : Bool) (f : T) (v : String) :
    v ∈ keys (storageVarTable kc ki f) ↔ v ∈ keys (StateVars kc ki f) := by
  unfold storageVarTable StateVars
  rw [keys_foldl_assocInsert]; simp [keys]

/-! ## immutable_variables -/

/-- a plain assignment `v = rhs` with a right-hand side that is not a string literal, an `abi.*`
call or `bytes(..)`, somewhere inside the definition of a constructor of a contract of the file -/
def AssignedInConstructor (f : T) (v : String) : Prop :=
  ∃ k ∈ allNodes f, isContractNode k = true ∧ ∃ g ∈ allNodes k, ∃ fields,
    contractFunctionFields g = some fields ∧ isConstructor fields = true ∧
    ∃ n ∈ allNodes g, ∃ loc lhs rhs, n = .node .Expression_Assign [loc, lhs, rhs] ∧ varName lhs = some v ∧
      isNonValueType rhs = false

/-- a direct write to `v` inside a non-constructor function definition of a contract of the file -/
def WrittenOutsideConstructors (f : T) (v : String) : Prop :=
  ∃ k ∈ allNodes f, isContractNode k = true ∧ ∃ g ∈ allNodes k, ∃ fields,
    contractFunctionFields g = some fields ∧ isConstructor fields = false ∧ Written g v

theorem mem_constructorAssigns (f n : T) :
    n ∈ constructorAssigns f ↔
      ∃ k ∈ allNodes f, isContractNode k = true ∧ ∃ g ∈ allNodes k, ∃ fields,
        contractFunctionFields g = some fields ∧ isConstructor fields = true ∧
        n ∈ allNodes g ∧ ∃ kids, n = .node .Expression_Assign kids := by
  unfold constructorAssigns
  simp only [List.mem_flatMap]
  constructor
  · rintro ⟨k, hk, ⟨g, fields⟩, hp, hn⟩
    have hk' := (mem_contracts f k).1 hk
    have hp' := (mem_contractFunctions k g fields).1 hp
    simp only at hn
    split at hn
    · rename_i hc
      have hm := (mem_extract _ _ _).1 hn
      obtain ⟨tag, kids, rfl, hkind⟩ := hm.2
      have hnode := (mem_allNodes.1 hm.1).2
      simp [T.isNode] at hnode
      have : tag = .Expression_Assign := by revert hkind hnode; cases tag <;> simp [specKind, isNodeTag]
      subst this
      exact ⟨k, hk'.1, hk'.2, g, hp'.1, fields, hp'.2, hc, hm.1, kids, rfl⟩
    · simp at hn
  · rintro ⟨k, hk, hkc, g, hg, fields, hfn, hc, hn, kids, rfl⟩
    refine ⟨k, (mem_contracts f k).2 ⟨hk, hkc⟩, (g, fields), (mem_contractFunctions k g fields).2 ⟨hg, hfn⟩, ?_⟩
    simp only [hc, if_true]
    exact (mem_extract _ _ _).2 ⟨hn, _, _, rfl, by decide⟩

theorem mem_writtenOutsideConstructors (f : T) (v : String) :
    v ∈ writtenOutsideConstructors f ↔ WrittenOutsideConstructors f v := by
  unfold writtenOutsideConstructors WrittenOutsideConstructors
  simp only [List.mem_flatMap]
  constructor
  · rintro ⟨k, hk, ⟨g, fields⟩, hp, hv⟩
    have hk' := (mem_contracts f k).1 hk
    have hp' := (mem_contractFunctions k g fields).1 hp
    simp only at hv
    split at hv
    · simp at hv
    · rename_i hc
      exact ⟨k, hk'.1, hk'.2, g, hp'.1, fields, hp'.2, by simpa using hc, (mem_writtenNames g v).1 hv⟩
  · rintro ⟨k, hk, hkc, g, hg, fields, hfn, hc, hw⟩
    refine ⟨k, (mem_contracts f k).2 ⟨hk, hkc⟩, (g, fields), (mem_contractFunctions k g fields).2 ⟨hg, hfn⟩, ?_⟩
    simp only [hc, Bool.false_eq_true, if_false]
    exact (mem_writtenNames g v).2 hw

theorem ctorAssignEntry_some (table : List (String × List T × T)) (n : T) (v : String) (tl : T)
    (h : ctorAssignEntry table n = some (v, tl)) :
    ∃ loc lhs rhs, n = .node .Expression_Assign [loc, lhs, rhs] ∧ varName lhs = some v ∧ isNonValueType rhs = false ∧
      ∃ attrs, assocGet table v = some (attrs, tl) := by
  unfold ctorAssignEntry at h
  split at h
  · rename_i loc lhs rhs
    split at h
    · simp at h
    · rename_i hnv
      cases hv : varName lhs with
      | none => simp [hv] at h
      | some w =>
        simp only [hv] at h
        cases hg : assocGet table w with
        | none => simp [hg] at h
        | some e =>
          obtain ⟨attrs, loc'⟩ := e
          simp only [hg, Option.some.injEq, Prod.mk.injEq] at h
          obtain ⟨rfl, rfl⟩ := h
          exact ⟨loc, lhs, rhs, rfl, hv, by simpa using hnv, attrs, hg⟩
  · simp at h

/-- **C08, immutable_variables (sound).** Whatever is suggested is a state variable that is
assigned inside a constructor and is not directly written in any other contract-level function. -/
theorem immutableVariables_sound (f : T) (l : Loc) (h : l ∈ immutableVariables f) :
    ∃ v tl, AssignedInConstructor f v ∧ ¬ WrittenOutsideConstructors f v ∧
      (∃ attrs, assocGet (storageVarTable true true f) v = some (attrs, tl)) ∧ Loc.ofT tl = some l := by
  unfold immutableVariables at h
  simp only [List.mem_filterMap] at h
  obtain ⟨e, he, hl⟩ := h
  rw [mem_foldl_assocRemove] at he
  obtain ⟨hpot, hnw⟩ := he
  -- every entry of `potential` comes from a constructor assignment
  have hkey : e.1 ∈ keys (assignedInConstructor f (storageVarTable true true f)) := by
    simp only [keys, List.mem_map]; exact ⟨e, hpot, rfl⟩
  unfold assignedInConstructor at hkey hpot
  rw [keys_foldl_assocInsert] at hkey
  -- values are determined by the key
  have hval : ∀ (es : List (String × T)) (m : List (String × T)) (x : String × T),
      (∀ y ∈ es, ∃ attrs, assocGet (storageVarTable true true f) y.1 = some (attrs, y.2)) →
      (∀ y ∈ m, ∃ attrs, assocGet (storageVarTable true true f) y.1 = some (attrs, y.2)) →
      x ∈ es.foldl (fun acc e => assocInsert acc e.1 e.2) m →
      ∃ attrs, assocGet (storageVarTable true true f) x.1 = some (attrs, x.2) := by
    intro es
    induction es with
    | nil => intro m x _ hm hx; exact hm x hx
    | cons y ys ih =>
      intro m x hes hm hx
      simp only [List.foldl] at hx
      refine ih _ x (fun z hz => hes z (by simp [hz])) ?_ hx
      intro z hz
      rcases (mem_assocInsert m y.1 y.2 z).1 hz with ⟨h1, _⟩ | rfl
      · exact hm z h1
      · exact hes y (by simp)
  have hentries : ∀ y ∈ (constructorAssigns f).filterMap (ctorAssignEntry (storageVarTable true true f)),
      ∃ attrs, assocGet (storageVarTable true true f) y.1 = some (attrs, y.2) := by
    intro y hy
    rw [List.mem_filterMap] at hy
    obtain ⟨n, _, hn⟩ := hy
    obtain ⟨_, _, _, _, _, _, attrs, hg⟩ := ctorAssignEntry_some _ n y.1 y.2 hn
    exact ⟨attrs, hg⟩
  have hget := hval _ [] e hentries (by simp) hpot
  simp only [keys, List.map_nil, List.not_mem_nil, false_or, List.mem_map] at hkey
  obtain ⟨y, hy, hyk⟩ := hkey
  rw [List.mem_filterMap] at hy
  obtain ⟨n, hn, hne⟩ := hy
  obtain ⟨loc, lhs, rhs, rfl, hv, hnv, _⟩ := ctorAssignEntry_some _ n y.1 y.2 hne
  obtain ⟨k, hk, hkc, g, hg, fields, hfn, hc, hng, _⟩ := (mem_constructorAssigns f _).1 hn
  refine ⟨e.1, e.2, ?_, fun hw => hnw ((mem_writtenOutsideConstructors f e.1).2 hw), hget, hl⟩
  exact ⟨k, hk, hkc, g, hg, fields, hfn, hc, _, hng, loc, lhs, rhs, rfl, by rw [← hyk]; exact hv, hnv⟩


/-- **C08, immutable_variables (complete, partial).** Under unique state-variable names: a
non-constant, non-immutable elementary-typed state variable that a constructor assigns with a
right-hand side that is not a string literal / `abi.*` call / `bytes(..)`, and that no other
contract-level function writes directly, is suggested.  Partial: the property says "value-typed
variable"; the code decides that from the shape of the right-hand side (see the counterexample
below, known finding K1). -/
theorem immutableVariables_complete_partial (f : T) (hu : NamesUnique true true f)
    (v : String) (attrs : List T) (tl : T) (l : Loc)
    (hv : (v, attrs, tl) ∈ StateVars true true f) (ha : AssignedInConstructor f v)
    (hw : ¬ WrittenOutsideConstructors f v) (hl : Loc.ofT tl = some l) :
    l ∈ immutableVariables f := by
  unfold immutableVariables
  simp only [List.mem_filterMap]
  refine ⟨(v, tl), ?_, hl⟩
  rw [mem_foldl_assocRemove]
  refine ⟨?_, fun hm => hw ((mem_writtenOutsideConstructors f v).1 hm)⟩
  -- the table maps `v` to its unique entry
  have htab : (v, attrs, tl) ∈ storageVarTable true true f := (mem_storageVarTable true true f hu _).2 hv
  have hnd : (keys (storageVarTable true true f)).Nodup := by
    unfold storageVarTable; exact keys_foldl_assocInsert_nodup _ [] (by simp [keys])
  have hget : assocGet (storageVarTable true true f) v = some (attrs, tl) := assocGet_eq_of_mem _ v _ hnd htab
  -- every inserted entry's value is the table's type location of its key
  let g : String → T := fun k => match assocGet (storageVarTable true true f) k with
    | some (_, loc) => loc
    | none => tl
  have hg : g v = tl := by simp [g, hget]
  unfold assignedInConstructor
  rw [← hg]
  apply mem_foldl_assocInsert_fun g
  · intro y hy
    rw [List.mem_filterMap] at hy
    obtain ⟨n, _, hn⟩ := hy
    obtain ⟨_, _, _, _, _, _, attrs', hg'⟩ := ctorAssignEntry_some _ n y.1 y.2 hn
    simp [g, hg']
  · simp
  · right
    obtain ⟨k, hk, hkc, gn, hgn, fields, hfn, hc, n, hn, loc, lhs, rhs, rfl, hvn, hnv⟩ := ha
    simp only [keys, List.mem_map, List.mem_filterMap]
    refine ⟨(v, tl), ⟨_, (mem_constructorAssigns f _).2 ⟨k, hk, hkc, gn, hgn, fields, hfn, hc, hn, _, rfl⟩, ?_⟩, rfl⟩
    simp [ctorAssignEntry, hnv, hvn, hget]

/-! ### K1: the full completeness statement is false of model and code alike -/

namespace K1
def L (s e : Nat) : T := Loc.toT ⟨0, s, e⟩
def ident (n : String) : T := .node .S_Identifier [L 0 0, .str n]
def var (n : String) : T := .node .Expression_Variable [ident n]
def none_ : T := .node .None []
def vec (xs : List T) : T := .node .Vec xs
/-- `abi.decode()` -/
def abiCall : T := .node .Expression_FunctionCall [L 60 72, .node .Expression_MemberAccess [L 60 70, var "abi", ident "decode"], vec []]
/-- `x = abi.decode();` -/
def assign : T := .node .Statement_Expression [L 56 72, .node .Expression_Assign [L 56 72, var "x", abiCall]]
def ctor : T := .node .ContractPart_FunctionDefinition [.node .S_FunctionDefinition
  [L 30 43, .node .FunctionTy_Constructor [], none_, L 30 41, vec [], vec [], none_, vec [],
   .node .Some [.node .Statement_Block [L 44 80, .bool false, vec [assign]]]]]
/-- `uint256 x;` -/
def xdef : T := .node .ContractPart_VariableDefinition [.node .S_VariableDefinition
  [L 13 22, .node .Expression_Type [L 13 20, .node .Type_Uint [.nat 256]], vec [], ident "x", none_]]
/-- `contract C { uint256 x; constructor() { x = abi.decode(); } }` -/
def file : T := .node .S_SourceUnit [vec [.node .SourceUnitPart_ContractDefinition [.node .S_ContractDefinition
  [L 0 82, .node .ContractTy_Contract [L 0 8], ident "C", vec [], vec [xdef, ctor]]]]]
end K1

/-- the `uint256` state variable `x` is assigned only in the constructor, from `abi.decode(..)`, and
written nowhere else — yet nothing is suggested: the right-hand side's shape is mistaken for a
non-value type.  Replayed on the implementation by `corpus/defects/k1_immutable_abi_decode.sol`. -/
theorem immutableVariables_complete_counterexample :
    immutableVariables K1.file = [] ∧ ("x", [], K1.L 13 20) ∈ StateVars true true K1.file := by
  decide

/-! ## memory_to_calldata -/

/-- the function body assigns `name`, directly or through a chain of subscripts of any depth, with a
plain or compound assignment -/
def AssignedIn (body : T) (name : String) : Prop := ∃ n ∈ allNodes body, assignedBase n = some name

theorem assignedBase_kind (n : T) (name : String) (h : assignedBase n = some name) :
    ∃ tag kids, n = .node tag kids ∧ isNodeTag tag = true ∧ specKind tag ∈ assignTargets := by
  unfold assignedBase at h
  split at h
  · rename_i tag l target rest
    split at h
    · rename_i hc
      refine ⟨tag, _, rfl, ?_, ?_⟩
      · simp [assignTags] at hc
        rcases hc with rfl | rfl | rfl | rfl | rfl | rfl | rfl | rfl | rfl | rfl | rfl <;> decide
      · simp [assignTags] at hc
        rcases hc with rfl | rfl | rfl | rfl | rfl | rfl | rfl | rfl | rfl | rfl | rfl <;> decide
    · simp at h
  · simp at h

theorem mem_assignedBases (body : T) (name : String) : name ∈ assignedBases body ↔ AssignedIn body name := by
  unfold assignedBases AssignedIn
  exact mem_extract_filterMap' assignTargets assignedBase body name assignedBase_kind

/-- **C08, memory_to_calldata (exact).** A location is reported iff it is the `memory` keyword of a
named `memory` parameter (as collected by `memoryArgs`) of a function definition — contract-level or
free — that is not a constructor and has a body in which that parameter is never assigned, directly
or through an index chain, by a plain or compound assignment. -/
theorem memoryToCalldata_exact (f : T) (l : Loc) :
    l ∈ memoryToCalldata f ↔
      ∃ g ∈ allNodes f, ∃ fields body, functionDefinitionFields g = some fields ∧ isConstructor fields = false ∧
        fnBody fields = some body ∧ ∃ e ∈ memoryArgs fields, ¬ AssignedIn body e.1 ∧ Loc.ofT e.2 = some l := by
  unfold memoryToCalldata
  rw [mem_extract_flatMap]
  · constructor
    · rintro ⟨g, hg, hl⟩
      cases hf : functionDefinitionFields g with
      | none => simp [hf] at hl
      | some fields =>
        simp only [hf] at hl
        split at hl
        · simp at hl
        · rename_i hc
          cases hb : fnBody fields with
          | none => simp [hb] at hl
          | some body =>
            simp only [hb, List.mem_filterMap] at hl
            obtain ⟨e, he, hloc⟩ := hl
            rw [mem_foldl_assocRemove] at he
            exact ⟨g, hg, fields, body, hf, by simpa using hc, hb, e, he.1,
              fun ha => he.2 ((mem_assignedBases body e.1).2 ha), hloc⟩
    · rintro ⟨g, hg, fields, body, hf, hc, hb, e, he, hna, hloc⟩
      refine ⟨g, hg, ?_⟩
      simp only [hf, hc, Bool.false_eq_true, if_false, hb, List.mem_filterMap]
      refine ⟨e, ?_, hloc⟩
      rw [mem_foldl_assocRemove]
      exact ⟨he, fun hm => hna ((mem_assignedBases body e.1).1 hm)⟩
  · intro g l hl
    cases hf : functionDefinitionFields g with
    | none => simp [hf] at hl
    | some fields =>
      unfold functionDefinitionFields at hf
      split at hf
      · exact ⟨_, _, rfl, by decide, by decide⟩
      · exact ⟨_, _, rfl, by decide, by decide⟩
      · simp at hf

/-- never a parameter the body assigns, never a constructor parameter -/
theorem memoryToCalldata_sound (f : T) (l : Loc) (h : l ∈ memoryToCalldata f) :
    ∃ g ∈ allNodes f, ∃ fields body, functionDefinitionFields g = some fields ∧ isConstructor fields = false ∧
      fnBody fields = some body ∧ ∃ e ∈ memoryArgs fields, ¬ AssignedIn body e.1 ∧ Loc.ofT e.2 = some l :=
  (memoryToCalldata_exact f l).1 h

end Solstat
