import Solstat.Props.C17
import Mathlib.SetTheory.Cardinal.Arithmetic
/-!
# C17: from the token map of one re-layout to a permutation of all locations

The correspondence check evaluates, per sample, a relocation `ρ` built from the token offsets of the two
layouts; it is injective on the finitely many locations of the tree (checked per sample).  The equivariance
theorems of `Solstat.Props.C17` speak about permutations of *all* locations.  This file closes the gap: a map
that is injective on a finite set of locations agrees there with a permutation (`Loc` is infinite), and
relocations that agree on the locations of a tree relocate it to the same tree (`mapLoc_congr`).
(Mathlib is imported here only; the model and the driver do not depend on this file.)
-/
namespace Solstat
open Solstat.Gen T

theorem loc_infinite : Infinite Loc :=
  Infinite.of_injective (fun n : Nat => (⟨0, n, 0⟩ : Loc)) (fun a b h => by simpa using congrArg Loc.start h)

theorem extend_to_perm (S : List Loc) (ρ : Loc → Loc) (hinj : ∀ a ∈ S, ∀ b ∈ S, ρ a = ρ b → a = b) :
    ∃ π : LocPerm, ∀ l ∈ S, π.to l = ρ l := by
  haveI := loc_infinite
  let s : Set Loc := {l | l ∈ S}
  have hs : s.Finite := List.finite_toSet S
  let f : s ↪ Loc := ⟨fun x => ρ x.1, fun a b h => Subtype.ext (hinj a.1 a.2 b.1 b.2 h)⟩
  have hlt : Cardinal.mk s < Cardinal.mk Loc :=
    lt_of_lt_of_le (Cardinal.lt_aleph0_iff_set_finite.mpr hs) (Cardinal.aleph0_le_mk Loc)
  obtain ⟨g, hg⟩ := Cardinal.extend_function_of_lt f hlt ⟨Equiv.refl Loc⟩
  exact ⟨⟨g, g.symm, g.symm_apply_apply, g.apply_symm_apply⟩, fun l hl => hg ⟨l, hl⟩⟩

/-- **C17, as evaluated on a sample.**  `ρ` is any map of locations (the one the token offsets of the two
layouts induce) that is injective on the locations of the tree `f`; then for every equivariant detector the
findings on the relocated tree are the relocated findings: there is a permutation `π` agreeing with `ρ` on
every location of `f` such that `d (mapLoc ρ f) = (d f).map π`. -/
theorem C17_sample (d : T → List Loc) (hd : Equivariant d) (f : T) (ρ : Loc → Loc)
    (hinj : ∀ a ∈ locsOf f, ∀ b ∈ locsOf f, ρ a = ρ b → a = b) :
    ∃ π : LocPerm, (∀ l ∈ locsOf f, π.to l = ρ l) ∧ d (mapLoc ρ f) = (d f).map π.to := by
  obtain ⟨π, hπ⟩ := extend_to_perm (locsOf f) ρ hinj
  refine ⟨π, hπ, ?_⟩
  rw [mapLoc_congr ρ π.to f (fun l hl => (hπ l hl).symm)]
  exact hd π f

end Solstat
