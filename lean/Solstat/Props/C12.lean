import Solstat.Props.C13
/-!
# C12 — report totals and headings agree with the findings shown
-/
namespace Solstat

variable {P : Type} [DecidableEq P]

def isEntry : Line → Bool
  | .entry _ _ => true
  | .text _ => false

/-- number of `file:line` entries among some lines -/
def entryCount (ls : List Line) : Nat := (ls.filter isEntry).length

theorem entryCount_append (a b : List Line) : entryCount (a ++ b) = entryCount a + entryCount b := by
  simp [entryCount, List.filter_append]

theorem entryCount_text (ss : List String) : entryCount (ss.map Line.text) = 0 := by
  induction ss with
  | nil => rfl
  | cons s ss ih => simp [entryCount, isEntry, List.filter_cons] at ih ⊢

theorem entryCount_entryLines (files : Files) : entryCount (entryLines files) = countEntries files := by
  induction files with
  | nil => rfl
  | cons f fs ih =>
    simp only [entryLines, List.flatMap_cons, countEntries, List.map_cons, List.sum_cons] at ih ⊢
    rw [entryCount_append, ih]
    congr 1
    generalize f.2 = ls
    induction ls with
    | nil => rfl
    | cons l ls ih2 => simp [entryCount, isEntry, List.filter_cons] at ih2 ⊢; exact ih2

theorem entryCount_sectionBlock (c : Category P) (p : P) (files : Files) :
    entryCount (sectionBlock c p files) = countEntries files := by
  unfold sectionBlock
  simp only [entryCount_append, entryCount_text, entryCount_entryLines]
  simp [entryCount, isEntry, List.filter_cons]

theorem entryCount_blocksOf (c : Category P) (G : Findings P) :
    entryCount (G.flatMap fun e => if e.2.isEmpty then [] else sectionBlock c e.1 e.2) = totalEntries G := by
  induction G with
  | nil => rfl
  | cons e es ih =>
    simp only [List.flatMap_cons, entryCount_append, ih, totalEntries, List.map_cons, List.sum_cons]
    congr 1
    by_cases h : e.2.isEmpty = true
    · have : e.2 = [] := by simpa using h
      simp [h, this, entryCount, countEntries]
    · simp only [h, if_false]; exact entryCount_sectionBlock c e.1 e.2

theorem totalEntries_normFiles (F : Findings P) : totalEntries (normFiles F) = totalEntries F := by
  unfold totalEntries normFiles
  induction F with
  | nil => rfl
  | cons e es ih =>
    simp only [List.map_cons, List.sum_cons, List.map_map] at ih ⊢
    rw [ih, countEntries_perm _ _ (sortBy_perm fileLe e.2)]

/-- the entries listed for a category are as many as the findings count -/
theorem entryCount_blocks (c : Category P) (F : Findings P) : entryCount (blocks c F) = totalEntries F := by
  unfold blocks
  rw [entryCount_blocksOf, canon_eq, totalEntries_perm _ _ (sortBy_perm (entryLe c) (normFiles F)), totalEntries_normFiles]

theorem entryCount_overview (b : List String) (pre post : String) (a : List String) (n : Nat) :
    entryCount (overviewLines b pre post a n) = 0 := by
  unfold overviewLines
  simp only [entryCount_append, entryCount_text]
  simp [entryCount, isEntry, List.filter_cons]

/-- **C12 (optimisation total).** The overview of the optimisation part prints `N` where `N` is the
number of `file:line` entries listed in that part. -/
theorem opt_total (F : Findings Gen.Optimization) :
    Line.text (Gen.sec_opt_overview_linePre ++ toString (entryCount (optimizationReport optCategory F)) ++ Gen.sec_opt_overview_linePost)
      ∈ optimizationReport optCategory F := by
  have hc : entryCount (optimizationReport optCategory F) = totalEntries F := by
    unfold optimizationReport; rw [entryCount_append, entryCount_overview, entryCount_blocks]; omega
  rw [hc]
  unfold optimizationReport overviewLines
  simp

/-! vulnerabilities: the three severity parts partition the findings -/

theorem severity_cases (s : Gen.Severity) : s = .High ∨ s = .Medium ∨ s = .Low := by cases s <;> simp

theorem totalEntries_partition (F : Findings Gen.Vulnerability) :
    totalEntries F =
      totalEntries (F.filter fun e => severityOf e.1 = .High) + totalEntries (F.filter fun e => severityOf e.1 = .Medium) +
        totalEntries (F.filter fun e => severityOf e.1 = .Low) := by
  unfold totalEntries
  induction F with
  | nil => rfl
  | cons e es ih =>
    simp only [List.map_cons, List.sum_cons, List.filter_cons]
    rcases severity_cases (severityOf e.1) with h | h | h <;> simp [h, ih] <;> omega

/-- the literals the severity buffers start with are single lines ending in a line feed and equal the
literals they are compared with (regenerated from `vulnerability_report.rs`) -/
theorem heading_literals_ok :
    Gen.vulnHeadings = [("high", "## High Risk\n", "## High Risk\n"), ("medium", "## Medium Risk\n", "## Medium Risk\n"),
      ("low", "## Low Risk\n", "## Low Risk\n")] := by decide

theorem linesOfLiteral_heading :
    linesOfLiteral "## High Risk\n" = [Line.text "## High Risk"] ∧ linesOfLiteral "## Medium Risk\n" = [Line.text "## Medium Risk"] ∧
    linesOfLiteral "## Low Risk\n" = [Line.text "## Low Risk"] := by decide

theorem entryCount_severityPart (sevName : String) (sev : Gen.Severity) (F : Findings Gen.Vulnerability)
    (hs : sevName ∈ ["high", "medium", "low"]) :
    entryCount (severityPart vulnCategory sevName sev F) = totalEntries (F.filter fun e => severityOf e.1 = sev) := by
  unfold severityPart
  simp only
  have hb := entryCount_blocks vulnCategory (F.filter fun e => severityOf e.1 = sev)
  have hh : entryCount (linesOfLiteral (headingOf sevName).1) = 0 := by
    simp only [List.mem_cons, List.mem_singleton, List.not_mem_nil, or_false] at hs
    rcases hs with rfl | rfl | rfl <;> simp [headingOf, heading_literals_ok, linesOfLiteral_heading, entryCount, isEntry, List.filter_cons]
  split
  · rename_i hc
    simp only [Bool.and_eq_true] at hc
    have : blocks vulnCategory (F.filter fun e => severityOf e.1 = sev) = [] := by simpa using hc.1
    rw [this] at hb
    simp [entryCount] at hb ⊢
    exact hb
  · rw [entryCount_append, hh, hb]; omega

/-- **C12 (vulnerability total).** -/
theorem vuln_total (F : Findings Gen.Vulnerability) :
    Line.text (Gen.sec_vuln_overview_linePre ++ toString (entryCount (vulnerabilityReport vulnCategory F)) ++ Gen.sec_vuln_overview_linePost)
      ∈ vulnerabilityReport vulnCategory F := by
  have hc : entryCount (vulnerabilityReport vulnCategory F) = totalEntries F := by
    unfold vulnerabilityReport
    rw [entryCount_append, entryCount_append, entryCount_append, entryCount_overview,
      entryCount_severityPart "high" .High F (by simp), entryCount_severityPart "medium" .Medium F (by simp),
      entryCount_severityPart "low" .Low F (by simp), totalEntries_partition F]
    omega
  rw [hc]
  unfold vulnerabilityReport overviewLines
  simp

/-- **C12 (severities)**: selfdestruct high, divide-before-multiply medium, ERC20 and pragma low -/
theorem severity_table :
    severityOf .UnprotectedSelfdestruct = .High ∧ severityOf .DivideBeforeMultiply = .Medium ∧
    severityOf .UnsafeERC20Operation = .Low ∧ severityOf .FloatingPragma = .Low := by decide

/-- a block is never empty -/
theorem sectionBlock_ne_nil (c : Category P) (p : P) (files : Files) : sectionBlock c p files ≠ [] := by
  unfold sectionBlock; simp

theorem blocksOf_eq_nil (c : Category P) (G : Findings P) :
    (G.flatMap fun e => if e.2.isEmpty then [] else sectionBlock c e.1 e.2) = [] ↔ ∀ e ∈ G, e.2 = [] := by
  rw [List.flatMap_eq_nil_iff]
  constructor
  · intro h e he
    have := h e he
    by_cases hemp : e.2.isEmpty = true
    · simpa using hemp
    · simp only [hemp, if_false] at this
      exact absurd this (sectionBlock_ne_nil c e.1 e.2)
  · intro h e he
    simp [h e he]

theorem blocks_eq_nil (c : Category P) (F : Findings P) : blocks c F = [] ↔ ∀ e ∈ F, e.2 = [] := by
  unfold blocks
  rw [blocksOf_eq_nil, canon_eq]
  constructor
  · intro h e he
    have hm : (e.1, sortBy fileLe e.2) ∈ sortBy (entryLe c) (normFiles F) :=
      (sortBy_perm _ _).mem_iff.2 (by unfold normFiles; exact List.mem_map.2 ⟨e, he, rfl⟩)
    have := h _ hm
    simp only at this
    have hp := sortBy_perm fileLe e.2
    rw [this] at hp
    exact hp.symm.eq_nil
  · intro h e he
    have he' := (sortBy_perm _ _).mem_iff.1 he
    unfold normFiles at he'
    obtain ⟨x, hx, rfl⟩ := List.mem_map.1 he'
    simp [h x hx, sortBy]

/-- **C12 (headings).** A severity heading is printed iff at least one finding of that severity exists. -/
theorem heading_iff (sevName : String) (sev : Gen.Severity) (F : Findings Gen.Vulnerability)
    (hs : sevName ∈ ["high", "medium", "low"]) :
    severityPart vulnCategory sevName sev F ≠ [] ↔ ∃ e ∈ F, severityOf e.1 = sev ∧ e.2 ≠ [] := by
  unfold severityPart
  simp only
  have hinit : (headingOf sevName).1 = (headingOf sevName).2 := by
    simp only [List.mem_cons, List.mem_singleton, List.not_mem_nil, or_false] at hs
    rcases hs with rfl | rfl | rfl <;> simp [headingOf, heading_literals_ok]
  have hlit : linesOfLiteral (headingOf sevName).1 ≠ [] := by
    simp only [List.mem_cons, List.mem_singleton, List.not_mem_nil, or_false] at hs
    rcases hs with rfl | rfl | rfl <;> simp [headingOf, heading_literals_ok, linesOfLiteral_heading]
  have hb := blocks_eq_nil vulnCategory (F.filter fun e => severityOf e.1 = sev)
  constructor
  · intro h
    by_cases he : blocks vulnCategory (F.filter fun e => severityOf e.1 = sev) = []
    · simp [he, hinit] at h
    · apply Classical.byContradiction
      intro hne
      apply he
      apply hb.2
      intro e hem
      by_cases h2 : e.2 = []
      · exact h2
      · have hm := List.mem_filter.1 hem
        exact absurd ⟨e, hm.1, by simpa using hm.2, h2⟩ hne
  · rintro ⟨e, he, hsev, hne⟩
    have : blocks vulnCategory (F.filter fun e => severityOf e.1 = sev) ≠ [] := by
      intro hnil
      exact hne (hb.1 hnil e (List.mem_filter.2 ⟨he, by simpa using hsev⟩))
    have h2 : (blocks vulnCategory (F.filter fun e => severityOf e.1 = sev)).isEmpty = false := by
      cases hh : blocks vulnCategory (F.filter fun e => severityOf e.1 = sev) with
      | nil => exact absurd hh this
      | cons _ _ => rfl
    simp [h2, hlit]

/-- **C12 (category parts).** A category part is present iff that category's map has entries. -/
theorem part_iff (V : Findings Gen.Vulnerability) (O : Findings Gen.Optimization) (Q : Findings Gen.QualityAssurance) :
    fullReport vulnCategory optCategory qaCategory V O Q =
      (if V = [] then [] else vulnerabilityReport vulnCategory V ++ [Line.text "", Line.text ""]) ++
      (if O = [] then [] else optimizationReport optCategory O ++ [Line.text "", Line.text ""]) ++
      (if Q = [] then [] else qaReport qaCategory Q ++ [Line.text "", Line.text ""]) := by
  unfold fullReport
  cases V <;> cases O <;> cases Q <;> simp

end Solstat
