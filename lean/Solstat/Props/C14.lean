import Solstat.Opts
/-!
# C14 — configuration selects exactly the named patterns and the named directory
-/
namespace Solstat
open Solstat.Gen

/-! ## facts about the regenerated tables (names, defaults, dispatch), decided in the kernel -/

def accepted {P : Type} (table : List (String × P)) (name : String) : Bool := table.any (fun e => e.1 = name)

/-- every pattern name listed in the documentation and in the sample `Solstat.toml` is accepted -/
theorem documented_names_accepted :
    (docsOptNames ++ tomlOptNames).all (accepted optStrTable) = true ∧
    (docsVulnNames ++ tomlVulnNames).all (accepted vulnStrTable) = true ∧
    (docsQaNames ++ tomlQaNames).all (accepted qaStrTable) = true := by decide

/-- the documentation lists every accepted name and nothing else (so "documented" and "accepted" coincide) -/
theorem documentation_complete :
    (optStrTable.map (·.1)).all (docsOptNames.contains ·) = true ∧ (vulnStrTable.map (·.1)).all (docsVulnNames.contains ·) = true ∧
    (qaStrTable.map (·.1)).all (docsQaNames.contains ·) = true := by decide

/-- distinct names select distinct patterns: the tables are injective in both directions -/
theorem tables_injective :
    (optStrTable.map (·.1)).Nodup ∧ (optStrTable.map (·.2)).Nodup ∧ (vulnStrTable.map (·.1)).Nodup ∧ (vulnStrTable.map (·.2)).Nodup ∧
    (qaStrTable.map (·.1)).Nodup ∧ (qaStrTable.map (·.2)).Nodup := by decide

/-- every pattern that runs by default can be selected by name; the defaults are all variants, once each -/
theorem defaults_selectable :
    optDefaults.all (fun v => optStrTable.any (fun e => e.2 = v)) = true ∧
    vulnDefaults.all (fun v => vulnStrTable.any (fun e => e.2 = v)) = true ∧
    qaDefaults.all (fun v => qaStrTable.any (fun e => e.2 = v)) = true ∧
    optDefaults.Perm optAll ∧ vulnDefaults.Perm vulnAll ∧ qaDefaults.Perm qaAll := by decide

/-- the accepted names are lower-case (otherwise `to_lowercase` could never produce them) and the
lookup really lower-cases its argument -/
theorem tables_lowercase :
    (optStrTable.map (·.1)).all (fun n => asciiLower n = n) = true ∧ (vulnStrTable.map (·.1)).all (fun n => asciiLower n = n) = true ∧
    (qaStrTable.map (·.1)).all (fun n => asciiLower n = n) = true ∧ optStrLowercases = true ∧ vulnStrLowercases = true ∧
    qaStrLowercases = true := by decide

/-- `analyze_for_*` runs, for each variant, the detector that carries its name; the report section too -/
theorem dispatch_by_name :
    optDispatch = [(.AddressBalance, "address_balance_optimization"), (.AddressZero, "address_zero_optimization"),
      (.AssignUpdateArrayValue, "assign_update_array_optimization"), (.CacheArrayLength, "cache_array_length_optimization"),
      (.ConstantVariables, "constant_variable_optimization"), (.BoolEqualsBool, "bool_equals_bool_optimization"),
      (.ImmutableVarialbes, "immutable_variables_optimization"), (.IncrementDecrement, "increment_decrement_optimization"),
      (.MemoryToCalldata, "memory_to_calldata_optimization"), (.MultipleRequire, "multiple_require_optimization"),
      (.PackStorageVariables, "pack_storage_variables_optimization"), (.PackStructVariables, "pack_struct_variables_optimization"),
      (.PayableFunction, "payable_function_optimization"), (.PrivateConstant, "private_constant_optimization"),
      (.SafeMathPre080, "safe_math_pre_080_optimization"), (.SafeMathPost080, "safe_math_post_080_optimization"),
      (.ShiftMath, "shift_math_optimization"), (.SolidityKeccak256, "solidity_keccak256_optimization"),
      (.SolidityMath, "solidity_math_optimization"), (.Sstore, "sstore_optimization"), (.StringErrors, "string_error_optimization"),
      (.OptimalComparison, "optimal_comparison_optimization"), (.ShortRevertString, "short_revert_string_optimization")] ∧
    vulnDispatch = [(.FloatingPragma, "floating_pragma_vulnerability"), (.UnsafeERC20Operation, "unsafe_erc20_operation_vulnerability"),
      (.UnprotectedSelfdestruct, "unprotected_selfdestruct_vulnerability"), (.DivideBeforeMultiply, "divide_before_multiply_vulnerability")] ∧
    qaDispatch = [(.ConstructorOrder, "constructor_order_qa"), (.PrivateVarsLeadingUnderscore, "private_vars_leading_underscore"),
      (.PrivateFuncLeadingUnderscore, "private_func_leading_underscore")] := by decide

theorem names_by_name :
    optStrTable = [("address_balance", .AddressBalance), ("address_zero", .AddressZero), ("assign_update_array_value", .AssignUpdateArrayValue),
      ("cache_array_length", .CacheArrayLength), ("constant_variables", .ConstantVariables), ("bool_equals_bool", .BoolEqualsBool),
      ("immutable_variables", .ImmutableVarialbes), ("increment_decrement", .IncrementDecrement), ("memory_to_calldata", .MemoryToCalldata),
      ("multiple_require", .MultipleRequire), ("pack_storage_variables", .PackStorageVariables), ("pack_struct_variables", .PackStructVariables),
      ("payable_function", .PayableFunction), ("private_constant", .PrivateConstant), ("safe_math_pre_080", .SafeMathPre080),
      ("safe_math_post_080", .SafeMathPost080), ("shift_math", .ShiftMath), ("solidity_keccak256", .SolidityKeccak256),
      ("solidity_math", .SolidityMath), ("sstore", .Sstore), ("string_errors", .StringErrors), ("optimal_comparison", .OptimalComparison),
      ("short_revert_string", .ShortRevertString)] ∧
    vulnStrTable = [("floating_pragma", .FloatingPragma), ("unsafe_erc20_operation", .UnsafeERC20Operation),
      ("unprotected_selfdestruct", .UnprotectedSelfdestruct), ("divide_before_multiply", .DivideBeforeMultiply)] ∧
    qaStrTable = [("constructor_order", .ConstructorOrder), ("private_vars_leading_underscore", .PrivateVarsLeadingUnderscore),
      ("private_func_leading_underscore", .PrivateFuncLeadingUnderscore)] := by decide

theorem patterns_residue_empty : patternsResidue = [] := by decide

/-! ## the lookup -/

theorem charToLower_idem (c : Char) : c.toLower.toLower = c.toLower := by
  unfold Char.toLower
  by_cases h : c.val ≥ 'A'.val ∧ c.val ≤ 'Z'.val
  · simp only [h, and_self, dite_true]
    have h1 : ¬ ((c.val + ('a'.val - 'A'.val)) ≥ 'A'.val ∧ (c.val + ('a'.val - 'A'.val)) ≤ 'Z'.val) := by
      intro ⟨_, hb⟩
      have hz : c.val ≤ (90 : UInt32) := h.2
      have ha : (65 : UInt32) ≤ c.val := h.1
      have hb' : c.val + 32 ≤ (90 : UInt32) := hb
      rw [UInt32.le_iff_toNat_le] at ha hz hb'
      have h90 : c.val.toNat ≤ 90 := hz
      have h65 : 65 ≤ c.val.toNat := ha
      have e : (c.val + 32).toNat = c.val.toNat + 32 := by
        rw [UInt32.toNat_add]
        have : (32 : UInt32).toNat = 32 := rfl
        rw [this]
        exact Nat.mod_eq_of_lt (by omega)
      rw [e] at hb'
      have : (90 : UInt32).toNat = 90 := rfl
      rw [this] at hb'
      omega
    simp only [h1, dite_false]
  · simp only [h, dite_false]

theorem asciiLower_idem (s : String) : asciiLower (asciiLower s) = asciiLower s := by
  unfold asciiLower
  simp only [String.toList_ofList, List.map_map]
  congr 1
  apply List.map_congr_left
  intro c _
  exact charToLower_idem c

/-- **letter case is irrelevant**: two spellings with the same lower-casing select the same pattern (or both fail) -/
theorem strTo_case_insensitive {P : Type} (table : List (String × P)) (s t : String) (h : asciiLower s = asciiLower t) :
    strTo table s = strTo table t := by
  unfold strTo; rw [h]

/-- a name of the table, in any letter case, selects the table's pattern -/
theorem strTo_accepts {P : Type} (table : List (String × P)) (hnd : (table.map (·.1)).Nodup) (name : String) (p : P)
    (hmem : (name, p) ∈ table) (s : String) (hs : asciiLower s = name) : strTo table s = .ok p := by
  unfold strTo
  rw [hs]
  have : table.find? (fun e => e.1 = name) = some (name, p) := by
    induction table with
    | nil => cases hmem
    | cons x xs ih =>
      simp only [List.map_cons, List.nodup_cons] at hnd
      simp only [List.find?_cons]
      by_cases hx : x.1 = name
      · simp only [hx, decide_true]
        rcases List.mem_cons.1 hmem with rfl | h'
        · rfl
        · exact absurd (List.mem_map.2 ⟨(name, p), h', rfl⟩) (hx ▸ hnd.1)
      · simp only [hx, decide_false]
        rcases List.mem_cons.1 hmem with rfl | h'
        · exact absurd rfl hx
        · exact ih hnd.2 h'
  simp [this]

/-- **an unknown name fails** -/
theorem strTo_unknown {P : Type} (table : List (String × P)) (s : String) (h : asciiLower s ∉ table.map (·.1)) :
    ∃ e, strTo table s = .error e := by
  unfold strTo
  have : table.find? (fun e => e.1 = asciiLower s) = none := by
    rw [List.find?_eq_none]
    intro x hx hc
    exact h (List.mem_map.2 ⟨x, hx, by simpa using hc⟩)
  simp [this]

theorem mapNames_ok {P : Type} (table : List (String × P)) : ∀ (names : List String) (ps : List P),
    mapNames table names = .ok ps ↔ names.map (strTo table) = ps.map Except.ok
  | [], ps => by cases ps <;> simp [mapNames]
  | n :: ns, ps => by
    unfold mapNames
    cases hn : strTo table n with
    | error e => cases ps <;> simp [hn]
    | ok p =>
      cases hr : mapNames table ns with
      | error e =>
        cases ps with
        | nil => simp
        | cons q qs =>
          simp only [List.map_cons, List.cons.injEq, hn]
          constructor
          · intro h; cases h
          · rintro ⟨_, h2⟩
            have := (mapNames_ok table ns qs).2 h2
            rw [hr] at this; cases this
      | ok rs =>
        have ih := mapNames_ok table ns
        cases ps with
        | nil => simp
        | cons q qs =>
          simp only [List.map_cons, List.cons.injEq, hn, Except.ok.injEq]
          constructor
          · rintro ⟨rfl, rfl⟩; exact ⟨rfl, (ih rs).1 hr⟩
          · rintro ⟨rfl, h2⟩
            have := (ih qs).2 h2
            rw [hr] at this
            cases this; exact ⟨rfl, rfl⟩

/-! ## resolution -/

/-- **with a configuration file exactly the listed patterns are analysed, in the listed order;
without one all patterns are** -/
theorem resolve_patterns (args : CliArgs) (ce : Bool) (o : Opts) (h : resolve args ce = .ok o) :
    match args.toml with
    | some t =>
      t.optimizations.map (strTo optStrTable) = o.optimizations.map Except.ok ∧
      t.vulnerabilities.map (strTo vulnStrTable) = o.vulnerabilities.map Except.ok ∧
      t.qa.map (strTo qaStrTable) = o.qa.map Except.ok
    | none => o.optimizations = optDefaults ∧ o.vulnerabilities = vulnDefaults ∧ o.qa = qaDefaults := by
  unfold resolve at h
  cases ht : args.toml with
  | none =>
    simp only [ht] at h ⊢
    cases hp : args.path with
    | some p => simp only [hp, Except.ok.injEq] at h; subst h; exact ⟨rfl, rfl, rfl⟩
    | none =>
      simp only [hp] at h
      split at h
      · simp only [Except.ok.injEq] at h; subst h; exact ⟨rfl, rfl, rfl⟩
      · cases h
  | some t =>
    simp only [ht] at h ⊢
    cases h1 : mapNames optStrTable t.optimizations with
    | error e => simp [h1] at h
    | ok os =>
      cases h2 : mapNames vulnStrTable t.vulnerabilities with
      | error e => simp [h1, h2] at h
      | ok vs =>
        cases h3 : mapNames qaStrTable t.qa with
        | error e => simp [h1, h2, h3] at h
        | ok qs =>
          simp only [h1, h2, h3] at h
          have key : o.optimizations = os ∧ o.vulnerabilities = vs ∧ o.qa = qs := by
            cases hp : args.path with
            | some p => simp only [hp, Except.ok.injEq] at h; subst h; exact ⟨rfl, rfl, rfl⟩
            | none =>
              simp only [hp] at h
              cases htp : t.path with
              | some p => simp only [htp, Except.ok.injEq] at h; subst h; exact ⟨rfl, rfl, rfl⟩
              | none =>
                simp only [htp] at h
                split at h
                · simp only [Except.ok.injEq] at h; subst h; exact ⟨rfl, rfl, rfl⟩
                · cases h
          rw [key.1, key.2.1, key.2.2]
          exact ⟨(mapNames_ok _ _ _).1 h1, (mapNames_ok _ _ _).1 h2, (mapNames_ok _ _ _).1 h3⟩

/-- **the directory analysed**: `--path` if given, otherwise the configuration file's `path`,
otherwise `./contracts` -/
theorem resolve_path (args : CliArgs) (ce : Bool) (o : Opts) (h : resolve args ce = .ok o) :
    o.path = match args.path with
      | some p => p
      | none => match args.toml.bind (·.path) with
        | some p => p
        | none => "./contracts" := by
  unfold resolve at h
  cases ht : args.toml with
  | none =>
    simp only [ht] at h
    cases hp : args.path with
    | some p => simp only [hp, Except.ok.injEq] at h; subst h; rfl
    | none =>
      simp only [hp] at h
      split at h
      · simp only [Except.ok.injEq] at h; subst h; rfl
      · cases h
  | some t =>
    simp only [ht] at h
    cases h1 : mapNames optStrTable t.optimizations with
    | error e => simp [h1] at h
    | ok os =>
      cases h2 : mapNames vulnStrTable t.vulnerabilities with
      | error e => simp [h1, h2] at h
      | ok vs =>
        cases h3 : mapNames qaStrTable t.qa with
        | error e => simp [h1, h2, h3] at h
        | ok qs =>
          simp only [h1, h2, h3] at h
          cases hp : args.path with
          | some p => simp only [hp, Except.ok.injEq] at h; subst h; rfl
          | none =>
            simp only [hp] at h
            cases htp : t.path with
            | some p => simp only [htp, Except.ok.injEq] at h; subst h; simp [htp]
            | none =>
              simp only [htp] at h
              split at h
              · simp only [Except.ok.injEq] at h; subst h; simp [htp]
              · cases h

/-- **an unknown name makes the run fail before anything else happens**: resolution fails whatever
the other options are -/
theorem unknown_name_fails (args : CliArgs) (ce : Bool) (t : TomlCfg) (ht : args.toml = some t)
    (name : String)
    (hbad : (name ∈ t.optimizations ∧ asciiLower name ∉ optStrTable.map (·.1)) ∨
            (name ∈ t.vulnerabilities ∧ asciiLower name ∉ vulnStrTable.map (·.1)) ∨
            (name ∈ t.qa ∧ asciiLower name ∉ qaStrTable.map (·.1))) :
    ∃ e, resolve args ce = .error e := by
  cases hr : resolve args ce with
  | error e => exact ⟨e, rfl⟩
  | ok o =>
    exfalso
    have := resolve_patterns args ce o hr
    simp only [ht] at this
    obtain ⟨h1, h2, h3⟩ := this
    have bad : ∀ {P : Type} (table : List (String × P)) (names : List String) (ps : List P),
        names.map (strTo table) = ps.map Except.ok → name ∈ names → asciiLower name ∉ table.map (·.1) → False := by
      intro P table names ps heq hmem hno
      obtain ⟨e, he⟩ := strTo_unknown table name hno
      have : strTo table name ∈ names.map (strTo table) := List.mem_map.2 ⟨name, hmem, rfl⟩
      rw [heq, he] at this
      simp at this
    rcases hbad with ⟨hm, hn⟩ | ⟨hm, hn⟩ | ⟨hm, hn⟩
    · exact bad _ _ _ h1 hm hn
    · exact bad _ _ _ h2 hm hn
    · exact bad _ _ _ h3 hm hn

end Solstat
