import Solstat.Props.C19c
import Solstat.Props.C08
/-!
# C19, continued: immutable_variables composes

Under the property's hypotheses (state-variable names unique within the file; no item assigns in a constructor,
or writes outside constructors, to a state variable of another item) the suggestions for a file are the union
of the suggestions for the file reduced to the pragmas and one item.
-/
namespace Solstat
open Solstat.Gen T

/-- a member of a map built by successive inserts is one of the inserted entries (or was there before) -/
theorem mem_foldl_assocInsert_sub {β : Type} : ∀ (es m : List (String × β)) (x : String × β),
    x ∈ es.foldl (fun m e => assocInsert m e.1 e.2) m → x ∈ m ∨ x ∈ es
  | [], m, x, h => Or.inl h
  | e :: es, m, x, h => by
    simp only [List.foldl] at h
    rcases mem_foldl_assocInsert_sub es _ x h with h1 | h1
    · rcases (mem_assocInsert m e.1 e.2 x).1 h1 with ⟨h2, _⟩ | rfl
      · exact Or.inl h2
      · exact Or.inr (by simp)
    · exact Or.inr (by simp [h1])

/-- with nodup keys, looking a key up finds exactly the entry -/
theorem assocGet_iff_mem {β : Type} (m : List (String × β)) (hnd : (keys m).Nodup) (k : String) (v : β) :
    assocGet m k = some v ↔ (k, v) ∈ m := by
  constructor
  · intro h
    unfold assocGet at h
    cases hf : m.find? (fun e => e.1 = k) with
    | none => simp [hf] at h
    | some e =>
      simp only [hf, Option.map_some, Option.some.injEq] at h
      have hm := List.mem_of_find?_eq_some hf
      have hk := List.find?_some hf
      simp only [decide_eq_true_eq] at hk
      rw [← h, ← hk]; exact hm
  · exact assocGet_eq_of_mem m k v hnd

/-- the entries a file's constructors contribute -/
def ctorEntries (su : T) : List (String × T) :=
  (constructorAssigns su).filterMap (ctorAssignEntry (storageVarTable true true su))

theorem mem_immutableVariables (su : T) (l : Loc) :
    l ∈ immutableVariables su ↔ ∃ y ∈ ctorEntries su, y.1 ∉ writtenOutsideConstructors su ∧ Loc.ofT y.2 = some l := by
  unfold immutableVariables
  simp only [List.mem_filterMap]
  -- every inserted value is a function of its key (the table's type location)
  have hfun : ∀ y ∈ ctorEntries su, ∀ z ∈ ctorEntries su, y.1 = z.1 → y.2 = z.2 := by
    intro y hy z hz hk
    unfold ctorEntries at hy hz
    rw [List.mem_filterMap] at hy hz
    obtain ⟨n1, _, h1⟩ := hy
    obtain ⟨n2, _, h2⟩ := hz
    obtain ⟨_, _, _, _, _, _, a1, g1⟩ := ctorAssignEntry_some _ n1 y.1 y.2 h1
    obtain ⟨_, _, _, _, _, _, a2, g2⟩ := ctorAssignEntry_some _ n2 z.1 z.2 h2
    rw [hk] at g1
    rw [g1] at g2
    simp only [Option.some.injEq, Prod.mk.injEq] at g2
    exact g2.2
  constructor
  · rintro ⟨e, he, hl⟩
    rw [mem_foldl_assocRemove] at he
    obtain ⟨hpot, hnw⟩ := he
    unfold assignedInConstructor at hpot
    rcases mem_foldl_assocInsert_sub _ [] e hpot with h | h
    · cases h
    · exact ⟨e, h, hnw, hl⟩
  · rintro ⟨y, hy, hnw, hl⟩
    refine ⟨y, ?_, hl⟩
    rw [mem_foldl_assocRemove]
    refine ⟨?_, hnw⟩
    unfold assignedInConstructor
    let g : String → T := fun k => match (ctorEntries su).find? (fun z => z.1 = k) with
      | some z => z.2
      | none => y.2
    have hg : ∀ z ∈ ctorEntries su, z.2 = g z.1 := by
      intro z hz
      simp only [g]
      cases hf : (ctorEntries su).find? (fun w => w.1 = z.1) with
      | none =>
        have := List.find?_eq_none.1 hf z hz
        simp at this
      | some w =>
        have hw := List.mem_of_find?_eq_some hf
        have hk := List.find?_some hf
        simp only [decide_eq_true_eq] at hk
        exact (hfun w hw z hz hk).symm
    have := mem_foldl_assocInsert_fun g (ctorEntries su) [] hg (by simp) y.1
      (Or.inr (by simp only [keys, List.mem_map]; exact ⟨y, hy, rfl⟩))
    rw [← hg y hy] at this
    exact this

theorem constructorAssigns_parts (parts : List T) : constructorAssigns (mkSourceUnit parts) = parts.flatMap constructorAssigns := by
  unfold constructorAssigns
  rw [contracts_sourceUnit]
  induction parts with
  | nil => rfl
  | cons p ps ih => simp only [List.flatMap_cons, List.flatMap_append, ih]

theorem writtenOutsideConstructors_parts (parts : List T) :
    writtenOutsideConstructors (mkSourceUnit parts) = parts.flatMap writtenOutsideConstructors := by
  unfold writtenOutsideConstructors
  rw [contracts_sourceUnit]
  induction parts with
  | nil => rfl
  | cons p ps ih => simp only [List.flatMap_cons, List.flatMap_append, ih]

/-- the name a constructor assignment targets (whatever the table) -/
theorem ctorAssignEntry_name (table : List (String × List T × T)) (n : T) (y : String × T) (h : ctorAssignEntry table n = some y) :
    assignLhsName n = some y.1 := by
  obtain ⟨loc, lhs, rhs, rfl, hv, _, _⟩ := ctorAssignEntry_some table n y.1 y.2 h
  simp [assignLhsName, hv]

/-- the entry depends on the table only through the looked-up name -/
theorem ctorAssignEntry_congr (t1 t2 : List (String × List T × T)) (n : T) (v : String) (hv : assignLhsName n = some v)
    (hg : (assocGet t1 v).map (·.2) = (assocGet t2 v).map (·.2)) : ctorAssignEntry t1 n = ctorAssignEntry t2 n := by
  unfold ctorAssignEntry
  unfold assignLhsName at hv
  split
  · rename_i x lhs rhs
    simp only at hv
    split
    · rfl
    · simp only [hv]
      cases h1 : assocGet t1 v with
      | none =>
        cases h2 : assocGet t2 v with
        | none => rfl
        | some b => simp [h1, h2] at hg
      | some a =>
        cases h2 : assocGet t2 v with
        | none => simp [h1, h2] at hg
        | some b =>
          simp only [h1, h2, Option.map_some, Option.some.injEq] at hg
          simp [hg]
  · rfl

/-- **immutable_variables composes** over the top-level items -/
theorem immutableVariables_composes (parts : List T)
    (hnd : (keys (storageVarEntries true true (mkSourceUnit parts))).Nodup)
    (hctor : ∀ p ∈ parts, ∀ q ∈ parts, p ≠ q → ∀ n ∈ constructorAssigns p, ∀ v, assignLhsName n = some v →
      v ∉ keys (storageVarEntries true true q))
    (hwoc : ∀ p ∈ parts, ∀ q ∈ parts, p ≠ q → ∀ v ∈ keys (storageVarEntries true true p), v ∉ writtenOutsideConstructors q)
    (l : Loc) :
    l ∈ immutableVariables (mkSourceUnit parts) ↔ ∃ i, i < parts.length ∧ l ∈ immutableVariables (mkSourceUnit (keep i parts)) := by
  -- the looked-up type location of a name assigned in a constructor of item `p` is the same in the whole file and
  -- in any reduced file that still contains `p`
  have hndk : ∀ ps : List T, ps.Sublist parts → (keys (storageVarEntries true true (mkSourceUnit ps))).Nodup := by
    intro ps hs
    rw [storageVarEntries_parts] at hnd ⊢
    unfold keys at hnd ⊢
    exact List.Nodup.sublist (List.Sublist.map _ (sublist_flatMap _ hs)) hnd
  have hget : ∀ (ps : List T), ps.Sublist parts → ∀ p ∈ ps, ∀ n ∈ constructorAssigns p, ∀ v, assignLhsName n = some v →
      assocGet (storageVarTable true true (mkSourceUnit ps)) v = assocGet (storageVarTable true true (mkSourceUnit [p])) v := by
    intro ps hs p hp n hn v hv
    have hps : ∀ q ∈ ps, q ∈ parts := fun q hq => hs.subset hq
    have h1 := hndk ps hs
    have h2 := hndk [p] (List.singleton_sublist.2 (hps p hp))
    have t1 : (keys (storageVarTable true true (mkSourceUnit ps))).Nodup := by
      unfold storageVarTable; exact keys_foldl_assocInsert_nodup _ [] (by simp [keys])
    have t2 : (keys (storageVarTable true true (mkSourceUnit [p]))).Nodup := by
      unfold storageVarTable; exact keys_foldl_assocInsert_nodup _ [] (by simp [keys])
    apply Option.ext
    intro x
    rw [assocGet_iff_mem _ t1, assocGet_iff_mem _ t2, mem_storageVarTable true true _ h1, mem_storageVarTable true true _ h2]
    unfold StateVars
    rw [storageVarEntries_parts, storageVarEntries_parts]
    simp only [List.mem_flatMap, List.mem_singleton, exists_eq_left]
    constructor
    · rintro ⟨q, hq, hx⟩
      by_cases hpq : p = q
      · subst hpq; exact hx
      · exact absurd (by simp only [keys, List.mem_map]; exact ⟨(v, x), hx, rfl⟩) (hctor p (hps p hp) q (hps q hq) hpq n hn v hv)
    · intro hx; exact ⟨p, hp, hx⟩
  -- membership, per list of parts that is a sub-list of the file
  have hmem : ∀ ps : List T, ps.Sublist parts → (l ∈ immutableVariables (mkSourceUnit ps) ↔
      ∃ p ∈ ps, ∃ n ∈ constructorAssigns p, ∃ y, ctorAssignEntry (storageVarTable true true (mkSourceUnit [p])) n = some y ∧
        (∀ q ∈ ps, y.1 ∉ writtenOutsideConstructors q) ∧ Loc.ofT y.2 = some l) := by
    intro ps hs
    rw [mem_immutableVariables]
    unfold ctorEntries
    simp only [List.mem_filterMap, constructorAssigns_parts, writtenOutsideConstructors_parts, List.mem_flatMap, not_exists, not_and]
    constructor
    · rintro ⟨y, ⟨n, ⟨p, hp, hn⟩, hy⟩, hw, hl⟩
      have hv := ctorAssignEntry_name _ n y hy
      have := ctorAssignEntry_congr (storageVarTable true true (mkSourceUnit ps)) (storageVarTable true true (mkSourceUnit [p])) n y.1 hv
        (by rw [hget ps hs p hp n hn y.1 hv])
      have hy' : ctorAssignEntry (storageVarTable true true (mkSourceUnit [p])) n = some y := by rw [← this]; exact hy
      exact ⟨p, hp, n, hn, y, hy', hw, hl⟩
    · rintro ⟨p, hp, n, hn, y, hy, hw, hl⟩
      have hv := ctorAssignEntry_name _ n y hy
      have := ctorAssignEntry_congr (storageVarTable true true (mkSourceUnit ps)) (storageVarTable true true (mkSourceUnit [p])) n y.1 hv
        (by rw [hget ps hs p hp n hn y.1 hv])
      have hy' : ctorAssignEntry (storageVarTable true true (mkSourceUnit ps)) n = some y := by rw [this]; exact hy
      exact ⟨y, ⟨n, ⟨p, hp, hn⟩, hy'⟩, hw, hl⟩
  rw [hmem parts (List.Sublist.refl _)]
  constructor
  · rintro ⟨p, hp, n, hn, y, hy, hw, hl⟩
    obtain ⟨i, hi, rfl⟩ := List.getElem_of_mem hp
    exact ⟨i, hi, (hmem _ (keep_sublist i parts)).2
      ⟨parts[i], getElem_mem_keep parts i hi, n, hn, y, hy, fun q hq => hw q (mem_keep hq), hl⟩⟩
  · rintro ⟨i, _, h⟩
    obtain ⟨p, hp, n, hn, y, hy, hw, hl⟩ := (hmem _ (keep_sublist i parts)).1 h
    refine ⟨p, mem_keep hp, n, hn, y, hy, ?_, hl⟩
    intro q hq
    by_cases hpq : p = q
    · subst hpq; exact hw p hp
    · -- `y.1` is a state variable of `p` (its entry was found in p's table)
      obtain ⟨_, _, _, _, _, _, attrs, hg⟩ := ctorAssignEntry_some _ n y.1 y.2 hy
      have hk : y.1 ∈ keys (storageVarEntries true true p) := by
        have t2 : (keys (storageVarTable true true (mkSourceUnit [p]))).Nodup := by
          unfold storageVarTable; exact keys_foldl_assocInsert_nodup _ [] (by simp [keys])
        have hm := (assocGet_iff_mem _ t2 y.1 (attrs, y.2)).1 hg
        have hkk : y.1 ∈ keys (storageVarTable true true (mkSourceUnit [p])) := by
          simp only [keys, List.mem_map]; exact ⟨_, hm, rfl⟩
        rw [keys_storageVarTable] at hkk
        unfold StateVars at hkk
        rw [storageVarEntries_parts] at hkk
        simpa using hkk
      exact hwoc p (mem_keep hp) q hq hpq y.1 hk

end Solstat
