import Solstat.Walk
/-!
# C01 — a pattern is found wherever it is nested in the source

`extract targets root` (the model of `extract_targets_from_node`) returns exactly the nodes of the
requested kinds among all sub-terms of `root` outside inline assembly: each once, in source
(pre-)order, nothing else.
-/
namespace Solstat
open Solstat.Gen T

theorem not_node_ne_assembly {tag : Tag} (h : isNodeTag tag = false) : tag ≠ .Statement_Assembly := by
  intro e; subst e; simp [isNodeTag] at h

mutual
/-- with no blocked edge the walker is the filter over all sub-terms outside assembly -/
theorem walkT_nil (ts : Tag → Bool) : ∀ (ctx : CtxPath) (t : T),
    walkT [] ts ctx t = (subtreesNoAsm t).filter (fun n => n.isNode && hasKind ts n)
  | ctx, .node tag kids => by
    unfold walkT subtreesNoAsm
    by_cases hn : isNodeTag tag = true
    · by_cases ha : tag = .Statement_Assembly
      · by_cases ht : ts tag = true <;> simp [hn, ha, ht, T.isNode, hasKind, List.filter_cons]
        all_goals (subst ha; simp_all)
      · by_cases ht : ts tag = true <;>
          simp [hn, ha, ht, T.isNode, hasKind, List.filter_cons, walkL_nil ts [] tag 0 kids]
    · have hn' : isNodeTag tag = false := by simpa using hn
      have ha := not_node_ne_assembly hn'
      simp [hn', ha, T.isNode, hasKind, List.filter_cons, walkL_nil ts ctx tag 0 kids]
  | _, .str _ => by simp [walkT, subtreesNoAsm, T.isNode]
  | _, .nat _ => by simp [walkT, subtreesNoAsm, T.isNode]
  | _, .bool _ => by simp [walkT, subtreesNoAsm, T.isNode]
theorem walkL_nil (ts : Tag → Bool) : ∀ (ctx : CtxPath) (tag : Tag) (i : Nat) (ks : List T),
    walkL [] ts ctx tag i ks = (subtreesNoAsmL ks).filter (fun n => n.isNode && hasKind ts n)
  | _, _, _, [] => by simp [walkL, subtreesNoAsmL]
  | ctx, tag, i, k :: ks => by
    simp [walkL, subtreesNoAsmL, List.filter_append,
      walkT_nil ts ((tag, normIdx tag i) :: ctx) k, walkL_nil ts ctx tag (i + 1) ks]
end

/-- Obligations on the regenerated walker table: every syntactic edge is visited, once, in
declaration order, and the translator understood every arm. -/
theorem blocked_empty : Gen.blocked = [] := by decide +kernel
theorem extra_empty : Gen.extraVisited = [] := by decide +kernel
theorem visited_nodup : Gen.visitedNodup = true := by decide +kernel
theorem order_ok : Gen.orderOk = true := by decide +kernel
theorem walk_residue_empty : Gen.walkResidue = [] := by decide
theorem walk_preamble_ok : Gen.walkPreambleOk = true := by decide
theorem schema_ok : Gen.schemaProblems = [] := by decide
theorem assembly_leaf : Gen.assemblyLeaf = true := by decide +kernel

/-- The code's kind tables are name identity. -/
theorem kinds_by_name : ∀ tag ∈ nodeTags, kindOf tag = specKind tag := by decide +kernel
theorem node_tags_complete : ∀ tag, isNodeTag tag = true ↔ tag ∈ nodeTags := by
  intro tag; cases tag <;> decide
theorem targets_residue_empty : Gen.targetsResidue = [] := by decide

/-- **C01.** For every root and every set of kinds the walker of the current tree returns exactly
the nodes of those kinds anywhere below the root outside inline assembly, each once, in source order. -/
theorem C01 (targets : List Target) (root : T) :
    extract targets root =
      (allNodes root).filter (fun n => hasKind (fun tag => targets.contains (specKind tag)) n) := by
  unfold extract extractTargets allNodes
  rw [blocked_empty, walkT_nil, List.filter_filter]
  apply List.filter_congr
  intro n _
  cases n with
  | node tag kids =>
    by_cases hn : isNodeTag tag = true
    · have := kinds_by_name tag ((node_tags_complete tag).1 hn)
      simp [T.isNode, hasKind, hn, this]
    · simp [T.isNode, hasKind, hn]
  | _ => simp [T.isNode, hasKind]

/-- searching for one kind is searching for the singleton set; duplicates in the list are irrelevant -/
theorem single_is_multi (t : Target) (root : T) :
    extractTarget Gen.blocked t root = extract [t] root := rfl

theorem targets_as_set (ts₁ ts₂ : List Target) (h : ∀ t, t ∈ ts₁ ↔ t ∈ ts₂) (root : T) :
    extract ts₁ root = extract ts₂ root := by
  rw [C01, C01]
  apply List.filter_congr
  intro n _
  cases n with
  | node tag kids =>
    simp only [hasKind]
    have := h (specKind tag)
    by_cases h1 : specKind tag ∈ ts₁
    · have h2 := this.1 h1; simp [h1, h2]
    · have h2 : specKind tag ∉ ts₂ := fun x => h1 (this.2 x)
      simp [h1, h2]
  | _ => rfl

/-- every returned term is a node of a requested kind (used by the detectors' `unwrap`s) -/
theorem extract_mem (targets : List Target) (root n : T) (h : n ∈ extract targets root) :
    n ∈ allNodes root ∧ ∃ tag kids, n = .node tag kids ∧ isNodeTag tag = true ∧ specKind tag ∈ targets := by
  rw [C01] at h
  have ⟨h1, h2⟩ := List.mem_filter.1 h
  refine ⟨h1, ?_⟩
  cases n with
  | node tag kids =>
    refine ⟨tag, kids, rfl, ?_, ?_⟩
    · have := (List.mem_filter.1 h1).2; simpa [T.isNode] using this
    · simpa [hasKind] using h2
  | _ => simp [hasKind] at h2

/-- nothing below an inline-assembly statement is ever returned: the assembly statement contributes
only itself to `allNodes` -/
theorem assembly_opaque (kids : List T) :
    allNodes (.node .Statement_Assembly kids) = [.node .Statement_Assembly kids] := by
  simp [allNodes, subtreesNoAsm, T.isNode, isNodeTag]

/-- non-vacuity: a `**` with a `>=` inside its right operand; the inner comparison is found -/
example :
    let ge := T.node .Expression_MoreEqual [Loc.toT ⟨0, 5, 11⟩, .node .Expression_Variable [], .node .Expression_Variable []]
    let pw := T.node .Expression_Power [Loc.toT ⟨0, 0, 12⟩, .node .Expression_Variable [], ge]
    (allNodes pw).filter (hasKind (fun tag => [Target.MoreEqual].contains (specKind tag))) = [ge] := by
  decide

end Solstat
