import Solstat.Props.C08
import Solstat.Props.C04Sites
import Solstat.Gen.Inventory
/-!
# C04 — analysis never aborts on a file the parser accepts

The Lean model is made of total functions; where the Rust code would panic the model has a
silently skipped branch.  This file shows those branches are dead on well-formed trees, and keeps
an account of *every* panic-capable site of the current sources (regenerated inventory).
-/
namespace Solstat
open Solstat.Gen T View

/-! ## every fallible site of the current source is accounted for -/

/-- for every area of the crate (`src/analyzer`, `src/report`, `src`) and every kind of fallible operation (`unwrap`, `expect`, index, `panic!`, arithmetic), the
regenerated inventory has at most as many sites as the reviewed classification accounts for: a new fallible site
anywhere in the non-test code breaks this; a site that moved into a helper function or another file of the same area, or that
disappeared, does not (`as` conversions and `str::parse` cannot abort and are listed separately) -/
theorem panic_sites_accounted :
    Gen.panicSiteCounts.all (fun e => accountedCounts.any (fun a => a.1 = e.1 && a.2.1 = e.2.1 && e.2.2 ≤ a.2.2)) = true := by
  decide +kernel
theorem inventory_residue_empty : Gen.inventoryResidue = [] := by decide

/-! ## `node.expression().unwrap()` and friends: walker results have the requested outer kind -/

/-- every node kind named by `ts` belongs to the `pt` enum `owner` -/
def ownerIs (owner : String) (ts : List Target) : Bool :=
  nodeTags.all fun tag => !(ts.contains (specKind tag)) || tagOwner tag == owner

theorem unwrap_safe (owner : String) (ts : List Target) (h : ownerIs owner ts = true) (f n : T)
    (hn : n ∈ extract ts f) : ∃ tag kids, n = .node tag kids ∧ tagOwner tag = owner := by
  obtain ⟨_, tag, kids, rfl, hnode, hk⟩ := extract_mem ts f n hn
  refine ⟨tag, kids, rfl, ?_⟩
  have hmem := (node_tags_complete tag).1 hnode
  unfold ownerIs at h
  rw [List.all_eq_true] at h
  have := h tag hmem
  have hc : ts.contains (specKind tag) = true := by simpa using hk
  simp only [hc, Bool.not_true, Bool.false_or, beq_iff_eq] at this
  exact this

/-- the target lists the detectors use before `expression().unwrap()` -/
def expressionTargetLists : List (List Target) :=
  [[.MemberAccess], [.Equal, .NotEqual], [.Assign], writeTargets, incDecTargets, [.PreIncrement, .PreDecrement],
   [.FunctionCall], [.MoreEqual, .LessEqual], [.Multiply, .Divide], [.Add, .Subtract, .Multiply, .Divide],
   [.Multiply, .AssignDivide], assignTargets]

theorem expression_unwraps_safe : ∀ ts ∈ expressionTargetLists, ownerIs "Expression" ts = true := by decide
theorem statement_unwraps_safe : ownerIs "Statement" [.For] = true ∧ ownerIs "Statement" [.Block] = true := by decide
theorem source_unit_part_unwraps_safe :
    ownerIs "SourceUnitPart" [.ContractDefinition] = true ∧ ownerIs "SourceUnitPart" [.PragmaDirective] = true := by decide

/-- a `FunctionDefinition` / `StructDefinition` / `Using` node is a SourceUnitPart or a ContractPart: the
detectors that accept both (`memory_to_calldata`, `pack_struct_variables`, `safe_math`) test which -/
theorem two_owner_kinds (f n : T) (t : Target) (ht : t ∈ [Target.FunctionDefinition, .StructDefinition, .Using])
    (hn : n ∈ extract [t] f) :
    ∃ tag kids, n = .node tag kids ∧ (tagOwner tag = "SourceUnitPart" ∨ tagOwner tag = "ContractPart") := by
  obtain ⟨_, tag, kids, rfl, hnode, hk⟩ := extract_mem [t] f n hn
  refine ⟨tag, kids, rfl, ?_⟩
  have hmem := (node_tags_complete tag).1 hnode
  simp only [List.mem_cons, List.mem_singleton, List.not_mem_nil, or_false] at hk ht
  have key : ∀ tag ∈ nodeTags, (specKind tag = .FunctionDefinition ∨ specKind tag = .StructDefinition ∨ specKind tag = .Using) →
      (tagOwner tag = "SourceUnitPart" ∨ tagOwner tag = "ContractPart") := by decide
  apply key tag hmem
  rcases ht with rfl | rfl | rfl <;> simp [hk]

/-! ## `contract_part().unwrap()` below a contract: needs a well-formed tree -/

/-- no file-level item occurs below a contract (the `pt` types make `SourceUnitPart` occur only directly
below `SourceUnit`; evaluated on every input through schema conformance) -/
def WFContracts (f : T) : Prop :=
  ∀ k ∈ allNodes f, isContractNode k = true → ∀ g ∈ allNodes k, g ≠ k →
    ∀ tag kids, g = .node tag kids → tagOwner tag ≠ "SourceUnitPart"

theorem contract_part_safe (f : T) (hwf : WFContracts f) (k g : T) (hk : k ∈ contracts f)
    (hg : g ∈ extract [.FunctionDefinition] k) :
    ∃ tag kids, g = .node tag kids ∧ tagOwner tag = "ContractPart" := by
  obtain ⟨tag, kids, rfl, ho⟩ := two_owner_kinds k g .FunctionDefinition (by simp) hg
  refine ⟨tag, kids, rfl, ?_⟩
  rcases ho with ho | ho
  · have hk' := (mem_contracts f k).1 hk
    have hgk := (extract_mem _ _ _ hg).1
    by_cases heq : T.node tag kids = k
    · -- the contract node itself is not a function definition
      subst heq
      have hkind := (extract_mem _ _ _ hg).2
      obtain ⟨tag', kids', he, _, hkk⟩ := hkind
      cases he
      have hc := hk'.2
      simp [isContractNode, T.tag?] at hc
      subst hc
      simp [specKind] at hkk
    · exact absurd ho (hwf k hk'.1 hk'.2 _ hgk heq tag kids rfl)
  · exact ho

/-! ## `vec_string_literal[0]` in string_errors -/

/-- every string-literal expression has at least one piece (grammar: `StringLiteral+`) -/
def WFStrings (f : T) : Prop :=
  ∀ n ∈ allNodes f, ∀ pieces, n = .node .Expression_StringLiteral [pieces] → vecItems pieces ≠ []

/-- on such trees the model's "no first piece" branch of `string_errors` (a panic in the code) is dead:
whenever a `require` ends in a string literal the first piece exists -/
theorem string_index_safe (f : T) (hwf : WFStrings f) (n : T) (hn : n ∈ allNodes f) (ps : List T)
    (h : requireStringPieces n = some ps) :
    ps ≠ [] := by
  unfold requireStringPieces at h
  split at h
  · rename_i l callee args
    split at h
    · cases hlast : (vecItems args).getLast? with
      | none => simp [hlast] at h
      | some a =>
        simp only [hlast] at h
        split at h
        · rename_i pieces heq
          simp only [Option.some.injEq] at heq h
          subst heq; subst h
          have hmem : T.node .Expression_StringLiteral [pieces] ∈ vecItems args := List.mem_of_getLast? hlast
          -- the literal is a node of the file
          have ha1 : args ∈ subtreesNoAsm (T.node .Expression_FunctionCall [l, callee, args]) :=
            kid_mem_subtreesNoAsm (by decide) (by simp)
          have ha2 : T.node .Expression_StringLiteral [pieces] ∈ subtreesNoAsm args := by
            unfold vecItems at hmem
            split at hmem
            · exact kid_mem_subtreesNoAsm (by decide) hmem
            · simp at hmem
          have hin : T.node .Expression_StringLiteral [pieces] ∈ allNodes f :=
            allNodes_trans (mem_allNodes.1 hn).1 (mem_allNodes.2 ⟨subtreesNoAsm_trans _ _ _ ha1 ha2, by simp [T.isNode, isNodeTag]⟩)
          exact hwf _ hin pieces rfl
        · simp at h
    · simp at h
  · simp at h

/-! ## the version code is total -/

/-- a component that does not fit an `i32`, an empty component or a wrong number of components gives
"no version" — never a panic -/
theorem versionOfValue_total (s : List Char) : versionOfValue s = none ∨ ∃ v, versionOfValue s = some v := by
  cases versionOfValue s <;> simp

theorem parseI32_overflow : parseI32 "99999999999".toList = none ∧ parseI32 [] = none ∧ parseI32 "2147483647".toList = some 2147483647 := by
  decide

/-- without a version the four version-gated detectors return nothing (theorem `no_version_silent`);
`address()` without arguments is no finding and no panic -/
example : checkAddressZero (.node .Expression_FunctionCall [Loc.toT ⟨0, 0, 9⟩,
    .node .Expression_Type [Loc.toT ⟨0, 0, 7⟩, .node .Type_Address []], .node .Vec []]) = false := by decide

end Solstat
