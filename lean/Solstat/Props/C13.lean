import Solstat.Props.Sort
/-!
# C13 — the report is a deterministic function of the set of findings
-/
namespace Solstat

variable {P : Type} [DecidableEq P]

theorem entryLe_preorder (c : Category P) : TotalPreorder (entryLe c) where
  total a b := by unfold entryLe; simp only [decide_eq_true_eq]; omega
  trans a b d h1 h2 := by unfold entryLe at *; simp only [decide_eq_true_eq] at *; omega

/-- the findings of a `HashMap`: distinct patterns, all of them variants of the enum -/
structure MapLike (c : Category P) (F : Findings P) : Prop where
  distinct : (F.map (·.1)).Nodup
  known : ∀ e ∈ F, e.1 ∈ c.order

theorem idx_injective (c : Category P) (p q : P) (hp : p ∈ c.order) (hq : q ∈ c.order) (h : c.idx p = c.idx q) : p = q := by
  unfold Category.idx at h
  have h1 := List.getElem_idxOf (List.idxOf_lt_length_of_mem hp)
  have h2 := List.getElem_idxOf (List.idxOf_lt_length_of_mem hq)
  rw [← h1, ← h2]
  congr 1

/-- normalising the files of every entry keeps the patterns -/
def normFiles (F : Findings P) : Findings P := F.map fun e => (e.1, sortBy fileLe e.2)

theorem canon_eq (c : Category P) (F : Findings P) : canon c F = sortBy (entryLe c) (normFiles F) := rfl

/-- **iteration order of the map is irrelevant**: any permutation of the entries gives the same canonical form -/
theorem canon_perm (c : Category P) (F F' : Findings P) (hp : F.Perm F') (hm : MapLike c F) : canon c F = canon c F' := by
  rw [canon_eq, canon_eq]
  apply sortBy_eq_of_perm (entryLe c) (entryLe_preorder c) _ _ (hp.map _)
  intro a ha b hb h1 h2
  unfold normFiles at ha hb
  rw [List.mem_map] at ha hb
  obtain ⟨x, hx, rfl⟩ := ha
  obtain ⟨y, hy, rfl⟩ := hb
  unfold entryLe at h1 h2
  simp only [decide_eq_true_eq] at h1 h2
  have hxy : x.1 = y.1 := idx_injective c x.1 y.1 (hm.known x hx) (hm.known y hy) (by omega)
  -- distinct patterns: the two entries are the same entry
  have key : ∀ (G : Findings P), (G.map (·.1)).Nodup → x ∈ G → y ∈ G → x = y := by
    intro G
    induction G with
    | nil => intro _ hx'; cases hx'
    | cons z zs ih =>
      intro hnd hx' hy'
      simp only [List.map_cons, List.nodup_cons, List.mem_map] at hnd
      rcases List.mem_cons.1 hx' with rfl | hx''
      · rcases List.mem_cons.1 hy' with rfl | hy''
        · rfl
        · exact absurd ⟨y, hy'', hxy.symm⟩ hnd.1
      · rcases List.mem_cons.1 hy' with rfl | hy''
        · exact absurd ⟨x, hx'', hxy⟩ hnd.1
        · exact ih hnd.2 hx'' hy''
  have : x = y := key F hm.distinct hx hy
  rw [this]

/-- **discovery order of the files is irrelevant**: permuting the files of any entry changes nothing -/
theorem canon_files_perm (c : Category P) (pre post : Findings P) (p : P) (fs fs' : Files) (h : fs.Perm fs') :
    canon c (pre ++ (p, fs) :: post) = canon c (pre ++ (p, fs') :: post) := by
  unfold canon
  simp only [List.map_append, List.map_cons, sortFiles_perm fs fs' h]

theorem totalEntries_perm (F F' : Findings P) (h : F.Perm F') : totalEntries F = totalEntries F' := by
  unfold totalEntries
  exact List.Perm.sum_nat (h.map _)

theorem countEntries_perm (fs fs' : Files) (h : fs.Perm fs') : countEntries fs = countEntries fs' := by
  unfold countEntries
  exact List.Perm.sum_nat (h.map _)

theorem blocks_perm (c : Category P) (F F' : Findings P) (hp : F.Perm F') (hm : MapLike c F) : blocks c F = blocks c F' := by
  unfold blocks; rw [canon_perm c F F' hp hm]

/-- **C13** for the three category renderers: the text depends only on the set of findings -/
theorem optimizationReport_perm (F F' : Findings Gen.Optimization) (hp : F.Perm F') (hm : MapLike optCategory F) :
    optimizationReport optCategory F = optimizationReport optCategory F' := by
  unfold optimizationReport
  rw [totalEntries_perm F F' hp, blocks_perm optCategory F F' hp hm]

theorem qaReport_perm (F F' : Findings Gen.QualityAssurance) (hp : F.Perm F') (hm : MapLike qaCategory F) :
    qaReport qaCategory F = qaReport qaCategory F' := by
  unfold qaReport
  rw [blocks_perm qaCategory F F' hp hm]

theorem mapLike_filter (c : Category P) (F : Findings P) (hm : MapLike c F) (q : P × Files → Bool) : MapLike c (F.filter q) where
  distinct := (List.Nodup.sublist (List.Sublist.map _ List.filter_sublist) hm.distinct)
  known e he := hm.known e (List.mem_filter.1 he).1

theorem severityPart_perm (sevName : String) (sev : Gen.Severity) (F F' : Findings Gen.Vulnerability) (hp : F.Perm F')
    (hm : MapLike vulnCategory F) : severityPart vulnCategory sevName sev F = severityPart vulnCategory sevName sev F' := by
  unfold severityPart
  simp only
  rw [blocks_perm vulnCategory _ _ (hp.filter _) (mapLike_filter vulnCategory F hm _)]

theorem vulnerabilityReport_perm (F F' : Findings Gen.Vulnerability) (hp : F.Perm F') (hm : MapLike vulnCategory F) :
    vulnerabilityReport vulnCategory F = vulnerabilityReport vulnCategory F' := by
  unfold vulnerabilityReport
  rw [totalEntries_perm F F' hp, severityPart_perm "high" .High F F' hp hm, severityPart_perm "medium" .Medium F F' hp hm,
    severityPart_perm "low" .Low F F' hp hm]

/-- every variant is in the declaration-order list (so the maps the code builds are `MapLike`) -/
theorem all_variants_known :
    (∀ p : Gen.Optimization, p ∈ Gen.optAll) ∧ (∀ p : Gen.Vulnerability, p ∈ Gen.vulnAll) ∧ (∀ p : Gen.QualityAssurance, p ∈ Gen.qaAll) := by
  refine ⟨?_, ?_, ?_⟩ <;> intro p <;> cases p <;> decide

/-- **C13 (whole report).** Any iteration order of the three maps renders the same report. -/
theorem fullReport_perm (V V' : Findings Gen.Vulnerability) (O O' : Findings Gen.Optimization) (Q Q' : Findings Gen.QualityAssurance)
    (hv : V.Perm V') (ho : O.Perm O') (hq : Q.Perm Q')
    (mv : MapLike vulnCategory V) (mo : MapLike optCategory O) (mq : MapLike qaCategory Q) :
    fullReport vulnCategory optCategory qaCategory V O Q = fullReport vulnCategory optCategory qaCategory V' O' Q' := by
  unfold fullReport
  have e1 : V.isEmpty = V'.isEmpty := by cases V <;> cases V' <;> simp_all
  have e2 : O.isEmpty = O'.isEmpty := by cases O <;> cases O' <;> simp_all
  have e3 : Q.isEmpty = Q'.isEmpty := by cases Q <;> cases Q' <;> simp_all
  rw [e1, e2, e3, vulnerabilityReport_perm V V' hv mv, optimizationReport_perm O O' ho mo, qaReport_perm Q Q' hq mq]

end Solstat
