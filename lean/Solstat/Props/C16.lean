import Solstat.Props.C03
import Solstat.Gen.Inventory
/-!
# C16, C15 and the order-independence half of C03: facts about the directory walk for a per-file
analysis that does not depend on the file number
-/
namespace Solstat

variable {P : Type} [DecidableEq P]

/-- the per-file analysis does not depend on the file number it is given (for the real entry points:
the file number only labels locations, see `fileNo_irrelevant` / C17) -/
def IndexFree (g : List UInt8 → Nat → P → List Nat) : Prop := ∀ b i j p, g b i p = g b j p

mutual
/-- the eligible files beneath a directory with their contents, depth first in listing order -/
def contentsOf : List Entry → List (String × Option (List UInt8))
  | [] => []
  | e :: es => contentsOfEntry e ++ contentsOf es
def contentsOfEntry : Entry → List (String × Option (List UInt8))
  | .file name contents => if eligible name then [(name, contents)] else []
  | .dir _ sub => contentsOf sub
end

def contribution0 (g : List UInt8 → Nat → P → List Nat) (ps : List P) (p : P)
    (x : String × Option (List UInt8)) : List (String × List Nat) :=
  fileContribution g ps p (x.1, x.2, 0)

mutual
theorem flatMap_eligibleFilesFrom (g : List UInt8 → Nat → P → List Nat) (hg : IndexFree g) (ps : List P) (p : P) :
    ∀ (i : Nat) (es : List Entry),
      (eligibleFilesFrom i es).flatMap (fileContribution g ps p) = (contentsOf es).flatMap (contribution0 g ps p)
  | _, [] => by simp [eligibleFilesFrom, contentsOf]
  | i, e :: es => by
    simp only [eligibleFilesFrom, contentsOf, List.flatMap_append]
    rw [flatMap_eligibleOfEntry g hg ps p i e, flatMap_eligibleFilesFrom g hg ps p (i + 1) es]
theorem flatMap_eligibleOfEntry (g : List UInt8 → Nat → P → List Nat) (hg : IndexFree g) (ps : List P) (p : P) :
    ∀ (i : Nat) (e : Entry),
      (eligibleOfEntry i e).flatMap (fileContribution g ps p) = (contentsOfEntry e).flatMap (contribution0 g ps p)
  | i, .file name contents => by
    simp only [eligibleOfEntry, contentsOfEntry]
    by_cases he : eligible name = true
    · simp only [he, if_true, List.flatMap_cons, List.flatMap_nil, List.append_nil, contribution0, fileContribution]
      cases contents with
      | none => rfl
      | some b => simp only [hg b i 0 p]
    · simp [he]
  | _, .dir _ sub => by
    simp only [eligibleOfEntry, contentsOfEntry]
    exact flatMap_eligibleFilesFrom g hg ps p 0 sub
end

/-- C03 in index-free form -/
theorem analyzeDir_exact' (g : List UInt8 → Nat → P → List Nat) (hg : IndexFree g) (ps : List P) (hnd : ps.Nodup)
    (es : List Entry) (m : FMap P) (h : analyzeDir g ps es = .ok m) (p : P) :
    m p = (contentsOf es).flatMap (contribution0 g ps p) := by
  rw [analyzeDir_exact g ps hnd es m h p, eligibleFiles, flatMap_eligibleFilesFrom g hg ps p]

/-! ## listing order does not matter (C03, second half; C13's `pipeline_perm` builds on it) -/

/-- rearrangement of the listing order of a directory tree, at any depth -/
inductive EntriesPerm : List Entry → List Entry → Prop
  | nil : EntriesPerm [] []
  | cons (e : Entry) {a b : List Entry} : EntriesPerm a b → EntriesPerm (e :: a) (e :: b)
  | dir (name : String) {s s' a b : List Entry} : EntriesPerm s s' → EntriesPerm a b →
      EntriesPerm (.dir name s :: a) (.dir name s' :: b)
  | swap (x y : Entry) (a : List Entry) : EntriesPerm (x :: y :: a) (y :: x :: a)
  | trans {a b c : List Entry} : EntriesPerm a b → EntriesPerm b c → EntriesPerm a c

theorem contentsOf_perm {a b : List Entry} (h : EntriesPerm a b) : (contentsOf a).Perm (contentsOf b) := by
  induction h with
  | nil => exact List.Perm.refl _
  | cons e _ ih => simp only [contentsOf]; exact List.Perm.append_left _ ih
  | dir name _ _ ih1 ih2 => simp only [contentsOf, contentsOfEntry]; exact List.Perm.append ih1 ih2
  | swap x y a =>
    simp only [contentsOf, ← List.append_assoc]
    exact List.Perm.append_right _ List.perm_append_comm
  | trans _ _ ih1 ih2 => exact ih1.trans ih2

/-- **C03 (listing order).** However the file system lists the entries of any directory of the tree,
every pattern gets the same multiset of `(file, lines)` pairs. -/
theorem analyzeDir_perm (g : List UInt8 → Nat → P → List Nat) (hg : IndexFree g) (ps : List P) (hnd : ps.Nodup)
    (es es' : List Entry) (hp : EntriesPerm es es') (m m' : FMap P)
    (h : analyzeDir g ps es = .ok m) (h' : analyzeDir g ps es' = .ok m') (p : P) : (m p).Perm (m' p) := by
  rw [analyzeDir_exact' g hg ps hnd es m h p, analyzeDir_exact' g hg ps hnd es' m' h' p]
  exact List.Perm.flatMap_right _ (contentsOf_perm hp)

/-! ## C16 — only Solidity sources are analysed -/

/-- the filter, in the property's words: ends in `.sol`, and the lower-cased name does not end in `.t.sol` -/
theorem eligible_iff (name : String) :
    eligible name = true ↔ ".sol".toList <:+ name.toList ∧ ¬ ".t.sol".toList <:+ (asciiLower name).toList := by
  simp only [eligible, Bool.and_eq_true, Bool.not_eq_true', List.isSuffixOf_iff_suffix]
  constructor
  · rintro ⟨h1, h2⟩
    refine ⟨h1, fun h => ?_⟩
    rw [← List.isSuffixOf_iff_suffix] at h
    have h2' : ".t.sol".toList.isSuffixOf (asciiLower name).toList = false := h2
    rw [h] at h2'; cases h2'
  · rintro ⟨h1, h2⟩
    refine ⟨h1, ?_⟩
    cases h : (".t.sol".toList.isSuffixOf (asciiLower name).toList) with
    | false => rfl
    | true => exact absurd (List.isSuffixOf_iff_suffix.1 h) h2

example : eligible "A.sol" = true ∧ eligible "A.t.sol" = false ∧ eligible "A.T.SOL" = false ∧ eligible "a.T.sol" = false ∧
    eligible "x.t.solver.sol" = true ∧ eligible "x.sol.txt" = false ∧ eligible ".sol" = true ∧ eligible "sol" = false ∧
    eligible "A.SOL" = false := by decide

/-- names with several dots, hidden files, and names that merely contain the suffixes -/
example : eligible "Vault.v2.sol" = true ∧ eligible "ERC20.Permit.sol" = true ∧ eligible "Vault.v2.t.sol" = false ∧
    eligible ".t.sol" = false ∧ eligible ".hidden.sol" = true ∧ eligible "a.t.sol.sol" = true ∧ eligible "t.sol" = true ∧
    eligible "Vault.sol.bak" = false ∧ eligible "Vault.sol~" = false := by decide

/-- an ineligible file, whatever its name, bytes or readability, contributes nothing wherever it is
inserted in a listing -/
theorem contentsOf_insert_ineligible (xs ys : List Entry) (name : String) (c : Option (List UInt8))
    (h : eligible name = false) : contentsOf (xs ++ .file name c :: ys) = contentsOf (xs ++ ys) := by
  induction xs with
  | nil => simp [contentsOf, contentsOfEntry, h]
  | cons x xs ih => simp only [List.cons_append, contentsOf, ih]

/-- ... also inside any sub-directory: the contents of a listing depend on a sub-directory only through its contents -/
theorem contentsOf_dir_congr (xs ys : List Entry) (name : String) (s s' : List Entry) (h : contentsOf s = contentsOf s') :
    contentsOf (xs ++ .dir name s :: ys) = contentsOf (xs ++ .dir name s' :: ys) := by
  induction xs with
  | nil => simp [contentsOf, contentsOfEntry, h]
  | cons x xs ih => simp only [List.cons_append, contentsOf, ih]

/-- **C16 (inert).** With and without the ineligible file the analysis gives the same result -/
theorem ineligible_inert (g : List UInt8 → Nat → P → List Nat) (hg : IndexFree g) (ps : List P) (hnd : ps.Nodup)
    (xs ys : List Entry) (name : String) (c : Option (List UInt8)) (h : eligible name = false) (m m' : FMap P)
    (h1 : analyzeDir g ps (xs ++ .file name c :: ys) = .ok m) (h2 : analyzeDir g ps (xs ++ ys) = .ok m') (p : P) :
    m p = m' p := by
  rw [analyzeDir_exact' g hg ps hnd _ m h1 p, analyzeDir_exact' g hg ps hnd _ m' h2 p, contentsOf_insert_ineligible xs ys name c h]

mutual
/-- the eligible files with their readability, in index-free form -/
theorem eligibleFilesFrom_names : ∀ (i : Nat) (es : List Entry),
    (eligibleFilesFrom i es).map (fun x => (x.1, x.2.1)) = contentsOf es
  | _, [] => by simp [eligibleFilesFrom, contentsOf]
  | i, e :: es => by
    simp only [eligibleFilesFrom, contentsOf, List.map_append]
    rw [eligibleOfEntry_names i e, eligibleFilesFrom_names (i + 1) es]
theorem eligibleOfEntry_names : ∀ (i : Nat) (e : Entry),
    (eligibleOfEntry i e).map (fun x => (x.1, x.2.1)) = contentsOfEntry e
  | _, .file name c => by by_cases he : eligible name = true <;> simp [eligibleOfEntry, contentsOfEntry, he]
  | _, .dir _ sub => by
    simp only [eligibleOfEntry, contentsOfEntry]
    exact eligibleFilesFrom_names 0 sub
end

/-- **C16 (cannot make the run fail).** Whether the analysis succeeds depends only on the eligible
files being readable; an ineligible file — unreadable, binary, unparseable — never matters. -/
theorem analyzeDir_ok_iff (g : List UInt8 → Nat → P → List Nat) (ps : List P) (es : List Entry) :
    (∃ m, analyzeDir g ps es = .ok m) ↔ ∀ x ∈ contentsOf es, x.2.isSome = true := by
  unfold analyzeDir
  rw [analyzeEntries_ok_iff g ps (sizeOf es) 0 es FMap.empty (Nat.le_refl _), ← eligibleFilesFrom_names 0 es]
  simp only [List.mem_map]
  constructor
  · rintro h x ⟨y, hy, rfl⟩; exact h y hy
  · intro h y hy; exact h (y.1, y.2.1) ⟨y, hy, rfl⟩

theorem ineligible_cannot_fail (g : List UInt8 → Nat → P → List Nat) (ps : List P)
    (xs ys : List Entry) (name : String) (c : Option (List UInt8)) (h : eligible name = false) :
    (∃ m, analyzeDir g ps (xs ++ .file name c :: ys) = .ok m) ↔ (∃ m, analyzeDir g ps (xs ++ ys) = .ok m) := by
  rw [analyzeDir_ok_iff, analyzeDir_ok_iff, contentsOf_insert_ineligible xs ys name c h]

/-! ## C15 — each (file, pattern) verdict is independent of everything else in the run -/

/-- **C15 (locality).** What is stored for pattern `p` is, per eligible readable file, exactly
`g bytes _ p` when that is non-empty: independent of the other selected patterns and of their order
(both selections contain `p`), of sibling files and directories, and of the file's position. -/
theorem entry_local (g : List UInt8 → Nat → P → List Nat) (hg : IndexFree g) (ps ps' : List P)
    (hnd : ps.Nodup) (hnd' : ps'.Nodup) (p : P) (hp : p ∈ ps) (hp' : p ∈ ps')
    (es : List Entry) (m m' : FMap P) (h : analyzeDir g ps es = .ok m) (h' : analyzeDir g ps' es = .ok m') :
    m p = m' p ∧
    ∀ name lines, (name, lines) ∈ m p ↔ ∃ bytes, (name, some bytes) ∈ contentsOf es ∧ lines = g bytes 0 p ∧ lines ≠ [] := by
  rw [analyzeDir_exact' g hg ps hnd es m h p, analyzeDir_exact' g hg ps' hnd' es m' h' p]
  have key : ∀ qs : List P, p ∈ qs → ∀ x : String × Option (List UInt8),
      contribution0 g qs p x = match x.2 with
        | some bytes => if g bytes 0 p ≠ [] then [(x.1, g bytes 0 p)] else []
        | none => [] := by
    intro qs hq x
    unfold contribution0 fileContribution
    cases x.2 <;> simp [hq]
  refine ⟨?_, ?_⟩
  · congr 1; funext x; rw [key ps hp, key ps' hp']
  · intro name lines
    simp only [List.mem_flatMap]
    constructor
    · rintro ⟨x, hx, hm⟩
      rw [key ps hp] at hm
      obtain ⟨n, c⟩ := x
      cases c with
      | none => simp at hm
      | some bytes =>
        simp only at hm
        split at hm
        · rename_i hne
          simp only [List.mem_singleton, Prod.mk.injEq] at hm
          obtain ⟨rfl, rfl⟩ := hm
          exact ⟨bytes, hx, rfl, hne⟩
        · simp at hm
    · rintro ⟨bytes, hx, rfl, hne⟩
      refine ⟨(name, some bytes), hx, ?_⟩
      rw [key ps hp]; simp [hne]

end Solstat
