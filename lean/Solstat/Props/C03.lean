import Solstat.Dir
/-!
# C03 — directory analysis is the exact union of the per-file results
(also the facts C15 and C16 need about the directory walk)
-/
namespace Solstat

variable {P : Type} [DecidableEq P]

mutual
/-- specification: the eligible files beneath a directory, depth first in listing order, each with its
contents and its position in its own directory -/
def eligibleFilesFrom (i : Nat) : List Entry → List (String × Option (List UInt8) × Nat)
  | [] => []
  | e :: es => eligibleOfEntry i e ++ eligibleFilesFrom (i + 1) es
def eligibleOfEntry (i : Nat) : Entry → List (String × Option (List UInt8) × Nat)
  | .file name contents => if eligible name then [(name, contents, i)] else []
  | .dir _ sub => eligibleFilesFrom 0 sub
end

def eligibleFiles (es : List Entry) : List (String × Option (List UInt8) × Nat) := eligibleFilesFrom 0 es

/-- what one readable eligible file contributes to pattern `p` -/
def fileContribution (g : List UInt8 → Nat → P → List Nat) (ps : List P) (p : P)
    (x : String × Option (List UInt8) × Nat) : List (String × List Nat) :=
  match x.2.1 with
  | some bytes => if p ∈ ps ∧ g bytes x.2.2 p ≠ [] then [(x.1, g bytes x.2.2 p)] else []
  | none => []

theorem pushFile_spec (g : List UInt8 → Nat → P → List Nat) (name : String) (bytes : List UInt8) (i : Nat) :
    ∀ (ps : List P) (m : FMap P) (p : P), ps.Nodup →
      pushFile g name bytes i ps m p = m p ++ (if p ∈ ps ∧ g bytes i p ≠ [] then [(name, g bytes i p)] else [])
  | [], m, p, _ => by simp [pushFile]
  | q :: qs, m, p, hnd => by
    have hq : q ∉ qs := (List.nodup_cons.1 hnd).1
    have hnd' := (List.nodup_cons.1 hnd).2
    unfold pushFile
    simp only
    rw [pushFile_spec g name bytes i qs _ p hnd']
    by_cases hpq : p = q
    · subst hpq
      have : p ∉ qs := hq
      by_cases he : (g bytes i p).isEmpty = true
      · have he' : g bytes i p = [] := by simpa using he
        simp [he, he', this]
      · have he' : g bytes i p ≠ [] := by simpa using he
        simp [he, he', this, FMap.push]
    · by_cases he : (g bytes i q).isEmpty = true
      · simp [he, hpq]
      · simp [he, hpq, FMap.push]

mutual
theorem analyzeEntry_exact (g : List UInt8 → Nat → P → List Nat) (ps : List P) (hnd : ps.Nodup) :
    ∀ (i : Nat) (e : Entry) (m m' : FMap P), analyzeEntry g ps i e m = .ok m' →
      ∀ p, m' p = m p ++ (eligibleOfEntry i e).flatMap (fileContribution g ps p)
  | i, .dir name sub, m, m', h, p => by
    unfold analyzeEntry at h
    cases hs : analyzeEntries g ps 0 sub FMap.empty with
    | error e => simp [hs] at h
    | ok r =>
      simp only [hs, Except.ok.injEq] at h
      subst h
      have := analyzeEntries_exact g ps hnd 0 sub FMap.empty r hs p
      simp [FMap.merge, this, FMap.empty, eligibleOfEntry]
  | i, .file name contents, m, m', h, p => by
    unfold analyzeEntry at h
    by_cases he : eligible name = true
    · simp only [he, if_true] at h
      cases contents with
      | none => simp at h
      | some bytes =>
        simp only [Except.ok.injEq] at h
        subst h
        rw [pushFile_spec g name bytes i ps m p hnd]
        simp [eligibleOfEntry, he, fileContribution]
    · have he' : eligible name = false := by simpa using he
      simp only [he', Bool.false_eq_true, if_false, Except.ok.injEq] at h
      subst h
      simp [eligibleOfEntry, he']
theorem analyzeEntries_exact (g : List UInt8 → Nat → P → List Nat) (ps : List P) (hnd : ps.Nodup) :
    ∀ (i : Nat) (es : List Entry) (m m' : FMap P), analyzeEntries g ps i es m = .ok m' →
      ∀ p, m' p = m p ++ (eligibleFilesFrom i es).flatMap (fileContribution g ps p)
  | i, [], m, m', h, p => by
    simp only [analyzeEntries, Except.ok.injEq] at h
    subst h; simp [eligibleFilesFrom]
  | i, e :: es, m, m', h, p => by
    unfold analyzeEntries at h
    cases he : analyzeEntry g ps i e m with
    | error err => simp [he] at h
    | ok m1 =>
      simp only [he] at h
      have h1 := analyzeEntry_exact g ps hnd i e m m1 he p
      have h2 := analyzeEntries_exact g ps hnd (i + 1) es m1 m' h p
      rw [h2, h1]
      simp [eligibleFilesFrom, List.flatMap_append]
end

/-- **C03.** When the directory analysis succeeds, for every pattern the result holds exactly one
`(file, lines)` pair per eligible file beneath the directory (at any depth) whose per-file analysis
for that selected pattern is non-empty — none dropped, replaced or duplicated, in depth-first
listing order — whatever the per-file analysis `g` is. -/
theorem analyzeDir_exact (g : List UInt8 → Nat → P → List Nat) (ps : List P) (hnd : ps.Nodup)
    (es : List Entry) (m : FMap P) (h : analyzeDir g ps es = .ok m) (p : P) :
    m p = (eligibleFiles es).flatMap (fileContribution g ps p) := by
  have := analyzeEntries_exact g ps hnd 0 es FMap.empty m h p
  simpa [FMap.empty, eligibleFiles] using this

/-- the run fails exactly when an eligible file cannot be read -/
theorem analyzeEntries_ok_iff (g : List UInt8 → Nat → P → List Nat) (ps : List P) :
    ∀ (n : Nat) (i : Nat) (es : List Entry) (m : FMap P), sizeOf es ≤ n →
      ((∃ m', analyzeEntries g ps i es m = .ok m') ↔ ∀ x ∈ eligibleFilesFrom i es, x.2.1.isSome = true) := by
  intro n
  induction n with
  | zero => intro i es m h; cases es <;> simp at h
  | succ n ih =>
    intro i es m hsz
    cases es with
    | nil => simp [analyzeEntries, eligibleFilesFrom]
    | cons e es =>
      have hes : sizeOf es ≤ n := by simp at hsz; omega
      unfold analyzeEntries
      cases e with
      | file name contents =>
        simp only [analyzeEntry, eligibleFilesFrom, eligibleOfEntry]
        by_cases he : eligible name = true
        · cases contents with
          | none => simp [he]
          | some bytes =>
            simp only [he, if_true, List.cons_append, List.nil_append, List.mem_cons, forall_eq_or_imp, Option.isSome_some, true_and]
            exact ih (i + 1) es _ hes
        · simp only [he, if_false, List.nil_append, Bool.false_eq_true]
          exact ih (i + 1) es _ hes
      | dir name sub =>
        have hsub : sizeOf sub ≤ n := by simp at hsz; omega
        simp only [analyzeEntry, eligibleFilesFrom, eligibleOfEntry, List.mem_append]
        have h1 := ih 0 sub FMap.empty hsub
        cases hs : analyzeEntries g ps 0 sub FMap.empty with
        | error err =>
          simp only [hs] at h1 ⊢
          constructor
          · rintro ⟨m', hm⟩; simp at hm
          · intro hall
            have : ∃ m', (Except.error err : Except String (FMap P)) = .ok m' :=
              h1.2 (fun x hx => hall x (Or.inl hx))
            obtain ⟨_, hc⟩ := this; cases hc
        | ok r =>
          simp only [hs] at h1 ⊢
          have hall1 := h1.1 ⟨r, rfl⟩
          rw [ih (i + 1) es _ hes]
          constructor
          · intro h x hx
            rcases hx with hx | hx
            · exact hall1 x hx
            · exact h x hx
          · intro h x hx; exact h x (Or.inr hx)

end Solstat
