import Solstat.Props.C11
import Solstat.Props.C03
import Solstat.Props.C16
/-!
# End to end: the report of a directory run reads back as the per-file results

Composition of C03 (the directory analysis is the exact union of the per-file results of the eligible files),
C16 (which files are eligible) and C11 (the report lists exactly the findings, each under its pattern): for any
per-file analysis `g`, any duplicate-free selection of patterns and any directory tree, reading the rendered
category back yields, as a multiset, exactly the triples (pattern, file name, line) with the pattern selected, the
file eligible beneath the directory and the line in the per-file result.
-/
namespace Solstat

variable {P : Type} [DecidableEq P]

/-- the findings map handed to the renderer: one entry per selected pattern -/
def findingsOf (ps : List P) (m : FMap P) : Findings P := ps.map fun p => (p, m p)

/-- what the per-file analyses say: (pattern, file, line) for every selected pattern, eligible readable file
and reported line, in selection / listing order -/
theorem flatMap_congr' {α β : Type} {l : List α} {f g : α → List β} (h : ∀ a ∈ l, f a = g a) : l.flatMap f = l.flatMap g := by
  induction l with
  | nil => rfl
  | cons a as ih =>
    simp only [List.flatMap_cons]
    rw [h a (by simp), ih (fun b hb => h b (by simp [hb]))]

theorem flatMap_flatMap' {α β γ : Type} (l : List α) (f : α → List β) (g : β → List γ) :
    (l.flatMap f).flatMap g = l.flatMap fun a => (f a).flatMap g := by
  induction l with
  | nil => rfl
  | cons a as ih => simp only [List.flatMap_cons, List.flatMap_append, ih]

def expectedTriples (g : List UInt8 → Nat → P → List Nat) (ps : List P) (es : List Entry) : List (P × String × Nat) :=
  ps.flatMap fun p => (eligibleFiles es).flatMap fun x =>
    match x.2.1 with
    | some bytes => (g bytes x.2.2 p).map fun l => (p, x.1, l)
    | none => []

theorem triples_findingsOf (g : List UInt8 → Nat → P → List Nat) (ps : List P) (hnd : ps.Nodup) (es : List Entry) (m : FMap P)
    (h : analyzeDir g ps es = .ok m) : triples (findingsOf ps m) = expectedTriples g ps es := by
  unfold triples findingsOf expectedTriples
  rw [List.flatMap_map]
  apply flatMap_congr'
  intro p hp
  simp only
  rw [analyzeDir_exact g ps hnd es m h p, flatMap_flatMap']
  apply flatMap_congr'
  intro x _
  unfold fileContribution
  cases x.2.1 with
  | none => rfl
  | some bytes =>
    simp only
    by_cases hne : g bytes x.2.2 p = []
    · simp [hne]
    · simp [hp, hne]

/-- **end to end, optimisations**: the entries read back from the optimisation part of the report of a directory
run are exactly the per-file results of the eligible files, as a multiset -/
theorem optimizationReport_of_directory (g : List UInt8 → Nat → Gen.Optimization → List Nat) (ps : List Gen.Optimization)
    (hnd : ps.Nodup) (es : List Entry) (m : FMap Gen.Optimization) (h : analyzeDir g ps es = .ok m) :
    ((rbRun optCategory ⟨none, false, []⟩ (optimizationReport optCategory (findingsOf ps m))).out).Perm (expectedTriples g ps es) := by
  rw [← triples_findingsOf g ps hnd es m h]
  exact C11_optimization _

theorem qaReport_of_directory (g : List UInt8 → Nat → Gen.QualityAssurance → List Nat) (ps : List Gen.QualityAssurance)
    (hnd : ps.Nodup) (es : List Entry) (m : FMap Gen.QualityAssurance) (h : analyzeDir g ps es = .ok m) :
    ((rbRun qaCategory ⟨none, false, []⟩ (qaReport qaCategory (findingsOf ps m))).out).Perm (expectedTriples g ps es) := by
  rw [← triples_findingsOf g ps hnd es m h]
  exact C11_qa _

theorem vulnerabilityReport_of_directory (g : List UInt8 → Nat → Gen.Vulnerability → List Nat) (ps : List Gen.Vulnerability)
    (hnd : ps.Nodup) (es : List Entry) (m : FMap Gen.Vulnerability) (h : analyzeDir g ps es = .ok m) :
    ((rbRun vulnCategory ⟨none, false, []⟩ (vulnerabilityReport vulnCategory (findingsOf ps m))).out).Perm (expectedTriples g ps es) := by
  rw [← triples_findingsOf g ps hnd es m h]
  exact C11_vulnerability _

/-! ## the report does not depend on the order in which the file system lists directory entries -/

theorem normFiles_findingsOf (ps : List P) (m m' : FMap P) (h : ∀ p, (m p).Perm (m' p)) :
    normFiles (findingsOf ps m) = normFiles (findingsOf ps m') := by
  unfold normFiles findingsOf
  simp only [List.map_map]
  apply List.map_congr_left
  intro p _
  simp only [Function.comp, sortFiles_perm (m p) (m' p) (h p)]

theorem totalEntries_findingsOf (ps : List P) (m m' : FMap P) (h : ∀ p, (m p).Perm (m' p)) :
    totalEntries (findingsOf ps m) = totalEntries (findingsOf ps m') := by
  unfold totalEntries findingsOf
  simp only [List.map_map]
  congr 1
  apply List.map_congr_left
  intro p _
  simp only [Function.comp, countEntries_perm (m p) (m' p) (h p)]

theorem blocks_findingsOf (c : Category P) (ps : List P) (m m' : FMap P) (h : ∀ p, (m p).Perm (m' p)) :
    blocks c (findingsOf ps m) = blocks c (findingsOf ps m') := by
  unfold blocks
  rw [canon_eq, canon_eq, normFiles_findingsOf ps m m' h]

/-- **end to end, listing order**: two listings of the same tree (entries of any directory permuted) give the
same optimisation report, byte for byte -/
theorem optimizationReport_listing_order (g : List UInt8 → Nat → Gen.Optimization → List Nat) (hg : IndexFree g)
    (ps : List Gen.Optimization) (hnd : ps.Nodup) (es es' : List Entry) (hp : EntriesPerm es es') (m m' : FMap Gen.Optimization)
    (h : analyzeDir g ps es = .ok m) (h' : analyzeDir g ps es' = .ok m') :
    optimizationReport optCategory (findingsOf ps m) = optimizationReport optCategory (findingsOf ps m') := by
  have hperm := analyzeDir_perm g hg ps hnd es es' hp m m' h h'
  unfold optimizationReport
  rw [totalEntries_findingsOf ps m m' hperm, blocks_findingsOf optCategory ps m m' hperm]

theorem qaReport_listing_order (g : List UInt8 → Nat → Gen.QualityAssurance → List Nat) (hg : IndexFree g)
    (ps : List Gen.QualityAssurance) (hnd : ps.Nodup) (es es' : List Entry) (hp : EntriesPerm es es') (m m' : FMap Gen.QualityAssurance)
    (h : analyzeDir g ps es = .ok m) (h' : analyzeDir g ps es' = .ok m') :
    qaReport qaCategory (findingsOf ps m) = qaReport qaCategory (findingsOf ps m') := by
  have hperm := analyzeDir_perm g hg ps hnd es es' hp m m' h h'
  unfold qaReport
  rw [blocks_findingsOf qaCategory ps m m' hperm]

end Solstat
