import Solstat.Props.C07
/-!
# C06 — declaration-level gas and QA detectors flag exactly their documented pattern

Each statement is an "if and only if" over all trees: a location is reported iff it is the
`reportLoc` of a declaration of the documented shape in some contract of the file.
-/
namespace Solstat
open Solstat.Gen T View

/-! ## payable_function -/

/-- a public/external function with a body that is not payable -/
def PayableShape (fields : List T) : Prop :=
  (fnBody fields).isSome = true ∧ isPublicOrExternal fields = true ∧ isPayable fields = false

theorem payableFunction_exact (f : T) (l : Loc) :
    l ∈ payableFunction f ↔
      ∃ k ∈ allNodes f, isContractNode k = true ∧ ∃ g ∈ allNodes k, ∃ fields,
        contractFunctionFields g = some fields ∧ PayableShape fields ∧ fnLoc fields = some l := by
  unfold payableFunction
  simp only [List.mem_flatMap, List.mem_filterMap]
  constructor
  · rintro ⟨k, hk, ⟨g, fields⟩, hp, hl⟩
    have hk' := (mem_contracts f k).1 hk
    have hp' := (mem_contractFunctions k g fields).1 hp
    simp only at hl
    split at hl
    · rename_i hc
      simp only [Bool.and_eq_true, Bool.not_eq_true'] at hc
      exact ⟨k, hk'.1, hk'.2, g, hp'.1, fields, hp'.2, ⟨hc.1.1, hc.1.2, hc.2⟩, hl⟩
    · simp at hl
  · rintro ⟨k, hk, hkc, g, hg, fields, hfn, ⟨h1, h2, h3⟩, hl⟩
    refine ⟨k, (mem_contracts f k).2 ⟨hk, hkc⟩, (g, fields), (mem_contractFunctions k g fields).2 ⟨hg, hfn⟩, ?_⟩
    simp [h1, h2, h3, hl]

/-! ## private_constant, private_vars_leading_underscore: the variable definitions of a contract -/

/-- a non-private constant -/
def PrivateConstantShape (fields : List T) : Prop :=
  varIsConstant fields = true ∧ (varVisibilities fields).contains .Visibility_Private = false

theorem privateConstant_exact (f : T) (l : Loc) :
    l ∈ privateConstant f ↔
      ∃ k ∈ allNodes f, isContractNode k = true ∧ ∃ p ∈ contractParts k, ∃ fields,
        varDefFields p = some fields ∧ PrivateConstantShape fields ∧ varLoc fields = some l := by
  unfold privateConstant
  simp only [List.mem_flatMap, List.mem_filterMap]
  constructor
  · rintro ⟨k, hk, p, hp, hl⟩
    have hk' := (mem_contracts f k).1 hk
    cases hv : varDefFields p with
    | none => simp [hv] at hl
    | some fields =>
      simp only [hv] at hl
      split at hl
      · rename_i hc
        simp only [Bool.and_eq_true, Bool.not_eq_true'] at hc
        exact ⟨k, hk'.1, hk'.2, p, hp, fields, hv, ⟨hc.1, hc.2⟩, hl⟩
      · simp at hl
  · rintro ⟨k, hk, hkc, p, hp, fields, hv, ⟨h1, h2⟩, hl⟩
    refine ⟨k, (mem_contracts f k).2 ⟨hk, hkc⟩, p, hp, ?_⟩
    simp only [hv, h1, h2, Bool.not_false, Bool.and_self, if_true, hl]

/-- the leading underscore contradicts a declared visibility: `private`/`internal` without one,
any other visibility with one -/
def UnderscoreContradictsVars (fields : List T) (name : String) : Prop :=
  ∃ v ∈ varVisibilities fields,
    ((v = .Visibility_Private ∨ v = .Visibility_Internal) ∧ strStartsUnderscore name = false) ∨
    (¬(v = .Visibility_Private ∨ v = .Visibility_Internal) ∧ strStartsUnderscore name = true)

theorem or_dec_true {a b : Prop} [Decidable a] [Decidable b] : (decide a || decide b) = true ↔ a ∨ b := by simp
theorem or_dec_false {a b : Prop} [Decidable a] [Decidable b] : (decide a || decide b) = false ↔ ¬(a ∨ b) := by simp
theorem nor_dec_true {a b : Prop} [Decidable a] [Decidable b] : (!(decide a || decide b)) = true ↔ ¬(a ∨ b) := by simp
theorem nor_dec_false {a b : Prop} [Decidable a] [Decidable b] : (!(decide a || decide b)) = false ↔ (a ∨ b) := by
  by_cases ha : a <;> by_cases hb : b <;> simp [ha, hb]

theorem underscoreMismatch_iff (privateLike : Bool) (name : String) :
    underscoreMismatch privateLike name = true ↔
      (privateLike = true ∧ strStartsUnderscore name = false) ∨ (privateLike = false ∧ strStartsUnderscore name = true) := by
  unfold underscoreMismatch
  cases privateLike <;> cases strStartsUnderscore name <;> simp

theorem privateVars_exact (f : T) (l : Loc) :
    l ∈ privateVarsLeadingUnderscore f ↔
      ∃ k ∈ allNodes f, isContractNode k = true ∧ ∃ p ∈ contractParts k, ∃ fields name,
        varDefFields p = some fields ∧ varIsConstant fields = false ∧ varNameOf fields = some name ∧
        UnderscoreContradictsVars fields name ∧ varLoc fields = some l := by
  unfold privateVarsLeadingUnderscore
  simp only [List.mem_flatMap, List.mem_filterMap]
  constructor
  · rintro ⟨k, hk, p, hp, hl⟩
    have hk' := (mem_contracts f k).1 hk
    cases hv : varDefFields p with
    | none => simp [hv] at hl
    | some fields =>
      simp only [hv] at hl
      split at hl
      · simp at hl
      · rename_i hconst
        cases hn : varNameOf fields with
        | none => simp [hn] at hl
        | some name =>
          simp only [hn] at hl
          split at hl
          · rename_i hany
            rw [List.any_eq_true] at hany
            obtain ⟨v, hv', hm⟩ := hany
            refine ⟨k, hk'.1, hk'.2, p, hp, fields, name, hv, by simpa using hconst, hn, ⟨v, hv', ?_⟩, hl⟩
            rcases (underscoreMismatch_iff _ _).1 hm with ⟨h1, h2⟩ | ⟨h1, h2⟩
            · exact Or.inl ⟨or_dec_true.1 h1, h2⟩
            · exact Or.inr ⟨or_dec_false.1 h1, h2⟩
          · simp at hl
  · rintro ⟨k, hk, hkc, p, hp, fields, name, hv, hconst, hn, ⟨v, hv', hm⟩, hl⟩
    refine ⟨k, (mem_contracts f k).2 ⟨hk, hkc⟩, p, hp, ?_⟩
    simp only [hv, hconst, hn, Bool.false_eq_true, if_false]
    have : (varVisibilities fields).any (fun v => underscoreMismatch (v = .Visibility_Private || v = .Visibility_Internal) name) = true := by
      rw [List.any_eq_true]
      refine ⟨v, hv', (underscoreMismatch_iff _ _).2 ?_⟩
      rcases hm with ⟨h1, h2⟩ | ⟨h1, h2⟩
      · exact Or.inl ⟨or_dec_true.2 h1, h2⟩
      · exact Or.inr ⟨or_dec_false.2 h1, h2⟩
    simp only [this, if_true, hl]

/-! ## private_func_leading_underscore -/

def UnderscoreContradictsFunc (fields : List T) (name : String) : Prop :=
  ∃ v ∈ fnVisibilities fields,
    ((v = .Visibility_Public ∨ v = .Visibility_External) ∧ strStartsUnderscore name = true) ∨
    (¬(v = .Visibility_Public ∨ v = .Visibility_External) ∧ strStartsUnderscore name = false)

/-- a contract-level definition of kind `function` with a name whose leading underscore contradicts a
declared visibility; the name identifier is reported -/
theorem privateFunc_exact (f : T) (l : Loc) :
    l ∈ privateFuncLeadingUnderscore f ↔
      ∃ g ∈ allNodes f, ∃ fields nameLoc name,
        contractFunctionFields g = some fields ∧ fnTy fields = some .FunctionTy_Function ∧
        fnName fields = some (.node .S_Identifier [nameLoc, .str name]) ∧
        UnderscoreContradictsFunc fields name ∧ Loc.ofT nameLoc = some l := by
  unfold privateFuncLeadingUnderscore
  rw [List.mem_filterMap]
  constructor
  · rintro ⟨g, hg, hl⟩
    have hgm := (extract_mem _ _ _ hg).1
    split at hl
    · rename_i fields
      split at hl
      · rename_i hty
        split at hl
        · rename_i nameLoc name hname
          split at hl
          · rename_i hany
            rw [List.any_eq_true] at hany
            obtain ⟨v, hv, hm⟩ := hany
            refine ⟨_, hgm, fields, nameLoc, name, rfl, hty, hname, ⟨v, hv, ?_⟩, hl⟩
            rcases (underscoreMismatch_iff _ _).1 hm with ⟨h1, h2⟩ | ⟨h1, h2⟩
            · exact Or.inr ⟨nor_dec_true.1 h1, h2⟩
            · exact Or.inl ⟨nor_dec_false.1 h1, h2⟩
          · simp at hl
        · simp at hl
      · simp at hl
    · simp at hl
  · rintro ⟨g, hg, fields, nameLoc, name, hfn, hty, hname, ⟨v, hv, hm⟩, hl⟩
    unfold contractFunctionFields at hfn
    split at hfn
    · rename_i fs
      simp only [Option.some.injEq] at hfn; subst hfn
      refine ⟨_, (mem_extract _ _ _).2 ⟨hg, _, _, rfl, by decide⟩, ?_⟩
      simp only [hty, if_true, hname]
      have : (fnVisibilities fs).any (fun v => underscoreMismatch (!(v = .Visibility_Public || v = .Visibility_External)) name) = true := by
        rw [List.any_eq_true]
        refine ⟨v, hv, (underscoreMismatch_iff _ _).2 ?_⟩
        rcases hm with ⟨h1, h2⟩ | ⟨h1, h2⟩
        · exact Or.inr ⟨nor_dec_false.2 h1, h2⟩
        · exact Or.inl ⟨nor_dec_true.2 h1, h2⟩
      simp only [this, if_true, hl]
    · simp at hfn

/-! ## constructor_order -/

def isPlainFunction (fields : List T) : Bool := !isConstructor fields && fnTy fields != some .FunctionTy_Modifier

/-- the scan reports a constructor iff a plain function (neither modifier nor constructor) was seen
before the scan started or stands before it in the list -/
theorem mem_constructorOrderScan (l : Loc) : ∀ (fs : List (List T)) (seen : Bool),
    l ∈ constructorOrderScan fs seen ↔
      ∃ pre c post, fs = pre ++ c :: post ∧ isConstructor c = true ∧ fnLoc c = some l ∧
        (seen = true ∨ ∃ p ∈ pre, isPlainFunction p = true)
  | [], seen => by simp [constructorOrderScan]
  | x :: rest, seen => by
    unfold constructorOrderScan
    by_cases hc : isConstructor x = true
    · simp only [hc, if_true, List.mem_append]
      rw [mem_constructorOrderScan l rest seen]
      constructor
      · rintro (h | ⟨pre, c, post, rfl, h1, h2, h3⟩)
        · by_cases hs : seen = true
          · simp only [hs, if_true, Option.mem_toList] at h
            exact ⟨[], x, rest, rfl, hc, by simpa using h, Or.inl hs⟩
          · simp [hs] at h
        · refine ⟨x :: pre, c, post, rfl, h1, h2, ?_⟩
          rcases h3 with h3 | ⟨p, hp, hpp⟩
          · exact Or.inl h3
          · exact Or.inr ⟨p, by simp [hp], hpp⟩
      · rintro ⟨pre, c, post, heq, h1, h2, h3⟩
        cases pre with
        | nil =>
          simp only [List.nil_append, List.cons.injEq] at heq
          obtain ⟨rfl, rfl⟩ := heq
          rcases h3 with h3 | ⟨p, hp, _⟩
          · left; simp [h3, h2]
          · cases hp
        | cons y pre' =>
          simp only [List.cons_append, List.cons.injEq] at heq
          obtain ⟨rfl, rfl⟩ := heq
          right
          refine ⟨pre', c, post, rfl, h1, h2, ?_⟩
          rcases h3 with h3 | ⟨p, hp, hpp⟩
          · exact Or.inl h3
          · rcases List.mem_cons.1 hp with rfl | hp
            · simp [isPlainFunction, hc] at hpp
            · exact Or.inr ⟨p, hp, hpp⟩
    · have hc' : isConstructor x = false := by simpa using hc
      by_cases hm : fnTy x = some .FunctionTy_Modifier
      · simp only [hc', hm, if_true, Bool.false_eq_true, if_false]
        rw [mem_constructorOrderScan l rest seen]
        constructor
        · rintro ⟨pre, c, post, rfl, h1, h2, h3⟩
          refine ⟨x :: pre, c, post, rfl, h1, h2, ?_⟩
          rcases h3 with h3 | ⟨p, hp, hpp⟩
          · exact Or.inl h3
          · exact Or.inr ⟨p, by simp [hp], hpp⟩
        · rintro ⟨pre, c, post, heq, h1, h2, h3⟩
          cases pre with
          | nil =>
            simp only [List.nil_append, List.cons.injEq] at heq
            obtain ⟨rfl, rfl⟩ := heq
            simp [hc'] at h1
          | cons y pre' =>
            simp only [List.cons_append, List.cons.injEq] at heq
            obtain ⟨rfl, rfl⟩ := heq
            refine ⟨pre', c, post, rfl, h1, h2, ?_⟩
            rcases h3 with h3 | ⟨p, hp, hpp⟩
            · exact Or.inl h3
            · rcases List.mem_cons.1 hp with rfl | hp
              · simp [isPlainFunction, hm] at hpp
              · exact Or.inr ⟨p, hp, hpp⟩
      · simp only [hc', hm, Bool.false_eq_true, if_false]
        rw [mem_constructorOrderScan l rest true]
        constructor
        · rintro ⟨pre, c, post, rfl, h1, h2, _⟩
          exact ⟨x :: pre, c, post, rfl, h1, h2, Or.inr ⟨x, by simp, by simp [isPlainFunction, hc', hm]⟩⟩
        · rintro ⟨pre, c, post, heq, h1, h2, _⟩
          cases pre with
          | nil =>
            simp only [List.nil_append, List.cons.injEq] at heq
            obtain ⟨rfl, rfl⟩ := heq
            simp [hc'] at h1
          | cons y pre' =>
            simp only [List.cons_append, List.cons.injEq] at heq
            obtain ⟨rfl, rfl⟩ := heq
            exact ⟨pre', c, post, rfl, h1, h2, Or.inl rfl⟩

/-- the verdict for one contract: a function of that contract's own sub-tree -/
def constructorOrderOf (k : T) : List Loc := constructorOrderScan ((contractFunctions k).map (·.2)) false

/-- **locality**: the result for a file is the union over its contracts of a function of each
contract alone — members of other contracts, libraries, interfaces or free functions never enter -/
theorem constructorOrder_local (f : T) : constructorOrder f = (contracts f).flatMap constructorOrderOf := rfl

/-- **C06, constructor_order**: a constructor is reported iff, among the function definitions of its
own contract, a function that is neither a modifier nor a constructor precedes it -/
theorem constructorOrder_exact (f : T) (l : Loc) :
    l ∈ constructorOrder f ↔
      ∃ k ∈ allNodes f, isContractNode k = true ∧
        ∃ pre c post, (contractFunctions k).map (·.2) = pre ++ c :: post ∧ isConstructor c = true ∧
          fnLoc c = some l ∧ ∃ p ∈ pre, isPlainFunction p = true := by
  rw [constructorOrder_local]
  simp only [List.mem_flatMap, constructorOrderOf]
  constructor
  · rintro ⟨k, hk, hl⟩
    have hk' := (mem_contracts f k).1 hk
    obtain ⟨pre, c, post, heq, h1, h2, h3⟩ := (mem_constructorOrderScan l _ false).1 hl
    rcases h3 with h3 | h3
    · simp at h3
    · exact ⟨k, hk'.1, hk'.2, pre, c, post, heq, h1, h2, h3⟩
  · rintro ⟨k, hk, hkc, pre, c, post, heq, h1, h2, h3⟩
    exact ⟨k, (mem_contracts f k).2 ⟨hk, hkc⟩, (mem_constructorOrderScan l _ false).2 ⟨pre, c, post, heq, h1, h2, Or.inr h3⟩⟩

end Solstat
