import Solstat.Props.C12
import Solstat.Spec.Report
/-!
# C11 — the report lists exactly the findings, each under its own pattern's section
-/
namespace Solstat

variable {P : Type} [DecidableEq P]

/-! ## reading a report back (on structured lines) -/

structure RBSt (P : Type) where
  current : Option P
  inList : Bool
  out : List (P × String × Nat)

def Category.sig (c : Category P) (p : P) : Option String := signatureLine (c.sectionLines p)

/-- recognise a pattern by its signature line, a list by `### Lines`, the end of a list by the empty
line; inside a list every entry belongs to the current pattern -/
def rbStep (c : Category P) (st : RBSt P) : Line → RBSt P
  | .entry f l =>
    if st.inList then
      match st.current with
      | some p => { st with out := st.out ++ [(p, f, l)] }
      | none => st
    else st
  | .text s =>
    if st.inList then (if s = "" then { st with inList := false } else st)
    else if s = "### Lines" then { st with inList := true }
    else
      match c.order.find? (fun q => c.sig q = some s) with
      | some q => { st with current := some q }
      | none => st

def rbRun (c : Category P) (st : RBSt P) (ls : List Line) : RBSt P := ls.foldl (rbStep c) st

theorem rbRun_append (c : Category P) (st : RBSt P) (a b : List Line) : rbRun c st (a ++ b) = rbRun c (rbRun c st a) b := by
  simp [rbRun, List.foldl_append]

/-- side conditions on the section texts (decided on the regenerated texts) -/
structure SigOK (c : Category P) : Prop where
  /-- every pattern has a signature line, which occurs in its own section -/
  has : ∀ p ∈ c.order, ∃ s, c.sig p = some s ∧ s ∈ c.sectionLines p
  /-- a section line that is some pattern's signature is the signature of the section's own pattern -/
  exclusive : ∀ p ∈ c.order, ∀ l ∈ c.sectionLines p, ∀ q ∈ c.order, c.sig q = some l → q = p
  /-- the list marker occurs in no section -/
  noMarker : ∀ p ∈ c.order, "### Lines" ∉ c.sectionLines p

/-- the findings as (pattern, file, line) triples, in the order given -/
def triples (G : Findings P) : List (P × String × Nat) :=
  G.flatMap fun e => e.2.flatMap fun fl => fl.2.map fun l => (e.1, fl.1, l)

/-- one text line outside a list that is not the marker: the state after the step -/
theorem rbStep_text (c : Category P) (st : RBSt P) (l : String) (hin : st.inList = false) (hne : l ≠ "### Lines") :
    rbStep c st (.text l) =
      match c.order.find? (fun q => c.sig q = some l) with
      | some q => { st with current := some q }
      | none => st := by
  simp [rbStep, hin, hne]

theorem rbRun_nil (c : Category P) (st : RBSt P) : rbRun c st [] = st := rfl
theorem rbRun_cons (c : Category P) (st : RBSt P) (l : Line) (ls : List Line) :
    rbRun c st (l :: ls) = rbRun c (rbStep c st l) ls := rfl

/-- running over the text lines of section `p` outside a list: the list flag stays off, nothing is
emitted, and once the signature has been seen the current pattern is `p` -/
theorem rb_section_lines (c : Category P) (ok : SigOK c) (p : P) (hp : p ∈ c.order) :
    ∀ (ls : List String) (st : RBSt P), (∀ l ∈ ls, l ∈ c.sectionLines p) → st.inList = false →
      (rbRun c st (ls.map Line.text)).inList = false ∧ (rbRun c st (ls.map Line.text)).out = st.out ∧
      ((st.current = some p ∨ ∃ s ∈ ls, c.sig p = some s) → (rbRun c st (ls.map Line.text)).current = some p)
  | [], st, _, hin => by
    rw [List.map_nil, rbRun_nil]
    refine ⟨hin, rfl, ?_⟩
    rintro (h | ⟨s, hs, _⟩)
    · exact h
    · cases hs
  | l :: ls, st, hsub, hin => by
    have hl : l ∈ c.sectionLines p := hsub l (by simp)
    have hne : l ≠ "### Lines" := fun e => ok.noMarker p hp (e ▸ hl)
    -- one step
    have hstep : (rbStep c st (.text l)).inList = false ∧ (rbStep c st (.text l)).out = st.out ∧
        ((st.current = some p ∨ c.sig p = some l) → (rbStep c st (.text l)).current = some p) := by
      rw [rbStep_text c st l hin hne]
      cases hf : c.order.find? (fun q => c.sig q = some l) with
      | none =>
        refine ⟨hin, rfl, ?_⟩
        rintro (h | h)
        · exact h
        · have := List.find?_eq_none.1 hf p hp
          simp [h] at this
      | some q =>
        have hq := List.find?_some hf
        have hqm := List.mem_of_find?_eq_some hf
        have : q = p := ok.exclusive p hp l hl q hqm (by simpa using hq)
        subst this
        exact ⟨hin, rfl, fun _ => rfl⟩
    have ih := rb_section_lines c ok p hp ls (rbStep c st (.text l)) (fun x hx => hsub x (by simp [hx])) hstep.1
    rw [List.map_cons, rbRun_cons]
    refine ⟨ih.1, ih.2.1.trans hstep.2.1, ?_⟩
    rintro (h | ⟨s, hs, hsig⟩)
    · exact ih.2.2 (Or.inl (hstep.2.2 (Or.inl h)))
    · rcases List.mem_cons.1 hs with rfl | hs'
      · exact ih.2.2 (Or.inl (hstep.2.2 (Or.inr hsig)))
      · exact ih.2.2 (Or.inr ⟨s, hs', hsig⟩)

/-- entries inside a list are attributed to the current pattern -/
theorem rb_entries (c : Category P) (p : P) : ∀ (files : Files) (st : RBSt P), st.inList = true → st.current = some p →
    (rbRun c st (entryLines files)).inList = true ∧ (rbRun c st (entryLines files)).current = some p ∧
    (rbRun c st (entryLines files)).out = st.out ++ files.flatMap (fun fl => fl.2.map fun l => (p, fl.1, l)) := by
  intro files
  unfold entryLines
  induction files with
  | nil => intro st h1 h2; simp [rbRun, h1, h2]
  | cons f fs ih =>
    intro st h1 h2
    simp only [List.flatMap_cons, rbRun_append]
    have hf : ∀ (ls : List Nat) (st : RBSt P), st.inList = true → st.current = some p →
        (rbRun c st (ls.map (Line.entry f.1))).inList = true ∧ (rbRun c st (ls.map (Line.entry f.1))).current = some p ∧
        (rbRun c st (ls.map (Line.entry f.1))).out = st.out ++ ls.map (fun l => (p, f.1, l)) := by
      intro ls
      induction ls with
      | nil => intro st h1 h2; simp [rbRun, h1, h2]
      | cons l ls ih2 =>
        intro st h1 h2
        simp only [List.map_cons, rbRun, List.foldl_cons]
        have hs : rbStep c st (.entry f.1 l) = { st with out := st.out ++ [(p, f.1, l)] } := by
          simp [rbStep, h1, h2]
        rw [hs]
        have := ih2 { st with out := st.out ++ [(p, f.1, l)] } h1 h2
        simp only [rbRun] at this
        refine ⟨this.1, this.2.1, ?_⟩
        rw [this.2.2]; simp
    have h3 := hf f.2 st h1 h2
    have h4 := ih (rbRun c st (f.2.map (Line.entry f.1))) h3.1 h3.2.1
    refine ⟨h4.1, h4.2.1, ?_⟩
    rw [h4.2.2, h3.2.2]; simp

/-- one block: afterwards the list flag is off and the block's entries have been attributed to its pattern -/
theorem rb_block (c : Category P) (ok : SigOK c) (p : P) (hp : p ∈ c.order) (files : Files) (st : RBSt P)
    (hin : st.inList = false) :
    (rbRun c st (sectionBlock c p files)).inList = false ∧
    (rbRun c st (sectionBlock c p files)).out = st.out ++ files.flatMap (fun fl => fl.2.map fun l => (p, fl.1, l)) := by
  unfold sectionBlock
  simp only [rbRun_append]
  obtain ⟨s, hs, hsm⟩ := ok.has p hp
  have h1 := rb_section_lines c ok p hp (c.sectionLines p) st (fun _ h => h) hin
  have hcur := h1.2.2 (Or.inr ⟨s, hsm, hs⟩)
  -- the marker
  have hmark : rbRun c (rbRun c st ((c.sectionLines p).map Line.text)) [Line.text "### Lines"] =
      { rbRun c st ((c.sectionLines p).map Line.text) with inList := true } := by
    rw [rbRun_cons, rbRun_nil]
    unfold rbStep
    simp only [h1.1, Bool.false_eq_true, if_false, if_true]
  rw [hmark]
  have h2 := rb_entries c p files { rbRun c st ((c.sectionLines p).map Line.text) with inList := true } rfl hcur
  -- the two empty lines
  have hend : ∀ st' : RBSt P, st'.inList = true →
      (rbRun c st' [Line.text "", Line.text ""]).inList = false ∧ (rbRun c st' [Line.text "", Line.text ""]).out = st'.out := by
    intro st' h
    have hne : ("" : String) ≠ "### Lines" := by decide
    have e1 : rbStep c st' (.text "") = { st' with inList := false } := by simp [rbStep, h]
    rw [rbRun_cons, rbRun_cons, rbRun_nil, e1, rbStep_text c _ "" rfl hne]
    cases c.order.find? (fun q => c.sig q = some "") <;> exact ⟨rfl, rfl⟩
  have h3 := hend _ h2.1
  refine ⟨h3.1, ?_⟩
  rw [h3.2, h2.2.2, h1.2.1]

/-- all blocks of a list of entries whose patterns are variants of the enum -/
theorem rb_blocksOf (c : Category P) (ok : SigOK c) : ∀ (G : Findings P) (st : RBSt P), (∀ e ∈ G, e.1 ∈ c.order) →
    st.inList = false →
    (rbRun c st (G.flatMap fun e => if e.2.isEmpty then [] else sectionBlock c e.1 e.2)).inList = false ∧
    (rbRun c st (G.flatMap fun e => if e.2.isEmpty then [] else sectionBlock c e.1 e.2)).out = st.out ++ triples G
  | [], st, _, hin => by simp [rbRun, triples, hin]
  | e :: es, st, hk, hin => by
    simp only [List.flatMap_cons, rbRun_append]
    by_cases hemp : e.2.isEmpty = true
    · have he : e.2 = [] := by simpa using hemp
      have ih := rb_blocksOf c ok es st (fun x hx => hk x (by simp [hx])) hin
      simp only [hemp, if_true, rbRun, List.foldl_nil] at ih ⊢
      refine ⟨ih.1, ?_⟩
      rw [ih.2]; simp [triples, he]
    · have hemp' : e.2.isEmpty = false := by simpa using hemp
      simp only [hemp', Bool.false_eq_true, if_false]
      have hb := rb_block c ok e.1 (hk e (by simp)) e.2 st hin
      have ih := rb_blocksOf c ok es _ (fun x hx => hk x (by simp [hx])) hb.1
      refine ⟨ih.1, ?_⟩
      rw [ih.2, hb.2]; simp [triples]

/-- text lines that contain no list marker leave the read-back state's list flag and output alone -/
theorem rb_plain_text (c : Category P) : ∀ (ls : List String) (st : RBSt P), "### Lines" ∉ ls → st.inList = false →
    (rbRun c st (ls.map Line.text)).inList = false ∧ (rbRun c st (ls.map Line.text)).out = st.out
  | [], st, _, hin => by rw [List.map_nil, rbRun_nil]; exact ⟨hin, rfl⟩
  | l :: ls, st, hno, hin => by
    have hne : l ≠ "### Lines" := fun e => hno (by simp [e])
    have hstep : (rbStep c st (.text l)).inList = false ∧ (rbStep c st (.text l)).out = st.out := by
      rw [rbStep_text c st l hin hne]
      cases c.order.find? (fun q => c.sig q = some l) <;> exact ⟨hin, rfl⟩
    have ih := rb_plain_text c ls (rbStep c st (.text l)) (fun h => hno (by simp [h])) hstep.1
    rw [List.map_cons, rbRun_cons]
    exact ⟨ih.1, ih.2.trans hstep.2⟩

theorem canon_known (c : Category P) (F : Findings P) (hk : ∀ e ∈ F, e.1 ∈ c.order) : ∀ e ∈ canon c F, e.1 ∈ c.order := by
  intro e he
  rw [canon_eq] at he
  have := (sortBy_perm _ _).mem_iff.1 he
  unfold normFiles at this
  obtain ⟨x, hx, rfl⟩ := List.mem_map.1 this
  exact hk x hx

/-- **C11 (read-back, one category).** Reading the blocks of a category back yields exactly the
findings, each attributed to the pattern whose section precedes it (in canonical order). -/
theorem readBack_blocks (c : Category P) (ok : SigOK c) (F : Findings P) (hk : ∀ e ∈ F, e.1 ∈ c.order)
    (st : RBSt P) (hin : st.inList = false) :
    (rbRun c st (blocks c F)).inList = false ∧ (rbRun c st (blocks c F)).out = st.out ++ triples (canon c F) := by
  unfold blocks
  exact rb_blocksOf c ok (canon c F) st (canon_known c F hk) hin

theorem triples_normFiles_perm (F : Findings P) : (triples (normFiles F)).Perm (triples F) := by
  unfold triples normFiles
  induction F with
  | nil => exact List.Perm.refl _
  | cons e es ih =>
    simp only [List.map_cons, List.flatMap_cons]
    exact List.Perm.append (List.Perm.flatMap_right _ (sortBy_perm fileLe e.2)) ih

/-- the canonical order is a rearrangement: as a multiset the triples read back are the findings -/
theorem triples_canon_perm (c : Category P) (F : Findings P) : (triples (canon c F)).Perm (triples F) := by
  rw [canon_eq]
  have h1 : (triples (sortBy (entryLe c) (normFiles F))).Perm (triples (normFiles F)) := by
    unfold triples; exact List.Perm.flatMap_right _ (sortBy_perm _ _)
  exact h1.trans (triples_normFiles_perm F)

/-- **C11 (optimisation part).** -/
theorem readBack_optimizationReport (ok : SigOK optCategory) (hov : "### Lines" ∉ Gen.sec_opt_overview_before ++ Gen.sec_opt_overview_after)
    (F : Findings Gen.Optimization) :
    (rbRun optCategory ⟨none, false, []⟩ (optimizationReport optCategory F)).out = triples (canon optCategory F) := by
  unfold optimizationReport overviewLines
  simp only [rbRun_append, List.append_assoc]
  have hno1 : "### Lines" ∉ Gen.sec_opt_overview_before := fun h => hov (by simp [h])
  have hno2 : "### Lines" ∉ Gen.sec_opt_overview_after := fun h => hov (by simp [h])
  have h1 := rb_plain_text optCategory Gen.sec_opt_overview_before ⟨none, false, []⟩ hno1 rfl
  have hline : ∀ (st : RBSt Gen.Optimization) (s : String), s ≠ "### Lines" → st.inList = false →
      (rbRun optCategory st [Line.text s]).inList = false ∧ (rbRun optCategory st [Line.text s]).out = st.out := by
    intro st s hs hin
    have := rb_plain_text optCategory [s] st (by simp; exact fun e => hs e.symm) hin
    simpa using this
  have hpre : Gen.sec_opt_overview_linePre ++ toString (totalEntries F) ++ Gen.sec_opt_overview_linePost ≠ "### Lines" := by
    intro e
    have : ("### Lines" : String).toList.head? = some '#' := by decide
    rw [← e] at this
    have h2 : (Gen.sec_opt_overview_linePre ++ toString (totalEntries F) ++ Gen.sec_opt_overview_linePost).toList.getLast? = some ')' := by
      simp [String.toList_append, Gen.sec_opt_overview_linePost]
    have h3 : ("### Lines" : String).toList.getLast? = some 's' := by decide
    rw [e] at h2
    rw [h3] at h2
    cases h2
  have h2 := hline _ _ hpre h1.1
  have h3 := rb_plain_text optCategory Gen.sec_opt_overview_after _ hno2 h2.1
  have hk : ∀ e ∈ F, e.1 ∈ optCategory.order := fun e _ => all_variants_known.1 e.1
  have h4 := readBack_blocks optCategory ok F hk _ h3.1
  rw [h4.2, h3.2, h2.2, h1.2]
  simp


/-! ## the side conditions hold of the regenerated section texts -/

/-- executable form of `SigOK` -/
def sigOKb (c : Category P) : Bool :=
  c.order.all fun p =>
    (match c.sig p with | some s => (c.sectionLines p).contains s | none => false) &&
    !(c.sectionLines p).contains "### Lines" &&
    (c.sectionLines p).all fun l => c.order.all fun q => q = p || c.sig q != some l

theorem sigOK_of_b (c : Category P) (h : sigOKb c = true) : SigOK c := by
  unfold sigOKb at h
  rw [List.all_eq_true] at h
  refine ⟨?_, ?_, ?_⟩
  · intro p hp
    have := h p hp
    simp only [Bool.and_eq_true] at this
    cases hs : c.sig p with
    | none => simp [hs] at this
    | some s => exact ⟨s, rfl, by simpa [hs] using this.1.1⟩
  · intro p hp l hl q hq hsig
    have := h p hp
    simp only [Bool.and_eq_true, List.all_eq_true] at this
    have h2 := this.2 l hl q hq
    simp only [Bool.or_eq_true, decide_eq_true_eq, bne_iff_ne, ne_eq] at h2
    rcases h2 with h2 | h2
    · exact h2
    · exact absurd hsig h2
  · intro p hp hm
    have := h p hp
    simp only [Bool.and_eq_true, Bool.not_eq_true'] at this
    have h2 := this.1.2
    simp [hm] at h2

theorem sigOK_opt : SigOK optCategory := sigOK_of_b _ (by decide +kernel)
theorem sigOK_vuln : SigOK vulnCategory := sigOK_of_b _ (by decide +kernel)
theorem sigOK_qa : SigOK qaCategory := sigOK_of_b _ (by decide +kernel)

theorem overviews_have_no_marker :
    "### Lines" ∉ Gen.sec_opt_overview_before ++ Gen.sec_opt_overview_after ∧
    "### Lines" ∉ Gen.sec_vuln_overview_before ++ Gen.sec_vuln_overview_after ∧
    "### Lines" ∉ Gen.sec_qa_overview := by decide +kernel

/-- **C11, optimisation part**: the entries read back are the findings, as a multiset -/
theorem C11_optimization (F : Findings Gen.Optimization) :
    ((rbRun optCategory ⟨none, false, []⟩ (optimizationReport optCategory F)).out).Perm (triples F) := by
  rw [readBack_optimizationReport sigOK_opt overviews_have_no_marker.1 F]
  exact triples_canon_perm optCategory F

/-- **C11, QA part** -/
theorem C11_qa (F : Findings Gen.QualityAssurance) :
    ((rbRun qaCategory ⟨none, false, []⟩ (qaReport qaCategory F)).out).Perm (triples F) := by
  unfold qaReport
  rw [rbRun_append]
  have h1 := rb_plain_text qaCategory Gen.sec_qa_overview ⟨none, false, []⟩ overviews_have_no_marker.2.2 rfl
  have hk : ∀ e ∈ F, e.1 ∈ qaCategory.order := fun e _ => all_variants_known.2.2 e.1
  have h2 := readBack_blocks qaCategory sigOK_qa F hk _ h1.1
  rw [h2.2, h1.2]
  simpa using triples_canon_perm qaCategory F

/-! ## the vulnerability report: three severity parts -/

/-- reading one severity part back appends exactly the findings of that severity -/
theorem rb_severityPart (sevName : String) (sev : Gen.Severity) (F : Findings Gen.Vulnerability)
    (hs : sevName ∈ ["high", "medium", "low"]) (st : RBSt Gen.Vulnerability) (hin : st.inList = false) :
    (rbRun vulnCategory st (severityPart vulnCategory sevName sev F)).inList = false ∧
    (rbRun vulnCategory st (severityPart vulnCategory sevName sev F)).out =
      st.out ++ triples (canon vulnCategory (F.filter fun e => severityOf e.1 = sev)) := by
  have hk : ∀ e ∈ F.filter (fun e => severityOf e.1 = sev), e.1 ∈ vulnCategory.order := fun e _ => all_variants_known.2.1 e.1
  have hb := readBack_blocks vulnCategory sigOK_vuln (F.filter fun e => severityOf e.1 = sev) hk
  unfold severityPart
  simp only
  split
  · rename_i hc
    simp only [Bool.and_eq_true] at hc
    have hnil : blocks vulnCategory (F.filter fun e => severityOf e.1 = sev) = [] := by simpa using hc.1
    have h0 := hb st hin
    rw [hnil, rbRun_nil] at h0
    rw [rbRun_nil]
    exact ⟨hin, h0.2⟩
  · -- the heading is one plain line without the list marker
    have hhead : ∃ h : String, linesOfLiteral (headingOf sevName).1 = [Line.text h] ∧ h ≠ "### Lines" := by
      simp only [List.mem_cons, List.mem_singleton, List.not_mem_nil, or_false] at hs
      rcases hs with rfl | rfl | rfl
      · exact ⟨"## High Risk", by simp [headingOf, heading_literals_ok, linesOfLiteral_heading], by decide⟩
      · exact ⟨"## Medium Risk", by simp [headingOf, heading_literals_ok, linesOfLiteral_heading], by decide⟩
      · exact ⟨"## Low Risk", by simp [headingOf, heading_literals_ok, linesOfLiteral_heading], by decide⟩
    obtain ⟨h, hl, hne⟩ := hhead
    rw [hl, rbRun_append]
    have h1 := rb_plain_text vulnCategory [h] st (by simp; exact fun e => hne e.symm) hin
    simp only [List.map_cons, List.map_nil] at h1
    have h2 := hb _ h1.1
    exact ⟨h2.1, by rw [h2.2, h1.2]⟩

/-- the three severities partition the findings -/
theorem triples_by_severity (F : Findings Gen.Vulnerability) :
    (triples (F.filter fun e => severityOf e.1 = .High) ++ triples (F.filter fun e => severityOf e.1 = .Medium) ++
      triples (F.filter fun e => severityOf e.1 = .Low)).Perm (triples F) := by
  induction F with
  | nil => simp [triples]
  | cons e es ih =>
    have hcons : ∀ G : Findings Gen.Vulnerability, triples (e :: G) = triples [e] ++ triples G := by
      intro G; simp [triples]
    rw [hcons es]
    cases hsev : severityOf e.1 with
    | High =>
      have h1 : (decide (Gen.Severity.High = Gen.Severity.Medium)) = false := by decide
      have h2 : (decide (Gen.Severity.High = Gen.Severity.Low)) = false := by decide
      simp only [List.filter_cons, hsev, h1, h2, decide_true, if_true, Bool.false_eq_true, if_false]
      rw [hcons]
      refine List.Perm.trans ?_ (List.Perm.append_left _ ih)
      rw [List.perm_iff_count]; intro a; simp only [List.count_append]; omega
    | Medium =>
      have h1 : (decide (Gen.Severity.Medium = Gen.Severity.High)) = false := by decide
      have h2 : (decide (Gen.Severity.Medium = Gen.Severity.Low)) = false := by decide
      simp only [List.filter_cons, hsev, h1, h2, decide_true, if_true, Bool.false_eq_true, if_false]
      rw [hcons]
      refine List.Perm.trans ?_ (List.Perm.append_left _ ih)
      rw [List.perm_iff_count]; intro a; simp only [List.count_append]; omega
    | Low =>
      have h1 : (decide (Gen.Severity.Low = Gen.Severity.High)) = false := by decide
      have h2 : (decide (Gen.Severity.Low = Gen.Severity.Medium)) = false := by decide
      simp only [List.filter_cons, hsev, h1, h2, decide_true, if_true, Bool.false_eq_true, if_false]
      rw [hcons]
      refine List.Perm.trans ?_ (List.Perm.append_left _ ih)
      rw [List.perm_iff_count]; intro a; simp only [List.count_append]; omega

/-- **C11, vulnerability part**: the entries read back from the vulnerability report are the findings, as a
multiset, each attributed to the pattern whose section precedes it (whatever severities occur) -/
theorem C11_vulnerability (F : Findings Gen.Vulnerability) :
    ((rbRun vulnCategory ⟨none, false, []⟩ (vulnerabilityReport vulnCategory F)).out).Perm (triples F) := by
  unfold vulnerabilityReport overviewLines
  simp only [rbRun_append, List.append_assoc]
  have hov := overviews_have_no_marker.2.1
  have hno1 : "### Lines" ∉ Gen.sec_vuln_overview_before := fun h => hov (by simp [h])
  have hno2 : "### Lines" ∉ Gen.sec_vuln_overview_after := fun h => hov (by simp [h])
  have h1 := rb_plain_text vulnCategory Gen.sec_vuln_overview_before ⟨none, false, []⟩ hno1 rfl
  have hpre : Gen.sec_vuln_overview_linePre ++ toString (totalEntries F) ++ Gen.sec_vuln_overview_linePost ≠ "### Lines" := by
    intro e
    have h2 : (Gen.sec_vuln_overview_linePre ++ toString (totalEntries F) ++ Gen.sec_vuln_overview_linePost).toList.getLast? = some ')' := by
      simp [String.toList_append, Gen.sec_vuln_overview_linePost]
    have h3 : ("### Lines" : String).toList.getLast? = some 's' := by decide
    rw [e, h3] at h2
    cases h2
  have h2 := rb_plain_text vulnCategory [_] _ (by simp; exact fun e => hpre e.symm) h1.1
  simp only [List.map_cons, List.map_nil] at h2
  have h3 := rb_plain_text vulnCategory Gen.sec_vuln_overview_after _ hno2 h2.1
  have h4 := rb_severityPart "high" .High F (by simp) _ h3.1
  have h5 := rb_severityPart "medium" .Medium F (by simp) _ h4.1
  have h6 := rb_severityPart "low" .Low F (by simp) _ h5.1
  rw [h6.2, h5.2, h4.2, h3.2, h2.2, h1.2]
  simp only [List.nil_append]
  refine List.Perm.trans ?_ (triples_by_severity F)
  exact List.Perm.append (List.Perm.append (triples_canon_perm _ _) (triples_canon_perm _ _)) (triples_canon_perm _ _)

/-- **C11, a pattern's section appears iff the pattern has a finding** (within a category's blocks) -/
theorem section_iff (c : Category P) (ok : SigOK c) (F : Findings P) (hk : ∀ e ∈ F, e.1 ∈ c.order) (p : P) (hp : p ∈ c.order)
    (s : String) (hs : c.sig p = some s) :
    Line.text s ∈ blocks c F ↔ ∃ e ∈ F, e.1 = p ∧ e.2 ≠ [] := by
  obtain ⟨s', hs', hsm⟩ := ok.has p hp
  have hss : s' = s := by rw [hs] at hs'; exact (Option.some.inj hs').symm
  subst hss
  have hsne : s' ≠ "### Lines" := fun e => ok.noMarker p hp (e ▸ hsm)
  have hsne2 : s' ≠ "" := by
    intro e
    subst e
    unfold Category.sig signatureLine at hs
    have := List.find?_some hs
    simp at this
  unfold blocks
  simp only [List.mem_flatMap]
  constructor
  · rintro ⟨e, he, hl⟩
    have hec := canon_known c F hk e he
    by_cases hemp : e.2.isEmpty = true
    · simp [hemp] at hl
    · have hemp' : e.2.isEmpty = false := by simpa using hemp
      simp only [hemp', Bool.false_eq_true, if_false, sectionBlock, List.mem_append, List.mem_map, List.mem_cons,
        List.mem_singleton, List.not_mem_nil, or_false] at hl
      -- the line is one of the section's lines: then the section is p's
      have hline : s' ∈ c.sectionLines e.1 := by
        rcases hl with ((⟨x, hx, hxe⟩ | hxe) | hxe) | hxe
        · cases hxe; exact hx
        · cases hxe; exact absurd rfl hsne
        · unfold entryLines at hxe
          simp only [List.mem_flatMap, List.mem_map] at hxe
          obtain ⟨_, _, _, _, hc⟩ := hxe
          cases hc
        · rcases hxe with hxe | hxe <;> cases hxe <;> exact absurd rfl hsne2
      have hpe : p = e.1 := ok.exclusive e.1 hec s' hline p hp hs
      subst hpe
      rw [canon_eq] at he
      have hmem := (sortBy_perm _ _).mem_iff.1 he
      unfold normFiles at hmem
      obtain ⟨x, hx, hxe⟩ := List.mem_map.1 hmem
      refine ⟨x, hx, by rw [← hxe], ?_⟩
      intro hnil
      rw [← hxe] at hemp'
      simp [hnil, sortBy] at hemp'
  · rintro ⟨e, he, rfl, hne⟩
    refine ⟨(e.1, sortBy fileLe e.2), ?_, ?_⟩
    · rw [canon_eq]
      exact (sortBy_perm _ _).mem_iff.2 (by unfold normFiles; exact List.mem_map.2 ⟨e, he, rfl⟩)
    · have hemp : (sortBy fileLe e.2).isEmpty = false := by
        cases hh : sortBy fileLe e.2 with
        | nil =>
          have := (sortBy_perm fileLe e.2)
          rw [hh] at this
          exact absurd this.symm.eq_nil hne
        | cons _ _ => rfl
      simp only [hemp, Bool.false_eq_true, if_false, sectionBlock, List.mem_append, List.mem_map]
      exact Or.inl (Or.inl (Or.inl ⟨s', hsm, rfl⟩))

end Solstat
