import Solstat.Props.Lift
import Solstat.Props.TreeLemmas
import Solstat.Detectors
import Solstat.Spec.C05
/-!
# C05 — expression-level gas detectors flag exactly their documented pattern
-/
namespace Solstat
open Solstat.Gen T View

theorem isTypeExpr_iff (tag : Tag) (n : T) : isTypeExpr tag n = true ↔ View.typeTag n = some tag := by
  constructor
  · intro h; unfold isTypeExpr at h; split at h <;> simp_all [View.typeTag]
  · intro h; obtain ⟨l, ks, rfl⟩ := View.typeTag_inv h; simp [isTypeExpr]

/-- what the property asks of a detector `d` with specification `s`, for every file `f`:
exactly the `exact` forms anywhere in the file (outside inline assembly) are reported, at their
`reportLoc`; canonical forms are exact; exact forms are never clearly-non-matching. -/
structure MeetsOn (pre : T → Prop) (d : T → List Loc) (s : NodeSpec) : Prop where
  exact_iff : ∀ (f : T) (l : Loc), pre f → (l ∈ d f ↔ ∃ n ∈ allNodes f, s.exact f n = true ∧ s.reportLoc n = some l)
  canon_exact : ∀ f n, s.canon f n = true → s.exact f n = true
  exact_not_nonmatch : ∀ f n, s.exact f n = true → s.nonMatch f n = false

/-- no precondition on the file -/
abbrev Meets (d : T → List Loc) (s : NodeSpec) : Prop := MeetsOn (fun _ => True) d s

/-- **C05, "if" half**: a canonical form anywhere in the file is reported -/
theorem MeetsOn.canonical_reported {pre d s} (m : MeetsOn pre d s) (f n : T) (hp : pre f) (hn : n ∈ allNodes f)
    (hc : s.canon f n = true) (l : Loc) (hl : s.reportLoc n = some l) : l ∈ d f :=
  (m.exact_iff f l hp).2 ⟨n, hn, m.canon_exact f n hc, hl⟩

/-- **C05, "only if" half**: whatever is reported is the location of a node of the file that is
not a clearly-non-matching form -/
theorem MeetsOn.reported_matches {pre d s} (m : MeetsOn pre d s) (f : T) (hp : pre f) (l : Loc) (h : l ∈ d f) :
    ∃ n ∈ allNodes f, s.nonMatch f n = false ∧ s.reportLoc n = some l := by
  obtain ⟨n, hn, he, hl⟩ := (m.exact_iff f l hp).1 h
  exact ⟨n, hn, m.exact_not_nonmatch f n he, hl⟩

/-- generic step: a walker-based detector whose per-node function agrees with the specification -/
theorem meets_of_at (ts : List Target) (at_ : T → Option Loc) (s : NodeSpec)
    (hkind : ∀ n l, at_ n = some l → ∃ tag kids, n = .node tag kids ∧ isNodeTag tag = true ∧ specKind tag ∈ ts)
    (hiff : ∀ f n l, at_ n = some l ↔ s.exact f n = true ∧ s.reportLoc n = some l)
    (f : T) (l : Loc) :
    l ∈ (extract ts f).filterMap at_ ↔ ∃ n ∈ allNodes f, s.exact f n = true ∧ s.reportLoc n = some l := by
  rw [mem_extract_filterMap ts at_ f l hkind]
  constructor
  · rintro ⟨n, hn, h⟩; exact ⟨n, hn, (hiff f n l).1 h⟩
  · rintro ⟨n, hn, h⟩; exact ⟨n, hn, (hiff f n l).2 h⟩

/-! ## address_balance -/

theorem addressBalanceAt_iff (f n : T) (l : Loc) :
    addressBalanceAt n = some l ↔ specAddressBalance.exact f n = true ∧ specAddressBalance.reportLoc n = some l := by
  constructor
  · intro h
    unfold addressBalanceAt at h
    split at h
    · split at h
      · rename_i hc
        simp only [Bool.and_eq_true, decide_eq_true_eq, isTypeExpr_iff] at hc
        simp [specAddressBalance, memberAccess, addressConversionArgs, call, View.loc, h, hc]
      · simp at h
    · simp at h
  · rintro ⟨he, hl⟩
    simp only [specAddressBalance] at he hl
    split at he
    · rename_i l0 obj id hm
      have := memberAccess_inv hm; subst this
      simp only [Bool.and_eq_true, decide_eq_true_eq] at he
      obtain ⟨hid, hc⟩ := he
      unfold addressConversionArgs at hc
      split at hc
      · rename_i l1 callee args hcall
        have := call_inv hcall; subst this
        split at hc
        · rename_i hty
          simp [View.loc] at hl
          simp [addressBalanceAt, (isTypeExpr_iff _ _).2 hty, hid, hl]
        · simp at hc
      · simp at hc
    · simp at he

theorem addressBalance_meets : Meets addressBalance specAddressBalance where
  exact_iff f l _ := by
    unfold addressBalance
    apply meets_of_at
    · intro n l h
      unfold addressBalanceAt at h
      split at h
      · exact ⟨_, _, rfl, by decide, by decide⟩
      · simp at h
    · exact addressBalanceAt_iff
  canon_exact f n h := by
    simp only [specAddressBalance] at h ⊢
    split at h
    · simp only [Bool.and_eq_true, decide_eq_true_eq] at h ⊢
      refine ⟨h.1, ?_⟩
      have h2 := h.2
      split at h2 <;> simp_all
    · simp at h
  exact_not_nonmatch f n h := by
    simp only [specAddressBalance] at h ⊢
    split at h
    · simp [h]
    · simp at h


/-! ## optimal_comparison, solidity_math (tag tests) -/

theorem optimalComparisonAt_iff (f n : T) (l : Loc) :
    optimalComparisonAt n = some l ↔ specOptimalComparison.exact f n = true ∧ specOptimalComparison.reportLoc n = some l := by
  constructor
  · intro h
    unfold optimalComparisonAt at h
    split at h <;> simp_all [specOptimalComparison, tagIn, T.tag?, View.loc]
  · rintro ⟨he, hl⟩
    cases n with
    | node tag kids =>
      cases kids with
      | nil => simp [specOptimalComparison, View.loc] at hl
      | cons k ks =>
        simp [specOptimalComparison, tagIn, T.tag?] at he
        simp [specOptimalComparison, View.loc] at hl
        rcases he with rfl | rfl <;> simp [optimalComparisonAt, hl]
    | _ => simp [specOptimalComparison, tagIn, T.tag?] at he

theorem optimalComparison_meets : Meets optimalComparison specOptimalComparison where
  exact_iff f l _ := by
    unfold optimalComparison
    apply meets_of_at
    · intro n l h
      unfold optimalComparisonAt at h
      split at h
      · exact ⟨_, _, rfl, by decide, by decide⟩
      · exact ⟨_, _, rfl, by decide, by decide⟩
      · simp at h
    · exact optimalComparisonAt_iff
  canon_exact f n h := h
  exact_not_nonmatch f n h := by simp_all [specOptimalComparison]

theorem solidityMathAt_iff (f n : T) (l : Loc) :
    solidityMathAt n = some l ↔ specSolidityMath.exact f n = true ∧ specSolidityMath.reportLoc n = some l := by
  constructor
  · intro h
    unfold solidityMathAt at h
    split at h <;> simp_all [specSolidityMath, tagIn, T.tag?, View.loc]
  · rintro ⟨he, hl⟩
    cases n with
    | node tag kids =>
      cases kids with
      | nil => simp [specSolidityMath, View.loc] at hl
      | cons k ks =>
        simp [specSolidityMath, tagIn, T.tag?] at he
        simp [specSolidityMath, View.loc] at hl
        rcases he with rfl | rfl | rfl | rfl <;> simp [solidityMathAt, hl]
    | _ => simp [specSolidityMath, tagIn, T.tag?] at he

theorem solidityMath_meets : Meets solidityMath specSolidityMath where
  exact_iff f l _ := by
    unfold solidityMath
    apply meets_of_at
    · intro n l h
      unfold solidityMathAt at h
      split at h
      · exact ⟨_, _, rfl, by decide, by decide⟩
      · exact ⟨_, _, rfl, by decide, by decide⟩
      · exact ⟨_, _, rfl, by decide, by decide⟩
      · exact ⟨_, _, rfl, by decide, by decide⟩
      · simp at h
    · exact solidityMathAt_iff
  canon_exact f n h := h
  exact_not_nonmatch f n h := by simp_all [specSolidityMath]

/-! ## `==` / `!=` with a distinguished operand: address_zero, bool_equals_bool -/

theorem checkAddressZero_iff (e : T) : checkAddressZero e = isAddressZeroish e := by
  unfold checkAddressZero isAddressZeroish addressConversionArgs
  split
  · rename_i l callee args
    by_cases hty : isTypeExpr .Type_Address callee = true
    · have := (isTypeExpr_iff _ _).1 hty
      simp only [call, hty, this, Bool.true_and, if_true]
      cases h : (vecItems args).head? with
      | none => simp
      | some a =>
        simp only
        split
        · rename_i heq
          simp only [Option.some.injEq] at heq
          subst heq
          simp [numberLit]
        · rename_i hne
          cases hn : numberLit a with
          | none => simp
          | some de =>
            obtain ⟨d, e⟩ := de
            obtain ⟨l, rfl⟩ := numberLit_inv hn
            exact absurd rfl (hne l d e)
    · have hty' : isTypeExpr .Type_Address callee = false := by simpa using hty
      have : typeTag callee ≠ some .Type_Address := fun h => hty ((isTypeExpr_iff _ _).2 h)
      simp [call, hty', this]
  · rename_i hne
    cases hc : call e with
    | none => simp
    | some x =>
      obtain ⟨l, c, a⟩ := x
      have := call_inv hc
      exact absurd this (hne l c a)

theorem isBoolLit_iff (e : T) : isBoolLit e = isBoolLiteral e := by
  unfold isBoolLit isBoolLiteral
  split <;> simp_all [T.tag?]
  rename_i hne
  cases e with
  | node tag kids => simp [T.tag?]; intro h; subst h; exact hne kids rfl
  | _ => simp [T.tag?]

theorem eqNeAt_iff (p q : T → Bool) (hpq : ∀ e, p e = q e) (at_ : T → Option Loc)
    (hat : ∀ n, at_ n = match n with
      | .node .Expression_NotEqual [loc, l, r] => if p l || p r then Loc.ofT loc else none
      | .node .Expression_Equal [loc, l, r] => if p l || p r then Loc.ofT loc else none
      | _ => none)
    (n : T) (l : Loc) : at_ n = some l ↔ eqOrNeWith q n = true ∧ View.loc n = some l := by
  rw [hat]
  constructor
  · intro h
    split at h
    · split at h
      · rename_i hc; simp [eqOrNeWith, binary, View.loc, h, ← hpq]; simpa using hc
      · simp at h
    · split at h
      · rename_i hc; simp [eqOrNeWith, binary, View.loc, h, ← hpq]; simpa using hc
      · simp at h
    · simp at h
  · rintro ⟨he, hl⟩
    unfold eqOrNeWith at he
    split at he
    · rename_i tag loc a b hb
      have := binary_inv hb; subst this
      simp only [Bool.and_eq_true, Bool.or_eq_true, decide_eq_true_eq] at he
      simp [View.loc] at hl
      rcases he.1 with rfl | rfl
      · have : (p a || p b) = true := by simpa [hpq] using he.2
        simp [this, hl]
      · have : (p a || p b) = true := by simpa [hpq] using he.2
        simp [this, hl]
    · simp at he

theorem canon_zeroish (e : T) (he : isAddressZeroCanon e = true) : isAddressZeroish e = true := by
  unfold isAddressZeroCanon at he
  unfold isAddressZeroish
  cases hargs : addressConversionArgs e with
  | none => simp [hargs] at he
  | some args =>
    simp only [hargs] at he ⊢
    split at he
    · rename_i x hx
      have he' : numberLit x = some ("0", "") := by simpa using he
      simp [hx, he']
    · simp at he

theorem addressZero_meets : Meets addressZero specAddressZero where
  exact_iff f l _ := by
    unfold addressZero
    apply meets_of_at
    · intro n l h
      unfold addressZeroAt at h
      split at h
      · exact ⟨_, _, rfl, by decide, by decide⟩
      · exact ⟨_, _, rfl, by decide, by decide⟩
      · simp at h
    · intro f n l
      exact eqNeAt_iff checkAddressZero isAddressZeroish checkAddressZero_iff addressZeroAt (fun n => by unfold addressZeroAt; rfl) n l
  canon_exact f n h := by
    simp only [specAddressZero, eqOrNeWith] at h ⊢
    split at h
    · rename_i tag loc a b hb
      simp only [Bool.and_eq_true, Bool.or_eq_true] at h ⊢
      refine ⟨h.1, ?_⟩
      rcases h.2 with h2 | h2
      · exact Or.inl (canon_zeroish _ h2)
      · exact Or.inr (canon_zeroish _ h2)
    · simp at h
  exact_not_nonmatch f n h := by simp_all [specAddressZero]

theorem boolEqualsBool_meets : Meets boolEqualsBool specBoolEqualsBool where
  exact_iff f l _ := by
    unfold boolEqualsBool
    apply meets_of_at
    · intro n l h
      unfold boolEqualsBoolAt at h
      split at h
      · exact ⟨_, _, rfl, by decide, by decide⟩
      · exact ⟨_, _, rfl, by decide, by decide⟩
      · simp at h
    · intro f n l
      exact eqNeAt_iff isBoolLit isBoolLiteral isBoolLit_iff boolEqualsBoolAt (fun n => by unfold boolEqualsBoolAt; rfl) n l
  canon_exact f n h := h
  exact_not_nonmatch f n h := by simp_all [specBoolEqualsBool]


/-! ## multiple_require -/

theorem multipleRequireAt_iff (f n : T) (l : Loc) :
    multipleRequireAt n = some l ↔ specMultipleRequire.exact f n = true ∧ specMultipleRequire.reportLoc n = some l := by
  constructor
  · intro h
    unfold multipleRequireAt at h
    split at h
    · split at h
      · rename_i hc
        simp [specMultipleRequire, isRequireWithAnd, call, View.loc, h]
        simpa using hc
      · simp at h
    · simp at h
  · rintro ⟨he, hl⟩
    simp only [specMultipleRequire, isRequireWithAnd] at he hl
    split at he
    · rename_i l0 callee args hcall
      have := call_inv hcall; subst this
      simp [View.loc] at hl
      simp only [multipleRequireAt, he, if_true, hl]
    · simp at he

theorem multipleRequire_meets : Meets multipleRequire specMultipleRequire where
  exact_iff f l _ := by
    unfold multipleRequire
    apply meets_of_at
    · intro n l h
      unfold multipleRequireAt at h
      split at h
      · exact ⟨_, _, rfl, by decide, by decide⟩
      · simp at h
    · exact multipleRequireAt_iff
  canon_exact f n h := h
  exact_not_nonmatch f n h := by simp_all [specMultipleRequire]

/-! ## solidity_keccak256 -/

theorem keccakAt_iff (f n : T) (l : Loc) :
    keccakAt n = some l ↔ specSolidityKeccak256.exact f n = true ∧ specSolidityKeccak256.reportLoc n = some l := by
  constructor
  · intro h
    unfold keccakAt at h
    split at h
    · split at h
      · rename_i hc
        simp [specSolidityKeccak256, keccakCalleeLoc, call, varIdent, ident, hc, h]
      · simp at h
    · simp at h
  · rintro ⟨he, hl⟩
    simp only [specSolidityKeccak256] at he hl
    unfold keccakCalleeLoc at he hl
    split at he
    · rename_i l0 callee args hcall
      have := call_inv hcall; subst this
      simp only [hcall] at hl
      split at he
      · rename_i id hv
        have := varIdent_inv hv; subst this
        simp only [hv] at hl
        split at he
        · rename_i il name hi
          have := ident_inv hi; subst this
          simp only [hi] at hl
          by_cases hn : name = "keccak256"
          · simp [hn] at hl
            simp [keccakAt, hn, hl]
          · simp [hn] at he
        · simp at he
      · simp at he
    · simp at he

theorem solidityKeccak256_meets : Meets solidityKeccak256 specSolidityKeccak256 where
  exact_iff f l _ := by
    unfold solidityKeccak256
    apply meets_of_at
    · intro n l h
      unfold keccakAt at h
      split at h
      · exact ⟨_, _, rfl, by decide, by decide⟩
      · simp at h
    · exact keccakAt_iff
  canon_exact f n h := h
  exact_not_nonmatch f n h := by
    simp only [specSolidityKeccak256] at h ⊢
    cases hk : keccakCalleeLoc n <;> simp_all


/-! ## shift_math -/

theorem pow2_pos (k : Nat) : 0 < 2 ^ k := Nat.two_pow_pos k

theorem isPow2Fuel_iff : ∀ (fuel n : Nat), n < fuel → (isPow2Fuel fuel n = true ↔ ∃ k, n = 2 ^ k)
  | 0, _, h => by omega
  | fuel + 1, n, h => by
    unfold isPow2Fuel
    by_cases h1 : n = 1
    · subst h1; simp; exact ⟨0, rfl⟩
    · by_cases h0 : n = 0
      · subst h0; simp
        intro k hk; have := pow2_pos k; omega
      · by_cases he : n % 2 = 0
        · simp only [h1, h0, he, if_true, if_false]
          rw [isPow2Fuel_iff fuel (n / 2) (by omega)]
          constructor
          · rintro ⟨k, hk⟩; exact ⟨k + 1, by rw [Nat.pow_succ]; omega⟩
          · rintro ⟨k, hk⟩
            cases k with
            | zero => simp at hk; omega
            | succ k => exact ⟨k, by rw [Nat.pow_succ] at hk; omega⟩
        · simp only [h1, h0, he, if_false]
          simp
          intro k hk
          cases k with
          | zero => simp at hk; omega
          | succ k => rw [Nat.pow_succ] at hk; omega

theorem isPow2_iff (n : Nat) : isPow2 n = true ↔ ∃ k, n = 2 ^ k := isPow2Fuel_iff (n + 1) n (by omega)

theorem isPowerOfTwo_iff (n : Nat) : isPowerOfTwo n = true ↔ ∃ k, n = 2 ^ k := by
  unfold isPowerOfTwo
  simp only [decide_eq_true_eq]
  constructor
  · intro h; exact ⟨n.log2, h.symm⟩
  · rintro ⟨k, rfl⟩; rw [Nat.log2_two_pow]

theorem isPow2_eq (n : Nat) : isPow2 n = isPowerOfTwo n := by
  cases h : isPowerOfTwo n with
  | true => exact (isPow2_iff n).2 ((isPowerOfTwo_iff n).1 h)
  | false =>
    cases h2 : isPow2 n with
    | false => rfl
    | true => have := (isPowerOfTwo_iff n).2 ((isPow2_iff n).1 h2); simp_all

theorem digitsVal_eq (cs : List Char) (acc : Nat) :
    digitsVal cs acc = cs.foldl (fun acc c => acc * 10 + (c.toNat - 48)) acc := by
  induction cs generalizing acc with
  | nil => rfl
  | cons c cs ih => simp [digitsVal, ih]

theorem isPow2Literal_iff (e : T) : isPow2Literal e = isPow2LiteralSpec e := by
  unfold isPow2Literal isPow2LiteralSpec
  split
  · rename_i l v ex
    simp only [numberLit, allAsciiDigits, decimalValue, digitsVal_eq, isPow2_eq]
    have : (fun c => decide ('0' ≤ c) && decide (c ≤ '9')) = isDigitC := by funext c; rfl
    rw [this]; simp [Bool.and_assoc]
  · rename_i hne
    cases hn : numberLit e with
    | none => rfl
    | some de =>
      obtain ⟨d, ex⟩ := de
      obtain ⟨l, rfl⟩ := numberLit_inv hn
      exact absurd rfl (hne l d ex)

theorem shiftMathAt_iff (f n : T) (l : Loc) :
    shiftMathAt n = some l ↔ specShiftMath.exact f n = true ∧ specShiftMath.reportLoc n = some l := by
  constructor
  · intro h
    unfold shiftMathAt at h
    split at h
    · split at h
      · rename_i hc
        simp only [isPow2Literal_iff] at hc
        simp [specShiftMath, mulOrDivOperands, binary, View.loc, h, hc]
      · simp at h
    · split at h
      · rename_i hc
        simp only [isPow2Literal_iff] at hc
        simp [specShiftMath, mulOrDivOperands, binary, View.loc, h, hc]
      · simp at h
    · simp at h
  · rintro ⟨he, hl⟩
    simp only [specShiftMath, mulOrDivOperands] at he hl
    split at he
    · rename_i a b hab
      split at hab
      · rename_i tag loc x y hb
        have := binary_inv hb; subst this
        split at hab
        · rename_i htag
          simp only [Option.some.injEq, Prod.mk.injEq] at hab
          obtain ⟨rfl, rfl⟩ := hab
          simp [View.loc] at hl
          simp only [Bool.or_eq_true, decide_eq_true_eq] at htag
          rcases htag with rfl | rfl <;> simp [shiftMathAt, isPow2Literal_iff, he, hl]
        · simp at hab
      · simp at hab
    · simp at he

/-- an exact form has an operand that is a literal with empty exponent denoting a power of two -/
theorem pow2spec_not_clearly (e : T) (h : isPow2LiteralSpec e = true) : clearlyNotPow2 e = false := by
  unfold isPow2LiteralSpec at h
  unfold clearlyNotPow2
  split at h
  · rename_i d ex hn
    simp only [Bool.and_eq_true] at h
    obtain ⟨⟨hex, hd⟩, hp⟩ := h
    simp [hn, literalValueIsPow2, hd, parseExponent, hex, hp]
  · simp at h

theorem shiftMath_meets : Meets shiftMath specShiftMath where
  exact_iff f l _ := by
    unfold shiftMath
    apply meets_of_at
    · intro n l h
      unfold shiftMathAt at h
      split at h
      · exact ⟨_, _, rfl, by decide, by decide⟩
      · exact ⟨_, _, rfl, by decide, by decide⟩
      · simp at h
    · exact shiftMathAt_iff
  canon_exact f n h := h
  exact_not_nonmatch f n h := by
    simp only [specShiftMath] at h ⊢
    split at h
    · rename_i a b hab
      simp only [Bool.or_eq_true] at h
      rcases h with h | h
      · simp [pow2spec_not_clearly a h]
      · simp [pow2spec_not_clearly b h]
    · simp at h

/-- the power-of-two test of the specification is the mathematical one -/
theorem isPow2LiteralSpec_iff (e : T) :
    isPow2LiteralSpec e = true ↔ ∃ d ex, numberLit e = some (d, ex) ∧ ex.isEmpty = true ∧ allAsciiDigits d = true ∧ ∃ k, decimalValue d = 2 ^ k := by
  unfold isPow2LiteralSpec
  constructor
  · intro h
    split at h
    · rename_i d ex hn
      simp only [Bool.and_eq_true] at h
      exact ⟨d, ex, hn, h.1.1, h.1.2, (isPowerOfTwo_iff _).1 h.2⟩
    · simp at h
  · rintro ⟨d, ex, hn, hex, hd, hk⟩
    simp [hn, hex, hd, (isPowerOfTwo_iff _).2 hk]


/-! ## assign_update_array_value -/

theorem optItem_inv {o x : T} (h : optItem o = some x) : o = .node .Some [x] := by
  unfold optItem at h; split at h <;> simp_all

theorem subscriptOfVarLit_eq (e : T) : subscriptOfVarLit e = subscriptVarLit e := by
  unfold subscriptOfVarLit subscriptVarLit
  split
  · rename_i l base il n ex
    simp only [subscript, optItem, numberLit]
    cases varName base <;> simp
  · rename_i hne
    cases hs : subscript e with
    | none => rfl
    | some x =>
      obtain ⟨l, base, idx⟩ := x
      have := subscript_inv hs; subst this
      simp only
      cases hv : varName base with
      | none => rfl
      | some a =>
        cases ho : optItem idx with
        | none => rfl
        | some i =>
          have := optItem_inv ho; subst this
          simp only
          cases hn : numberLit i with
          | none => rfl
          | some de =>
            obtain ⟨d, ex⟩ := de
            obtain ⟨il, rfl⟩ := numberLit_inv hn
            exact absurd rfl (hne l base il d ex)

theorem isSubscript_eq (e : T) : isSubscript e = (subscript e).map (fun x => x.2.1) := by
  unfold isSubscript subscript
  split <;> simp_all

theorem arith_same (op : Tag) : arithTags.contains op = arithOps.contains op := by
  cases op <;> rfl

theorem assignUpdateArrayAt_iff (f n : T) (l : Loc) :
    assignUpdateArrayAt n = some l ↔ specAssignUpdateArray.exact f n = true ∧ specAssignUpdateArray.reportLoc n = some l := by
  constructor
  · intro h
    unfold assignUpdateArrayAt at h
    split at h
    · rename_i loc lhs op l2 a b
      simp only [subscriptOfVarLit_eq, isSubscript_eq, arith_same] at h
      simp only [specAssignUpdateArray, assignArith, binary, View.loc]
      cases ht : subscriptVarLit lhs with
      | none => simp [ht] at h
      | some t =>
        simp only [ht] at h ⊢
        by_cases hop : arithOps.contains op = true
        · simp only [hop, if_true] at h ⊢
          cases hs : subscript a with
          | none => simp [hs] at h
          | some x =>
            obtain ⟨sl, base, idx⟩ := x
            simp only [hs, Option.map_some] at h ⊢
            cases hv : varName base with
            | none =>
              simp only [hv] at h ⊢
              split at h <;> simp_all
            | some v =>
              simp only [hv] at h ⊢
              split at h <;> simp_all
        · simp at h; exact absurd (by simpa using h.1) hop
    · simp at h
  · rintro ⟨he, hl⟩
    simp only [specAssignUpdateArray, assignArith] at he hl
    split at he
    · rename_i t x y hab
      split at hab
      · rename_i tag loc lhs rhs hb
        have := binary_inv hb; subst this
        split at hab
        · rename_i htag
          subst htag
          split at hab
          · rename_i t' op l2 x' y' ht hb2
            have := binary_inv hb2; subst this
            split at hab
            · rename_i hop
              simp only [Option.some.injEq, Prod.mk.injEq] at hab
              obtain ⟨rfl, rfl, rfl⟩ := hab
              simp [View.loc] at hl
              simp only [assignUpdateArrayAt, subscriptOfVarLit_eq, isSubscript_eq, arith_same, ht, hop, if_true]
              split at he
              · rename_i sl base idx hs
                simp only [hs, Option.map_some]
                cases hv : varName base with
                | none => simp [hv] at he; simp [he, hl]
                | some v => simp [hv] at he; simp [he, hl]
              · simp at he
            · simp at hab
          · simp at hab
        · simp at hab
      · simp at hab
    · simp at he

theorem assignUpdateArray_meets : Meets assignUpdateArray specAssignUpdateArray where
  exact_iff f l _ := by
    unfold assignUpdateArray
    apply meets_of_at
    · intro n l h
      unfold assignUpdateArrayAt at h
      split at h
      · exact ⟨_, _, rfl, by decide, by decide⟩
      · simp at h
    · exact assignUpdateArrayAt_iff
  canon_exact f n h := by
    simp only [specAssignUpdateArray] at h ⊢
    cases hab : assignArith n with
    | none => simp [hab] at h
    | some txy =>
      obtain ⟨t, x, y⟩ := txy
      simp only [hab, decide_eq_true_eq] at h ⊢
      -- the left operand is `a[k]` with `a` an identifier: the first branch of the exact form applies
      have hx := h
      unfold subscriptVarLit at hx
      cases hs : subscript x with
      | none => simp [hs] at hx
      | some sb =>
        obtain ⟨sl, base, idx⟩ := sb
        simp only [hs] at hx ⊢
        cases hv : varName base with
        | none => simp [hv] at hx
        | some v => simp [h]
  exact_not_nonmatch f n h := by
    simp only [specAssignUpdateArray] at h ⊢
    cases hab : assignArith n with
    | none => simp [hab] at h
    | some txy =>
      obtain ⟨t, x, y⟩ := txy
      simp only [hab] at h ⊢
      cases hs : subscript x with
      | none => simp [hs] at h
      | some sb =>
        obtain ⟨sl, base, idx⟩ := sb
        simp only [hs] at h
        split at h
        · simp only [decide_eq_true_eq] at h; simp [h]
        · simp only [decide_eq_true_eq] at h; simp [h]


/-! ## cache_array_length -/

theorem forCondition_eq (n : T) : forCondition n = forCond n := by
  unfold forCondition forCond; split <;> simp_all

theorem forCond_inv {s c : T} (h : forCond s = some c) :
    ∃ l i nx b, s = .node .Statement_For [l, i, .node .Some [c], nx, b] := by
  unfold forCond at h; split at h <;> simp_all

theorem forCond_mem {s c : T} (h : forCond s = some c) : c ∈ subtreesNoAsm s := by
  obtain ⟨l, i, nx, b, rfl⟩ := forCond_inv h
  have h1 : (T.node .Some [c]) ∈ subtreesNoAsm (.node .Statement_For [l, i, .node .Some [c], nx, b]) :=
    kid_mem_subtreesNoAsm (by decide) (by simp)
  exact subtreesNoAsm_trans _ _ _ h1 (kid_mem_subtreesNoAsm (by decide) (by simp))

theorem lengthAccessAt_iff (n : T) (l : Loc) : lengthAccessAt n = some l ↔ isLengthAccess n = true ∧ View.loc n = some l := by
  constructor
  · intro h
    unfold lengthAccessAt at h
    split at h
    · split at h
      · rename_i hc; simp [isLengthAccess, memberAccess, View.loc, hc, h]
      · simp at h
    · simp at h
  · rintro ⟨he, hl⟩
    unfold isLengthAccess at he
    split at he
    · rename_i l0 obj id hm
      have := memberAccess_inv hm; subst this
      simp [View.loc] at hl
      simp only [decide_eq_true_eq] at he
      simp [lengthAccessAt, he, hl]
    · simp at he

theorem cacheArrayLength_meets : Meets cacheArrayLength specCacheArrayLength where
  exact_iff f l _ := by
    unfold cacheArrayLength
    rw [mem_extract_flatMap]
    · constructor
      · rintro ⟨s, hs, hl⟩
        unfold cacheArrayLengthAt at hl
        rw [forCondition_eq] at hl
        cases hc : forCond s with
        | none => simp [hc] at hl
        | some c =>
          simp only [hc] at hl
          rw [mem_extract_filterMap] at hl
          · obtain ⟨n, hn, hat⟩ := hl
            have hnf : n ∈ allNodes f := allNodes_trans (subtreesNoAsm_trans f s c (mem_allNodes.1 hs).1 (forCond_mem hc)) hn
            refine ⟨n, hnf, ?_, ((lengthAccessAt_iff n l).1 hat).2⟩
            simp only [specCacheArrayLength, Bool.and_eq_true]
            refine ⟨((lengthAccessAt_iff n l).1 hat).1, ?_⟩
            unfold insideForCondition
            rw [List.any_eq_true]
            exact ⟨s, hs, by simp [hc, hn]⟩
          · intro n l h
            unfold lengthAccessAt at h
            split at h
            · exact ⟨_, _, rfl, by decide, by decide⟩
            · simp at h
      · rintro ⟨n, _, he, hl⟩
        simp only [specCacheArrayLength, Bool.and_eq_true] at he hl
        obtain ⟨hlen, hin⟩ := he
        unfold insideForCondition at hin
        rw [List.any_eq_true] at hin
        obtain ⟨s, hs, hsc⟩ := hin
        cases hc : forCond s with
        | none => simp [hc] at hsc
        | some c =>
          simp only [hc] at hsc
          have hn : n ∈ allNodes c := by simpa using hsc
          refine ⟨s, hs, ?_⟩
          unfold cacheArrayLengthAt
          rw [forCondition_eq, hc]
          simp only
          rw [mem_extract_filterMap]
          · exact ⟨n, hn, (lengthAccessAt_iff n l).2 ⟨hlen, hl⟩⟩
          · intro n l h
            unfold lengthAccessAt at h
            split at h
            · exact ⟨_, _, rfl, by decide, by decide⟩
            · simp at h
    · intro s l h
      unfold cacheArrayLengthAt at h
      rw [forCondition_eq] at h
      cases hc : forCond s with
      | none => simp [hc] at h
      | some c =>
        obtain ⟨l0, i, nx, b, rfl⟩ := forCond_inv hc
        exact ⟨_, _, rfl, by decide, by decide⟩
  canon_exact f n h := h
  exact_not_nonmatch f n h := by simp_all [specCacheArrayLength]


/-! ## increment_decrement -/

theorem incDecLocAt_iff (n : T) (l : Loc) : incDecLocAt n = some l ↔ isIncDec n = true ∧ View.loc n = some l := by
  constructor
  · intro h
    unfold incDecLocAt at h
    split at h <;> simp_all [isIncDec, isPrefixIncDec, isPostfixIncDec, tagIn, T.tag?, View.loc]
  · rintro ⟨he, hl⟩
    cases n with
    | node tag kids =>
      cases kids with
      | nil => simp [View.loc] at hl
      | cons k ks =>
        simp [isIncDec, isPrefixIncDec, isPostfixIncDec, tagIn, T.tag?] at he
        simp [View.loc] at hl
        rcases he with (rfl | rfl) | (rfl | rfl) <;> simp [incDecLocAt, hl]
    | _ => simp [isIncDec, isPrefixIncDec, isPostfixIncDec, tagIn, T.tag?] at he

theorem incDecLocAt_kind (n : T) (l : Loc) (h : incDecLocAt n = some l) :
    ∃ tag kids, n = .node tag kids ∧ isNodeTag tag = true ∧
      (tag = .Expression_PreIncrement ∨ tag = .Expression_PreDecrement ∨ tag = .Expression_PostIncrement ∨ tag = .Expression_PostDecrement) := by
  unfold incDecLocAt at h
  split at h
  · exact ⟨_, _, rfl, by decide, by simp⟩
  · exact ⟨_, _, rfl, by decide, by simp⟩
  · exact ⟨_, _, rfl, by decide, by simp⟩
  · exact ⟨_, _, rfl, by decide, by simp⟩
  · simp at h

/-- all increment/decrement locations below a root -/
theorem mem_incDecLocs_all (root : T) (l : Loc) :
    l ∈ incDecLocs incDecTargets root ↔ ∃ n ∈ allNodes root, isIncDec n = true ∧ View.loc n = some l := by
  unfold incDecLocs
  rw [mem_extract_filterMap]
  · constructor
    · rintro ⟨n, hn, h⟩; exact ⟨n, hn, (incDecLocAt_iff n l).1 h⟩
    · rintro ⟨n, hn, h⟩; exact ⟨n, hn, (incDecLocAt_iff n l).2 h⟩
  · intro n l h
    obtain ⟨tag, kids, rfl, hnode, ht⟩ := incDecLocAt_kind n l h
    refine ⟨tag, kids, rfl, hnode, ?_⟩
    rcases ht with rfl | rfl | rfl | rfl <;> decide

/-- prefix increment/decrement locations below a root -/
theorem mem_incDecLocs_prefix (root : T) (l : Loc) :
    l ∈ incDecLocs [.PreIncrement, .PreDecrement] root ↔ ∃ n ∈ allNodes root, isPrefixIncDec n = true ∧ View.loc n = some l := by
  unfold incDecLocs
  rw [List.mem_filterMap]
  constructor
  · rintro ⟨n, hn, h⟩
    have hm := (mem_extract _ _ _).1 hn
    obtain ⟨tag, kids, rfl, hk⟩ := hm.2
    refine ⟨_, hm.1, ?_, ((incDecLocAt_iff _ l).1 h).2⟩
    obtain ⟨tag', kids', heq, _, ht⟩ := incDecLocAt_kind _ l h
    cases heq
    rcases ht with rfl | rfl | rfl | rfl
    · simp [isPrefixIncDec, tagIn, T.tag?]
    · simp [isPrefixIncDec, tagIn, T.tag?]
    · exact absurd hk (by decide)
    · exact absurd hk (by decide)
  · rintro ⟨n, hn, hp, hl⟩
    refine ⟨n, ?_, (incDecLocAt_iff n l).2 ⟨by simp [isIncDec, hp], hl⟩⟩
    rw [mem_extract]
    refine ⟨hn, ?_⟩
    cases n with
    | node tag kids =>
      refine ⟨tag, kids, rfl, ?_⟩
      simp [isPrefixIncDec, tagIn, T.tag?] at hp
      rcases hp with rfl | rfl <;> decide
    | _ => simp [isPrefixIncDec, tagIn, T.tag?] at hp

theorem uncheckedStatements_eq (b : T) : uncheckedStatements b = uncheckedBody b := by
  unfold uncheckedStatements uncheckedBody; split <;> simp_all

/-- the locations the detector subtracts: prefix forms below some unchecked block -/
theorem mem_uncheckedPrefixLocs (f : T) (l : Loc) :
    l ∈ uncheckedPrefixLocs f ↔ ∃ n, isPrefixIncDec n = true ∧ underUnchecked f n = true ∧ View.loc n = some l := by
  unfold uncheckedPrefixLocs
  rw [List.mem_flatMap]
  constructor
  · rintro ⟨b, hb, hl⟩
    rw [List.mem_flatMap] at hl
    obtain ⟨s, hs, hl⟩ := hl
    obtain ⟨n, hn, hp, hloc⟩ := (mem_incDecLocs_prefix s l).1 hl
    refine ⟨n, hp, ?_, hloc⟩
    unfold underUnchecked
    rw [List.any_eq_true]
    refine ⟨b, (extract_mem _ _ _ hb).1, ?_⟩
    rw [List.any_eq_true]
    rw [uncheckedStatements_eq] at hs
    exact ⟨s, hs, by simpa using hn⟩
  · rintro ⟨n, hp, hu, hloc⟩
    unfold underUnchecked at hu
    rw [List.any_eq_true] at hu
    obtain ⟨b, hb, hbs⟩ := hu
    rw [List.any_eq_true] at hbs
    obtain ⟨s, hs, hn⟩ := hbs
    have hn' : n ∈ allNodes s := by simpa using hn
    refine ⟨b, ?_, ?_⟩
    · rw [mem_extract]
      refine ⟨hb, ?_⟩
      unfold uncheckedBody at hs
      split at hs
      · exact ⟨_, _, rfl, by decide⟩
      · simp at hs
    · rw [List.mem_flatMap]
      exact ⟨s, by rw [uncheckedStatements_eq]; exact hs, (mem_incDecLocs_prefix s l).2 ⟨n, hn', hp, hloc⟩⟩

/-- a node under an unchecked block of the file is a node of the file -/
theorem underUnchecked_mem (f n : T) (h : underUnchecked f n = true) : n ∈ allNodes f := by
  unfold underUnchecked at h
  rw [List.any_eq_true] at h
  obtain ⟨b, hb, hbs⟩ := h
  rw [List.any_eq_true] at hbs
  obtain ⟨s, hs, hn⟩ := hbs
  have hn' : n ∈ allNodes s := by simpa using hn
  unfold uncheckedBody at hs
  split at hs
  · rename_i l stmts
    have h1 : stmts ∈ subtreesNoAsm (T.node .Statement_Block [l, .bool true, stmts]) :=
      kid_mem_subtreesNoAsm (by decide) (by simp)
    have h2 : s ∈ subtreesNoAsm stmts := by
      unfold vecItems at hs
      split at hs
      · exact kid_mem_subtreesNoAsm (by decide) hs
      · simp at hs
    exact allNodes_trans (subtreesNoAsm_trans f _ _ (mem_allNodes.1 hb).1 (subtreesNoAsm_trans _ _ _ h1 h2)) hn'
  · simp at hs

theorem incrementDecrement_meets : MeetsOn IncDecLocsDistinct incrementDecrement specIncrementDecrement where
  exact_iff f l hd := by
    unfold incrementDecrement
    simp only [List.mem_filter, Bool.not_eq_true', List.contains_eq_mem, decide_eq_false_iff_not]
    rw [mem_incDecLocs_all, mem_uncheckedPrefixLocs]
    constructor
    · rintro ⟨⟨n, hn, hi, hl⟩, hnot⟩
      refine ⟨n, hn, ?_, hl⟩
      simp only [specIncrementDecrement, Bool.and_eq_true, Bool.not_eq_true', hi, true_and]
      cases hp : isPrefixIncDec n with
      | false => simp
      | true =>
        cases hu : underUnchecked f n with
        | false => simp
        | true => exact absurd ⟨n, hp, hu, hl⟩ hnot
    · rintro ⟨n, hn, he, hl⟩
      simp only [specIncrementDecrement, Bool.and_eq_true, Bool.not_eq_true'] at he
      refine ⟨⟨n, hn, he.1, hl⟩, ?_⟩
      rintro ⟨m, hp, hu, hml⟩
      have hm : m ∈ allNodes f := underUnchecked_mem f m hu
      have hmn : m = n := hd m hm n hn (by simp [isIncDec, hp]) he.1 (by rw [hml]; exact hl.symm)
      subst hmn
      simp [hp, hu] at he
  canon_exact f n h := h
  exact_not_nonmatch f n h := by
    simp only [specIncrementDecrement, Bool.and_eq_true, Bool.not_eq_true'] at h ⊢
    simp [h.1, h.2]

/-! ## the property for the eleven detectors -/

/-- **C05.** Each of the eleven expression-level gas detectors reports exactly the exact forms of
its documented pattern found anywhere in the file outside inline assembly (hence every canonical
form, and never a clearly-non-matching one).  `increment_decrement` under the hypothesis that
distinct `++`/`--` nodes carry distinct locations. -/
theorem C05_all :
    Meets addressBalance specAddressBalance ∧ Meets addressZero specAddressZero ∧
    Meets boolEqualsBool specBoolEqualsBool ∧ Meets assignUpdateArray specAssignUpdateArray ∧
    Meets cacheArrayLength specCacheArrayLength ∧
    MeetsOn IncDecLocsDistinct incrementDecrement specIncrementDecrement ∧
    Meets multipleRequire specMultipleRequire ∧ Meets optimalComparison specOptimalComparison ∧
    Meets shiftMath specShiftMath ∧ Meets solidityKeccak256 specSolidityKeccak256 ∧
    Meets solidityMath specSolidityMath :=
  ⟨addressBalance_meets, addressZero_meets, boolEqualsBool_meets, assignUpdateArray_meets, cacheArrayLength_meets,
   incrementDecrement_meets, multipleRequire_meets, optimalComparison_meets, shiftMath_meets,
   solidityKeccak256_meets, solidityMath_meets⟩

/-- non-vacuity: `a * 4294967296` (a literal above 2³²) is an exact and canonical shift_math form,
`a * 2e3` is clearly non-matching -/
example :
    let lit (d e : String) := T.node .Expression_NumberLiteral [Loc.toT ⟨0, 4, 5⟩, .str d, .str e]
    let mul (x : T) := T.node .Expression_Multiply [Loc.toT ⟨0, 0, 5⟩, .node .Expression_Variable [], x]
    specShiftMath.canon (.nat 0) (mul (lit "4294967296" "")) = true ∧
    specShiftMath.nonMatch (.nat 0) (mul (lit "2" "3")) = true ∧
    shiftMathAt (mul (lit "4294967296" "")) = some ⟨0, 0, 5⟩ := by
  decide

end Solstat
