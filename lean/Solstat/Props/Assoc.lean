import Solstat.Utils
/-! # Association lists standing for `HashMap<String, _>` -/
namespace Solstat

theorem mem_assocRemove {β : Type} (m : List (String × β)) (k : String) (e : String × β) :
    e ∈ assocRemove m k ↔ e ∈ m ∧ e.1 ≠ k := by
  simp [assocRemove, List.mem_filter]

theorem mem_foldl_assocRemove {β : Type} : ∀ (names : List String) (m : List (String × β)) (e : String × β),
    e ∈ names.foldl assocRemove m ↔ e ∈ m ∧ e.1 ∉ names
  | [], m, e => by simp
  | n :: ns, m, e => by
    simp only [List.foldl, List.mem_cons, not_or]
    rw [mem_foldl_assocRemove ns (assocRemove m n) e, mem_assocRemove]
    constructor
    · rintro ⟨⟨h1, h2⟩, h3⟩; exact ⟨h1, h2, h3⟩
    · rintro ⟨h1, h2, h3⟩; exact ⟨⟨h1, h2⟩, h3⟩

theorem mem_assocInsert {β : Type} (m : List (String × β)) (k : String) (v : β) (e : String × β) :
    e ∈ assocInsert m k v ↔ (e ∈ m ∧ e.1 ≠ k) ∨ e = (k, v) := by
  simp [assocInsert, List.mem_filter]

/-- keys of an association list -/
def keys {β : Type} (m : List (String × β)) : List String := m.map (·.1)

theorem assocHas_iff {β : Type} (m : List (String × β)) (k : String) : assocHas m k = true ↔ k ∈ keys m := by
  simp [assocHas, keys]

/-- building a map from entries: every key of the entries is a key of the map and vice versa -/
theorem keys_foldl_assocInsert {β : Type} : ∀ (es : List (String × β)) (m : List (String × β)) (k : String),
    k ∈ keys (es.foldl (fun m e => assocInsert m e.1 e.2) m) ↔ k ∈ keys m ∨ k ∈ keys es
  | [], m, k => by simp [keys]
  | e :: es, m, k => by
    simp only [List.foldl]
    rw [keys_foldl_assocInsert es _ k]
    simp only [keys, List.mem_map, List.map_cons, List.mem_cons]
    constructor
    · rintro (⟨x, hx, rfl⟩ | h)
      · rcases (mem_assocInsert m e.1 e.2 x).1 hx with ⟨h1, _⟩ | rfl
        · exact Or.inl ⟨x, h1, rfl⟩
        · exact Or.inr (Or.inl rfl)
      · exact Or.inr (Or.inr h)
    · rintro (⟨x, hx, rfl⟩ | h | h)
      · by_cases hk : x.1 = e.1
        · exact Or.inl ⟨(e.1, e.2), (mem_assocInsert m e.1 e.2 _).2 (Or.inr rfl), hk.symm⟩
        · exact Or.inl ⟨x, (mem_assocInsert m e.1 e.2 x).2 (Or.inl ⟨hx, hk⟩), rfl⟩
      · exact Or.inl ⟨(e.1, e.2), (mem_assocInsert m e.1 e.2 _).2 (Or.inr rfl), h.symm⟩
      · exact Or.inr h

/-- with distinct keys the map built from the entries has exactly the entries -/
theorem mem_foldl_assocInsert_nodup {β : Type} : ∀ (es : List (String × β)) (m : List (String × β)) (x : String × β),
    (keys es).Nodup → (∀ k ∈ keys es, k ∉ keys m) →
    (x ∈ es.foldl (fun m e => assocInsert m e.1 e.2) m ↔ x ∈ m ∨ x ∈ es)
  | [], m, x, _, _ => by simp
  | e :: es, m, x, hnd, hdisj => by
    simp only [List.foldl]
    have hnd' : (keys es).Nodup := by simp [keys] at hnd ⊢; exact hnd.2
    have he : e.1 ∉ keys es := by simp [keys] at hnd ⊢; exact hnd.1
    have hdisj' : ∀ k ∈ keys es, k ∉ keys (assocInsert m e.1 e.2) := by
      intro k hk hmem
      simp only [keys, List.mem_map] at hmem
      obtain ⟨y, hy, rfl⟩ := hmem
      rcases (mem_assocInsert m e.1 e.2 y).1 hy with ⟨h1, _⟩ | rfl
      · exact hdisj y.1 (by simp [keys] at hk ⊢; exact Or.inr hk) (by simp [keys]; exact ⟨y.2, h1⟩)
      · exact he hk
    rw [mem_foldl_assocInsert_nodup es _ x hnd' hdisj', mem_assocInsert]
    have hem : e.1 ∉ keys m := hdisj e.1 (by simp [keys])
    constructor
    · rintro ((⟨h1, _⟩ | rfl) | h)
      · exact Or.inl h1
      · exact Or.inr (by simp)
      · exact Or.inr (by simp [h])
    · rintro (h | h)
      · left; left
        refine ⟨h, fun hk => hem ?_⟩
        simp only [keys, List.mem_map]; exact ⟨x, h, hk⟩
      · rcases List.mem_cons.1 h with rfl | h
        · left; right; rfl
        · right; exact h

end Solstat

namespace Solstat

theorem assocGet_eq_of_mem {β : Type} (m : List (String × β)) (k : String) (v : β)
    (hnd : (keys m).Nodup) (h : (k, v) ∈ m) : assocGet m k = some v := by
  induction m with
  | nil => cases h
  | cons x xs ih =>
    simp only [keys, List.map_cons, List.nodup_cons] at hnd
    unfold assocGet
    simp only [List.find?_cons]
    by_cases hx : x.1 = k
    · simp only [hx, decide_true, Option.map_some]
      rcases List.mem_cons.1 h with rfl | h'
      · rfl
      · exact absurd (by simp only [List.mem_map]; exact ⟨(k, v), h', hx.symm ▸ rfl⟩) hnd.1
    · simp only [hx, decide_false]
      rcases List.mem_cons.1 h with rfl | h'
      · exact absurd rfl hx
      · exact ih hnd.2 h'

theorem keys_assocInsert_nodup {β : Type} (m : List (String × β)) (k : String) (v : β) (h : (keys m).Nodup) :
    (keys (assocInsert m k v)).Nodup := by
  unfold assocInsert keys
  rw [List.map_append, List.nodup_append]
  refine ⟨?_, by simp, ?_⟩
  · exact (List.Nodup.sublist (List.Sublist.map _ List.filter_sublist) h)
  · intro a ha b hb
    simp only [List.map_cons, List.map_nil, List.mem_singleton] at hb
    subst hb
    simp only [List.mem_map, List.mem_filter] at ha
    obtain ⟨x, ⟨_, hx⟩, rfl⟩ := ha
    simpa using hx

theorem keys_foldl_assocInsert_nodup {β : Type} : ∀ (es m : List (String × β)), (keys m).Nodup →
    (keys (es.foldl (fun m e => assocInsert m e.1 e.2) m)).Nodup
  | [], _, h => h
  | e :: es, m, h => keys_foldl_assocInsert_nodup es _ (keys_assocInsert_nodup m e.1 e.2 h)

/-- when every inserted value is a function of its key, the built map holds `(k, g k)` for every key -/
theorem mem_foldl_assocInsert_fun {β : Type} (g : String → β) : ∀ (es m : List (String × β)),
    (∀ y ∈ es, y.2 = g y.1) → (∀ y ∈ m, y.2 = g y.1) → ∀ k, (k ∈ keys m ∨ k ∈ keys es) →
    (k, g k) ∈ es.foldl (fun m e => assocInsert m e.1 e.2) m
  | [], m, _, hm, k, hk => by
    simp only [keys, List.map_nil, List.not_mem_nil, or_false, List.mem_map] at hk
    obtain ⟨y, hy, rfl⟩ := hk
    have := hm y hy
    simp only [List.foldl]
    rw [← this]; exact hy
  | e :: es, m, hes, hm, k, hk => by
    simp only [List.foldl]
    apply mem_foldl_assocInsert_fun g es _ (fun y hy => hes y (by simp [hy]))
    · intro y hy
      rcases (mem_assocInsert m e.1 e.2 y).1 hy with ⟨h1, _⟩ | rfl
      · exact hm y h1
      · exact hes e (by simp)
    · simp only [keys, List.map_cons, List.mem_cons, List.mem_map] at hk ⊢
      rcases hk with ⟨y, hy, rfl⟩ | rfl | h
      · by_cases hke : y.1 = e.1
        · exact Or.inl ⟨(e.1, e.2), (mem_assocInsert m e.1 e.2 _).2 (Or.inr rfl), hke.symm⟩
        · exact Or.inl ⟨y, (mem_assocInsert m e.1 e.2 y).2 (Or.inl ⟨hy, hke⟩), rfl⟩
      · exact Or.inl ⟨(e.1, e.2), (mem_assocInsert m e.1 e.2 _).2 (Or.inr rfl), rfl⟩
      · exact Or.inr h

end Solstat
