import Solstat.Props.C05
import Solstat.Spec.C07
/-!
# C07 — vulnerability detectors report every canonical instance and no non-instance
-/
namespace Solstat
open Solstat.Gen T View

/-! ## unsafe_erc20_operation -/

theorem erc20At_iff (f n : T) (l : Loc) :
    erc20At n = some l ↔ specUnsafeErc20.exact f n = true ∧ specUnsafeErc20.reportLoc n = some l := by
  constructor
  · intro h
    unfold erc20At at h
    split at h
    · rename_i loc obj id
      cases hid : identName id with
      | none => simp [hid] at h
      | some name =>
        simp only [hid] at h
        split at h
        · rename_i hc
          simp only [Bool.or_eq_true, decide_eq_true_eq] at hc
          simp [specUnsafeErc20, isErc20Member, memberAccess, View.loc, hid, h]
          rcases hc with (rfl | rfl) | rfl <;> simp
        · simp at h
    · simp at h
  · rintro ⟨he, hl⟩
    simp only [specUnsafeErc20, isErc20Member] at he hl
    split at he
    · rename_i l0 obj id hm
      have := memberAccess_inv hm; subst this
      simp [View.loc] at hl
      cases hid : identName id with
      | none => simp [hid] at he
      | some name =>
        simp [hid] at he
        simp only [erc20At, hid]
        rcases he with (rfl | rfl) | rfl <;> simp [hl]
    · simp at he

theorem unsafeErc20_meets : Meets unsafeErc20Operation specUnsafeErc20 where
  exact_iff f l _ := by
    unfold unsafeErc20Operation
    apply meets_of_at
    · intro n l h
      unfold erc20At at h
      split at h
      · exact ⟨_, _, rfl, by decide, by decide⟩
      · simp at h
    · exact erc20At_iff
  canon_exact f n h := h
  exact_not_nonmatch f n h := by simp_all [specUnsafeErc20]

/-! ## floating_pragma -/

theorem floatingPragmaAt_iff (f n : T) (l : Loc) :
    floatingPragmaAt n = some l ↔ specFloatingPragma.exact f n = true ∧ specFloatingPragma.reportLoc n = some l := by
  constructor
  · intro h
    unfold floatingPragmaAt at h
    split at h
    · split at h
      · rename_i hc
        simp [specFloatingPragma, isCaretPragma, pragmaValue, View.loc, h]
        simpa using hc
      · simp at h
    · simp at h
  · rintro ⟨he, hl⟩
    simp only [specFloatingPragma, isCaretPragma] at he hl
    split at he
    · rename_i v hv
      unfold pragmaValue at hv
      split at hv
      · rename_i loc id l2 u v'
        simp only [Option.some.injEq] at hv; subst hv
        simp [View.loc] at hl
        simp only [floatingPragmaAt, he, if_true, hl]
      · simp at hv
    · simp at he

theorem floatingPragma_meets : Meets floatingPragma specFloatingPragma where
  exact_iff f l _ := by
    unfold floatingPragma
    apply meets_of_at
    · intro n l h
      unfold floatingPragmaAt at h
      split at h
      · exact ⟨_, _, rfl, by decide, by decide⟩
      · simp at h
    · exact floatingPragmaAt_iff
  canon_exact f n h := h
  exact_not_nonmatch f n h := by simp_all [specFloatingPragma]

/-! ## divide_before_multiply -/

/-- the code's loop (structural recursion in the model) decides the chain relation -/
theorem reachesDivide_iff : ∀ e : T, reachesDivide e = true ↔ ∃ d, MulChain e d ∧ isDivideNode d := by
  intro e
  constructor
  · intro h
    induction e using reachesDivide.induct with
    | case1 ks => exact ⟨_, MulChain.refl _, by simp [isDivideNode, T.tag?]⟩
    | case2 loc l r ih =>
      simp only [reachesDivide] at h
      obtain ⟨d, hc, hd⟩ := ih h
      exact ⟨d, MulChain.mul hc, hd⟩
    | case3 loc e ih =>
      simp only [reachesDivide] at h
      obtain ⟨d, hc, hd⟩ := ih h
      exact ⟨d, MulChain.paren hc, hd⟩
    | case4 t h1 h2 h3 => unfold reachesDivide at h; split at h <;> simp_all
  · rintro ⟨d, hc, hd⟩
    induction hc with
    | refl e =>
      cases e with
      | node tag ks => simp [isDivideNode, T.tag?] at hd; subst hd; simp [reachesDivide]
      | _ => simp [isDivideNode, T.tag?] at hd
    | mul _ ih => simp only [reachesDivide]; exact ih hd
    | paren _ ih => simp only [reachesDivide]; exact ih hd

theorem chain_same (tag : Tag) : chainTags.contains tag = divChainOps.contains tag := by cases tag <;> rfl

theorem reachesMultiply_sound : ∀ e : T, reachesMultiply e = true → ∃ d, ArithChain e d ∧ isMultiplyNode d
  | .node tag [loc, l, r], h => by
    by_cases hm : tag = .Expression_Multiply
    · subst hm; exact ⟨_, .refl _, rfl⟩
    · by_cases hc : chainTags.contains tag = true
      · have h' : reachesMultiply l = true := by
          simp only [reachesMultiply, hm, hc, if_true, if_false] at h; exact h
        obtain ⟨d, hcd, hd⟩ := reachesMultiply_sound l h'
        exact ⟨d, .op (by rw [chain_same] at hc; simpa using hc) hcd, hd⟩
      · simp only [reachesMultiply, hm, hc, if_false] at h; simp at h
  | .node tag [loc, e], h => by
    by_cases hm : tag = .Expression_Multiply
    · subst hm; exact ⟨_, .refl _, rfl⟩
    · by_cases hp : tag = .Expression_Parenthesis
      · subst hp
        have h' : reachesMultiply e = true := by simpa [reachesMultiply] using h
        obtain ⟨d, hcd, hd⟩ := reachesMultiply_sound e h'
        exact ⟨d, .paren hcd, hd⟩
      · simp [reachesMultiply, hm, hp] at h
  | .node tag [], h => by
    simp [reachesMultiply] at h; subst h; exact ⟨_, .refl _, rfl⟩
  | .node tag [_], h => by
    simp [reachesMultiply] at h; subst h; exact ⟨_, .refl _, rfl⟩
  | .node tag (_ :: _ :: _ :: _ :: _), h => by
    simp [reachesMultiply] at h; subst h; exact ⟨_, .refl _, rfl⟩
  | .str _, h => by simp [reachesMultiply] at h
  | .nat _, h => by simp [reachesMultiply] at h
  | .bool _, h => by simp [reachesMultiply] at h

theorem reachesMultiply_of_multiply (e : T) (hd : isMultiplyNode e) : reachesMultiply e = true := by
  cases e with
  | node tag ks =>
    simp [isMultiplyNode, T.tag?] at hd; subst hd
    unfold reachesMultiply
    split <;> simp_all
  | _ => simp [isMultiplyNode, T.tag?] at hd

theorem reachesMultiply_complete {e d : T} (hc : ArithChain e d) (hd : isMultiplyNode d) : reachesMultiply e = true := by
  induction hc with
  | refl e => exact reachesMultiply_of_multiply e hd
  | @op tag loc l r d' hmem _ ih =>
    by_cases hm : tag = .Expression_Multiply
    · subst hm; simp [reachesMultiply]
    · have : chainTags.contains tag = true := by rw [chain_same]; simpa using hmem
      simp only [reachesMultiply, hm, this, if_true, if_false]; exact ih hd
  | paren _ ih => simp [reachesMultiply]; exact ih hd

theorem reachesMultiply_iff (e : T) : reachesMultiply e = true ↔ ∃ d, ArithChain e d ∧ isMultiplyNode d :=
  ⟨reachesMultiply_sound e, fun ⟨_, hc, hd⟩ => reachesMultiply_complete hc hd⟩

theorem divideBeforeMultiplyAt_iff (n : T) (l : Loc) :
    divideBeforeMultiplyAt n = some l ↔ DivideBeforeMultiply n ∧ View.loc n = some l := by
  constructor
  · intro h
    unfold divideBeforeMultiplyAt at h
    split at h
    · rename_i loc l' r
      split at h
      · rename_i hc
        obtain ⟨d, hcd, hd⟩ := (reachesDivide_iff _).1 hc
        exact ⟨Or.inl ⟨loc, l', r, d, rfl, hcd, hd⟩, by simpa [View.loc] using h⟩
      · simp at h
    · rename_i loc x r
      split at h
      · rename_i hc
        obtain ⟨d, hcd, hd⟩ := (reachesMultiply_iff _).1 hc
        exact ⟨Or.inr ⟨loc, x, r, d, rfl, hcd, hd⟩, by simpa [View.loc] using h⟩
      · simp at h
    · simp at h
  · rintro ⟨hdbm, hl⟩
    rcases hdbm with ⟨loc, l', r, d, rfl, hc, hd⟩ | ⟨loc, x, r, y, rfl, hc, hd⟩
    · have := (reachesDivide_iff l').2 ⟨d, hc, hd⟩
      simp [View.loc] at hl
      simp [divideBeforeMultiplyAt, this, hl]
    · have := (reachesMultiply_iff r).2 ⟨y, hc, hd⟩
      simp [View.loc] at hl
      simp [divideBeforeMultiplyAt, this, hl]

/-- **C07, divide_before_multiply**: exactly the `*` nodes whose left operand chain contains a `/`
and the `/=` nodes whose right-hand chain contains a `*`, anywhere in the file -/
theorem divideBeforeMultiply_exact (f : T) (l : Loc) :
    l ∈ divideBeforeMultiply f ↔ ∃ n ∈ allNodes f, DivideBeforeMultiply n ∧ View.loc n = some l := by
  unfold divideBeforeMultiply
  rw [mem_extract_filterMap]
  · constructor
    · rintro ⟨n, hn, h⟩; exact ⟨n, hn, (divideBeforeMultiplyAt_iff n l).1 h⟩
    · rintro ⟨n, hn, h⟩; exact ⟨n, hn, (divideBeforeMultiplyAt_iff n l).2 h⟩
  · intro n l h
    unfold divideBeforeMultiplyAt at h
    split at h
    · exact ⟨_, _, rfl, by decide, by decide⟩
    · exact ⟨_, _, rfl, by decide, by decide⟩
    · simp at h


/-! ## unprotected_selfdestruct -/

theorem callParts_eq (c : T) : callParts c = (call c).map (fun x => (x.2.1, vecItems x.2.2)) := by
  unfold callParts call; split <;> simp_all

theorem isMsgSender_eq (e : T) : isMsgSender e = isMsgSenderExpr e := by
  unfold isMsgSender isMsgSenderExpr
  split
  · simp [memberAccess]
  · rename_i hne
    cases hm : memberAccess e with
    | none => rfl
    | some x =>
      obtain ⟨l, obj, id⟩ := x
      have := memberAccess_inv hm
      exact absurd this (hne l obj id)

theorem isSenderCheckArg_eq (a : T) : isSenderCheckArg a = isSenderArg a := by
  unfold isSenderCheckArg isSenderArg
  split
  · simp [isMsgSender_eq, isMsgSenderExpr, memberAccess, binary]
  · simp [isMsgSender_eq, isMsgSenderExpr, memberAccess, binary]
  · rename_i h1 h2
    rw [isMsgSender_eq]
    cases hb : binary a with
    | none => simp
    | some x =>
      obtain ⟨tag, loc, l, r⟩ := x
      have := binary_inv hb; subst this
      by_cases he : tag = .Expression_Equal
      · subst he; exact absurd rfl (h1 loc l r)
      · by_cases hn : tag = .Expression_NotEqual
        · subst hn; exact absurd rfl (h2 loc l r)
        · simp [he, hn]

theorem isAnyTypeExpr_eq (e : T) : isAnyTypeExpr e = (e.tag? == some .Expression_Type) := by
  unfold isAnyTypeExpr
  split
  · simp [T.tag?]
  · rename_i hne
    cases e with
    | node tag ks =>
      simp [T.tag?]
      intro h; subst h; exact hne ks rfl
    | _ => simp [T.tag?]

theorem call_some_tag {c l callee args : T} (h : call c = some (l, callee, args)) :
    ∃ kids, c = .node .Expression_FunctionCall kids := ⟨_, call_inv h⟩

theorem mem_calls (body c : T) :
    c ∈ extract [.FunctionCall] body ↔ c ∈ allNodes body ∧ ∃ kids, c = .node .Expression_FunctionCall kids := by
  rw [mem_extract]
  constructor
  · rintro ⟨h, tag, kids, rfl, hk⟩
    refine ⟨h, kids, ?_⟩
    have : tag = .Expression_FunctionCall := by
      have hn := (mem_allNodes.1 h).2
      simp [T.isNode] at hn
      revert hk hn; cases tag <;> simp [specKind, isNodeTag]
    rw [this]
  · rintro ⟨h, kids, rfl⟩
    exact ⟨h, _, _, rfl, by decide⟩


/-- the model's list of calls nested in selfdestruct arguments, as a predicate -/
theorem mem_inSdArgs (body c : T) (hc : ∃ kids, c = .node .Expression_FunctionCall kids) :
    c ∈ ((extract [.FunctionCall] body).flatMap fun s =>
        match callParts s with
        | some (callee, args) => if isSelfdestructCallee callee then args.flatMap (extract [.FunctionCall]) else []
        | none => []) ↔ insideSelfdestructArgs body c = true := by
  unfold insideSelfdestructArgs
  rw [List.mem_flatMap, List.any_eq_true]
  constructor
  · rintro ⟨s, hs, hmem⟩
    refine ⟨s, ((mem_calls body s).1 hs).1, ?_⟩
    rw [callParts_eq] at hmem
    cases hcall : call s with
    | none => simp [hcall] at hmem
    | some x =>
      obtain ⟨l, callee, args⟩ := x
      simp only [hcall, Option.map_some] at hmem ⊢
      by_cases hsd : isSelfdestructCallee callee = true
      · simp only [hsd, if_true] at hmem
        rw [List.mem_flatMap] at hmem
        obtain ⟨a, ha, hca⟩ := hmem
        have : isSelfdestructName callee = true := hsd
        simp only [this, Bool.true_and, List.any_eq_true]
        exact ⟨a, ha, by simpa using ((mem_calls a c).1 hca).1⟩
      · simp [hsd] at hmem
  · rintro ⟨s, hs, hmem⟩
    cases hcall : call s with
    | none => simp [hcall] at hmem
    | some x =>
      obtain ⟨l, callee, args⟩ := x
      simp only [hcall, Bool.and_eq_true, List.any_eq_true] at hmem
      obtain ⟨hsd, a, ha, hca⟩ := hmem
      refine ⟨s, (mem_calls body s).2 ⟨hs, call_some_tag hcall⟩, ?_⟩
      rw [callParts_eq, hcall]
      have : isSelfdestructCallee callee = true := hsd
      simp only [Option.map_some, this, if_true]
      rw [List.mem_flatMap]
      exact ⟨a, ha, (mem_calls a c).2 ⟨by simpa using hca, hc⟩⟩

theorem hasSenderCheck_eq (body : T) : hasSenderCheck body = hasSenderCheckCall body := by
  have key : hasSenderCheck body = true ↔ hasSenderCheckCall body = true := by
    unfold hasSenderCheck hasSenderCheckCall
    simp only [List.any_eq_true]
    constructor
    · rintro ⟨c, hc, hcond⟩
      have hcm := (mem_calls body c).1 hc
      refine ⟨c, hcm.1, ?_⟩
      simp only [Bool.and_eq_true, Bool.not_eq_true', List.contains_eq_mem, decide_eq_false_iff_not] at hcond
      obtain ⟨hnot, hrest⟩ := hcond
      have hins : insideSelfdestructArgs body c = false := by
        cases h : insideSelfdestructArgs body c with
        | false => rfl
        | true => exact absurd ((mem_inSdArgs body c hcm.2).2 h) hnot
      unfold isSenderCheckCall
      rw [callParts_eq] at hrest
      cases hcall : call c with
      | none => simp [hcall] at hrest
      | some x =>
        obtain ⟨l, callee, args⟩ := x
        simp only [hcall, Option.map_some, Bool.and_eq_true, Bool.not_eq_true', isAnyTypeExpr_eq] at hrest
        obtain ⟨⟨hty, hsd⟩, hargs⟩ := hrest
        have hsd' : isSelfdestructName callee = false := hsd
        have hargs' : (vecItems args).any isSenderArg = true := by
          rw [List.any_eq_true] at hargs ⊢
          obtain ⟨a, ha, h⟩ := hargs
          exact ⟨a, ha, by rw [← isSenderCheckArg_eq]; exact h⟩
        simp only [hsd', hins, hargs', Bool.not_false, Bool.true_and, Bool.and_true, bne_iff_ne, ne_eq]
        simpa using hty
    · rintro ⟨c, hc, hcond⟩
      unfold isSenderCheckCall at hcond
      cases hcall : call c with
      | none => simp [hcall] at hcond
      | some x =>
        obtain ⟨l, callee, args⟩ := x
        simp only [hcall, Bool.and_eq_true, Bool.not_eq_true', bne_iff_ne, ne_eq] at hcond
        obtain ⟨⟨⟨hsd, hty⟩, hins⟩, hargs⟩ := hcond
        have htag := call_some_tag hcall
        refine ⟨c, (mem_calls body c).2 ⟨hc, htag⟩, ?_⟩
        simp only [Bool.and_eq_true, Bool.not_eq_true', List.contains_eq_mem, decide_eq_false_iff_not]
        refine ⟨?_, ?_⟩
        · intro hmem
          have := (mem_inSdArgs body c htag).1 hmem
          simp [this] at hins
        · rw [callParts_eq, hcall]
          simp only [Option.map_some, Bool.and_eq_true, Bool.not_eq_true', isAnyTypeExpr_eq]
          have hsd' : isSelfdestructCallee callee = false := hsd
          refine ⟨⟨by simpa using hty, hsd'⟩, ?_⟩
          rw [List.any_eq_true] at hargs ⊢
          obtain ⟨a, ha, h⟩ := hargs
          exact ⟨a, ha, by rw [isSenderCheckArg_eq]; exact h⟩
  cases h1 : hasSenderCheck body <;> cases h2 : hasSenderCheckCall body <;> simp_all


theorem mem_contracts (f k : T) : k ∈ contracts f ↔ k ∈ allNodes f ∧ isContractNode k = true := by
  unfold contracts
  rw [mem_extract]
  constructor
  · rintro ⟨h, tag, kids, rfl, hk⟩
    refine ⟨h, ?_⟩
    have hn := (mem_allNodes.1 h).2
    simp [T.isNode] at hn
    simp [isContractNode, T.tag?]
    revert hk hn; cases tag <;> simp [specKind, isNodeTag]
  · rintro ⟨h, hc⟩
    cases k with
    | node tag kids =>
      simp [isContractNode, T.tag?] at hc; subst hc
      exact ⟨h, _, _, rfl, by decide⟩
    | _ => simp [isContractNode, T.tag?] at hc

theorem mem_contractFunctions (k g : T) (fields : List T) :
    (g, fields) ∈ contractFunctions k ↔ g ∈ allNodes k ∧ contractFunctionFields g = some fields := by
  unfold contractFunctions
  rw [List.mem_filterMap]
  constructor
  · rintro ⟨n, hn, hm⟩
    split at hm
    · rename_i fs
      simp only [Option.some.injEq, Prod.mk.injEq] at hm
      obtain ⟨rfl, rfl⟩ := hm
      exact ⟨(extract_mem _ _ _ hn).1, by simp [contractFunctionFields]⟩
    · simp at hm
  · rintro ⟨hg, hf⟩
    unfold contractFunctionFields at hf
    split at hf
    · rename_i fs
      simp only [Option.some.injEq] at hf; subst hf
      refine ⟨.node .ContractPart_FunctionDefinition [.node .S_FunctionDefinition fs], ?_, rfl⟩
      rw [mem_extract]
      exact ⟨hg, _, _, rfl, by decide⟩
    · simp at hf

theorem selfdestructCallAt_iff (prot : Bool) (c : T) (l : Loc) :
    selfdestructCallAt prot c = some l ↔ isSelfdestructCall c = true ∧ prot = false ∧ View.loc c = some l := by
  constructor
  · intro h
    unfold selfdestructCallAt at h
    split at h
    · split at h
      · rename_i hc
        simp only [Bool.and_eq_true, Bool.not_eq_true'] at hc
        refine ⟨?_, hc.2, by simpa [View.loc] using h⟩
        simp [isSelfdestructCall, call]; exact hc.1
      · simp at h
    · simp at h
  · rintro ⟨hc, hp, hl⟩
    unfold isSelfdestructCall at hc
    split at hc
    · rename_i l0 callee args hcall
      have := call_inv hcall; subst this
      have : isSelfdestructCallee callee = true := hc
      simp [View.loc] at hl
      simp [selfdestructCallAt, this, hp, hl]
    · simp at hc

/-- **C07, unprotected_selfdestruct (exact form).** A location is reported iff it is the location of
a selfdestruct/suicide call in the body of a contract-level function that is not a constructor, is
public or external, has no `only…` modifier, and contains no call that checks `msg.sender`. -/
theorem unprotectedSelfdestruct_exact (f : T) (l : Loc) :
    l ∈ unprotectedSelfdestruct f ↔
      ∃ g body c fields, SelfdestructSite f g body c fields ∧ Unprotected fields body ∧ View.loc c = some l := by
  unfold unprotectedSelfdestruct
  simp only [List.mem_flatMap]
  constructor
  · rintro ⟨k, hk, ⟨g, fields⟩, hp, hl⟩
    have hk' := (mem_contracts f k).1 hk
    have hp' := (mem_contractFunctions k g fields).1 hp
    simp only at hl
    cases hb : fnBody fields with
    | none => simp [hb] at hl
    | some body =>
      simp only [hb] at hl
      split at hl
      · simp at hl
      · rename_i hcond
        simp only [Bool.or_eq_true, Bool.not_eq_true', not_or, Bool.not_eq_true] at hcond
        rw [List.mem_filterMap] at hl
        obtain ⟨c, hc, hat⟩ := hl
        obtain ⟨hcall, hprot, hloc⟩ := (selfdestructCallAt_iff _ c l).1 hat
        simp only [Bool.or_eq_false_iff] at hprot
        refine ⟨g, body, c, fields, ⟨⟨k, hk'.1, hk'.2, hp'.1⟩, hp'.2, hb, (extract_mem _ _ _ hc).1, hcall⟩, ?_, hloc⟩
        refine ⟨hcond.1, by simpa using hcond.2, hprot.1, ?_⟩
        rw [← hasSenderCheck_eq]; exact hprot.2
  · rintro ⟨g, body, c, fields, ⟨⟨k, hk, hkc, hg⟩, hfn, hb, hcb, hcall⟩, ⟨h1, h2, h3, h4⟩, hloc⟩
    refine ⟨k, (mem_contracts f k).2 ⟨hk, hkc⟩, (g, fields), (mem_contractFunctions k g fields).2 ⟨hg, hfn⟩, ?_⟩
    simp only [hb, h1, h2, Bool.not_true, Bool.or_self, Bool.false_eq_true, if_false]
    rw [List.mem_filterMap]
    refine ⟨c, ?_, (selfdestructCallAt_iff _ c l).2 ⟨hcall, ?_, hloc⟩⟩
    · unfold isSelfdestructCall at hcall
      split at hcall
      · rename_i l0 callee args hc
        exact (mem_calls body c).2 ⟨hcb, call_some_tag hc⟩
      · simp at hcall
    · rw [hasSenderCheck_eq]; simp [h3, h4]

/-- **MUST NOT**: whatever is reported is a call site in a function that is not a constructor, is
public or external (so not merely internal/private), carries no `only…` modifier and passes no
`msg.sender` check to a call. -/
theorem unprotectedSelfdestruct_must_not (f : T) (l : Loc) (h : l ∈ unprotectedSelfdestruct f) :
    ∃ g body c fields, SelfdestructSite f g body c fields ∧ View.loc c = some l ∧
      isConstructor fields = false ∧ isPublicOrExternal fields = true ∧ hasOnlyModifier fields = false ∧
      hasSenderCheckCall body = false := by
  obtain ⟨g, body, c, fields, hs, ⟨h1, h2, h3, h4⟩, hl⟩ := (unprotectedSelfdestruct_exact f l).1 h
  exact ⟨g, body, c, fields, hs, hl, h1, h2, h3, h4⟩

/-- **MUST (partial)**: every such call site is reported.  Partial with respect to the property's
wording: the hypothesis is "no call checks msg.sender" (`hasSenderCheckCall`), which the property
phrases through mentions of `msg.sender` ("only inside the call's own arguments or as the operand of
a type conversion"); the mention-based form is evaluated by the oracle on every input, its
implication to this hypothesis needs parent-uniqueness of parse-tree nodes and is not proved here. -/
theorem unprotectedSelfdestruct_must_partial (f g body c : T) (fields : List T) (l : Loc)
    (hs : SelfdestructSite f g body c fields) (hu : Unprotected fields body) (hl : View.loc c = some l) :
    l ∈ unprotectedSelfdestruct f :=
  (unprotectedSelfdestruct_exact f l).2 ⟨g, body, c, fields, hs, hu, hl⟩


/-- **C07** for the three node-local detectors, in the common form of C05 -/
theorem C07_local :
    Meets unsafeErc20Operation specUnsafeErc20 ∧ Meets floatingPragma specFloatingPragma ∧
    (∀ f l, l ∈ divideBeforeMultiply f ↔ ∃ n ∈ allNodes f, DivideBeforeMultiply n ∧ View.loc n = some l) :=
  ⟨unsafeErc20_meets, floatingPragma_meets, divideBeforeMultiply_exact⟩

/-- non-vacuity: `a / b * c` is a divide-before-multiply instance through a parenthesis -/
example :
    let v := T.node .Expression_Variable []
    let d := T.node .Expression_Divide [Loc.toT ⟨0, 1, 6⟩, v, v]
    DivideBeforeMultiply (.node .Expression_Multiply [Loc.toT ⟨0, 0, 11⟩, .node .Expression_Parenthesis [Loc.toT ⟨0, 1, 6⟩, d], v]) :=
  Or.inl ⟨_, _, _, _, rfl, MulChain.paren (MulChain.refl _), rfl⟩

end Solstat
