import Solstat.Props.C17b
import Solstat.Props.C02
/-!
# C17, last clause: no detector invents a location

"Code-like text inside comments or inside string literals never produces a finding of its own."  Comments are not
in the parse tree at all, and a string literal is one node with one location whatever it contains.  What remains to
be shown is that a detector cannot report a position that is not the location of some node of the tree.  This
follows from equivariance alone: if a reported location did not occur in the tree, swapping it with a fresh one
would leave the tree unchanged but move the finding — onto a location chosen outside the (finite) list of
findings.  Hence, for all 30 detectors, every reported location is literally one of the tree's own locations
(`reported_in_tree_all`), in particular never a position inside the text of a string literal or a comment.
-/
namespace Solstat
open Solstat.Gen T

/-- the transposition of two locations -/
def swapLoc (a b : Loc) : Loc → Loc := fun l => if l = a then b else if l = b then a else l

theorem swapLoc_invol (a b l : Loc) : swapLoc a b (swapLoc a b l) = l := by
  unfold swapLoc
  by_cases h1 : l = a
  · subst h1
    by_cases h2 : b = l
    · simp [h2]
    · simp [h2]
  · by_cases h2 : l = b
    · subst h2; simp [h1]
    · simp [h1, h2]

def swapPerm (a b : Loc) : LocPerm := ⟨swapLoc a b, swapLoc a b, swapLoc_invol a b, swapLoc_invol a b⟩

/-- a location outside a finite list: it starts beyond every start in the list -/
def maxStart : List Loc → Nat
  | [] => 0
  | l :: ls => max l.start (maxStart ls)

def freshLoc (S : List Loc) : Loc := ⟨0, maxStart S + 1, 0⟩

theorem start_le_maxStart {S : List Loc} {l : Loc} (h : l ∈ S) : l.start ≤ maxStart S := by
  induction S with
  | nil => cases h
  | cons x xs ih =>
    simp only [maxStart]
    rcases List.mem_cons.1 h with rfl | h
    · exact Nat.le_max_left _ _
    · exact Nat.le_trans (ih h) (Nat.le_max_right _ _)

theorem freshLoc_not_mem (S : List Loc) : freshLoc S ∉ S := by
  intro h
  have := start_le_maxStart h
  simp only [freshLoc] at this
  omega

/-- **an equivariant detector only reports locations that occur in the tree** -/
theorem reported_in_tree (d : T → List Loc) (hd : Equivariant d) (f : T) (l : Loc) (hl : l ∈ d f) : l ∈ locsOf f := by
  apply Classical.byContradiction
  intro hnot
  let S := l :: (locsOf f ++ d f)
  have hfresh : freshLoc S ∉ S := freshLoc_not_mem S
  have hne : freshLoc S ≠ l := fun e => hfresh (by rw [e]; exact List.mem_cons_self)
  have hnf : freshLoc S ∉ locsOf f := fun h => hfresh (List.mem_cons_of_mem _ (List.mem_append_left _ h))
  have hnd : freshLoc S ∉ d f := fun h => hfresh (List.mem_cons_of_mem _ (List.mem_append_right _ h))
  have hfix : ∀ x ∈ locsOf f, swapLoc l (freshLoc S) x = id x := by
    intro x hx
    have h1 : x ≠ l := fun e => hnot (e ▸ hx)
    have h2 : x ≠ freshLoc S := fun e => hnf (e ▸ hx)
    simp [swapLoc, h1, h2]
  have hmap : mapLoc (swapLoc l (freshLoc S)) f = f := by
    rw [mapLoc_congr _ id f hfix, mapLoc_id]
  have heq := hd (swapPerm l (freshLoc S)) f
  simp only [swapPerm] at heq
  rw [hmap] at heq
  have : swapLoc l (freshLoc S) l ∈ (d f).map (swapLoc l (freshLoc S)) := List.mem_map_of_mem hl
  rw [← heq] at this
  have hsw : swapLoc l (freshLoc S) l = freshLoc S := by simp [swapLoc]
  rw [hsw] at this
  exact hnd this

/-- for every detector of the dispatch table -/
theorem reported_in_tree_all (name : String) (d : T → List Loc) (h : detectorByName name = some d) (f : T) (l : Loc)
    (hl : l ∈ d f) : l ∈ locsOf f :=
  reported_in_tree d (C17_all name d h) f l hl

/-- and so two trees with the same locations at the same nodes that differ only in the TEXT of their string
leaves cannot differ in a finding that lies at a location of neither: whatever is reported is a node location -/
theorem no_finding_outside_nodes (name : String) (d : T → List Loc) (h : detectorByName name = some d) (f : T) (l : Loc)
    (hout : l ∉ locsOf f) : l ∉ d f :=
  fun hl => hout (reported_in_tree_all name d h f l hl)

/-- every reported LINE is the line on which some node of the parse tree begins: no line is reported for text that
is not a construct of the tree (a comment, the inside of a string literal) -/
theorem reported_line_is_node_line (name : String) (d : T → List Loc) (h : detectorByName name = some d)
    (bs : List UInt8) (f : T) (y : Nat) (hy : y ∈ analyzeLines d bs f) :
    ∃ l ∈ locsOf f, y = lineOf bs l.start := by
  unfold analyzeLines at hy
  rw [mem_lineSet, List.mem_map] at hy
  obtain ⟨l, hl, rfl⟩ := hy
  exact ⟨l, reported_in_tree_all name d h f l hl, rfl⟩

end Solstat
