import Solstat.Props.MapLoc
import Solstat.Props.C07
import Solstat.Props.C02
/-!
# C17 — findings are invariant under re-layout and commenting of the source

Re-laying out a file (white space, line breaks, comments between the tokens) relocates the parse
tree: `tree₂ = mapLoc ρ tree₁` with `ρ` the token offset map (assumption about the parser, evaluated
on every sample by the driver).  Comments are not in the tree at all, and the contents of string
literals are atoms no detector parses.  This file shows that the detectors commute with `mapLoc ρ`
for every permutation `ρ` of the locations: the same tokens start flagged constructs before and after.
-/
namespace Solstat
open Solstat.Gen T

/-- a permutation of the locations (a token-preserving re-layout extends to one; so does swapping two file numbers) -/
structure LocPerm where
  to : Loc → Loc
  inv : Loc → Loc
  left : ∀ l, inv (to l) = l
  right : ∀ l, to (inv l) = l

def LocPerm.symm (ρ : LocPerm) : LocPerm := ⟨ρ.inv, ρ.to, ρ.right, ρ.left⟩

theorem mapLoc_inv_to (ρ : LocPerm) (t : T) : mapLoc ρ.inv (mapLoc ρ.to t) = t := mapLoc_leftInverse ρ.to ρ.inv ρ.left t

/-- Boolean tests: preserved by every relocation ⇒ invariant -/
theorem inv_of_fwd (p : T → Bool) (hf : ∀ (ρ : LocPerm) n, p n = true → p (mapLoc ρ.to n) = true) (ρ : LocPerm) (n : T) :
    p (mapLoc ρ.to n) = p n := by
  cases h : p n with
  | true => exact hf ρ n h
  | false =>
    cases h2 : p (mapLoc ρ.to n) with
    | false => rfl
    | true =>
      have := hf ρ.symm _ h2
      simp only [LocPerm.symm, mapLoc_inv_to] at this
      rw [h] at this; cases this

/-- option-valued readers of atoms (names, tags): preserved ⇒ invariant -/
theorem optInv_of_fwd {α : Type} (g : T → Option α) (hf : ∀ (ρ : LocPerm) n a, g n = some a → g (mapLoc ρ.to n) = some a)
    (ρ : LocPerm) (n : T) : g (mapLoc ρ.to n) = g n := by
  cases h : g n with
  | some a => exact hf ρ n a h
  | none =>
    cases h2 : g (mapLoc ρ.to n) with
    | none => rfl
    | some a =>
      have := hf ρ.symm _ a h2
      simp only [LocPerm.symm, mapLoc_inv_to] at this
      rw [h] at this; cases this

/-- finding functions: findings carried along ⇒ equivariant -/
theorem equiv_of_fwd (g : T → Option Loc) (hf : ∀ (ρ : LocPerm) n l, g n = some l → g (mapLoc ρ.to n) = some (ρ.to l))
    (ρ : LocPerm) (n : T) : g (mapLoc ρ.to n) = (g n).map ρ.to := by
  cases h : g n with
  | some l => simpa using hf ρ n l h
  | none =>
    cases h2 : g (mapLoc ρ.to n) with
    | none => rfl
    | some l' =>
      have := hf ρ.symm _ l' h2
      simp only [LocPerm.symm, mapLoc_inv_to] at this
      rw [h] at this; cases this

@[simp] theorem mapLoc_node' (ρ : Loc → Loc) (tag : Tag) (ks : List T) (h : tag ≠ .Loc_File) :
    mapLoc ρ (.node tag ks) = .node tag (ks.map (mapLoc ρ)) := mapLoc_node ρ tag ks h

@[simp] theorem mapLoc_str (ρ : Loc → Loc) (s : String) : mapLoc ρ (.str s) = .str s := by simp [mapLoc]
@[simp] theorem mapLoc_nat (ρ : Loc → Loc) (n : Nat) : mapLoc ρ (.nat n) = .nat n := by simp [mapLoc]
@[simp] theorem mapLoc_bool (ρ : Loc → Loc) (b : Bool) : mapLoc ρ (.bool b) = .bool b := by simp [mapLoc]

theorem identName_fwd (ρ : LocPerm) (n : T) (s : String) (h : identName n = some s) : identName (mapLoc ρ.to n) = some s := by
  unfold identName at h
  split at h
  · simp only [Option.some.injEq] at h; subst h
    simp [identName]
  · simp at h

theorem identName_inv (ρ : LocPerm) (n : T) : identName (mapLoc ρ.to n) = identName n := optInv_of_fwd identName identName_fwd ρ n

theorem varName_fwd (ρ : LocPerm) (n : T) (s : String) (h : varName n = some s) : varName (mapLoc ρ.to n) = some s := by
  unfold varName at h
  split at h
  · simp [varName, identName_inv, h]
  · simp at h


theorem varName_inv (ρ : LocPerm) (n : T) : varName (mapLoc ρ.to n) = varName n := optInv_of_fwd varName varName_fwd ρ n

theorem tag_inv (ρ : LocPerm) (n : T) : (mapLoc ρ.to n).tag? = n.tag? := mapLoc_tag ρ.to n

theorem ofT_fwd (ρ : LocPerm) (t : T) (l : Loc) (h : Loc.ofT t = some l) : Loc.ofT (mapLoc ρ.to t) = some (ρ.to l) :=
  ofT_mapLoc ρ.to t l h

theorem vecItems_mapLoc (ρ : LocPerm) (v : T) : vecItems (mapLoc ρ.to v) = (vecItems v).map (mapLoc ρ.to) := by
  cases v with
  | node tag ks =>
    by_cases hv : tag = .Vec
    · subst hv; simp [vecItems]
    · by_cases hl : tag = .Loc_File
      · subst hl
        have h1 : vecItems (T.node .Loc_File ks) = [] := by simp [vecItems]
        have h2 := mapLoc_tag ρ.to (T.node .Loc_File ks)
        cases hm : mapLoc ρ.to (T.node .Loc_File ks) with
        | node t' ks' => simp [hm, T.tag?] at h2; subst h2; simp [vecItems]
        | _ => simp [vecItems]
      · have : vecItems (T.node tag ks) = [] := by unfold vecItems; split <;> simp_all
        rw [this, mapLoc_node ρ.to tag ks hl]
        unfold vecItems; split <;> simp_all
  | _ => simp [vecItems]

theorem isTypeExpr_fwd (tag : Tag) (ρ : LocPerm) (n : T) (h : isTypeExpr tag n = true) : isTypeExpr tag (mapLoc ρ.to n) = true := by
  unfold isTypeExpr at h
  split at h
  · rename_i l t ks
    simp only [decide_eq_true_eq] at h; subst h
    by_cases ht : t = .Loc_File
    · subst ht
      have h2 := mapLoc_tag ρ.to (T.node .Loc_File ks)
      cases hm : mapLoc ρ.to (T.node .Loc_File ks) with
      | node t' ks' => simp [hm, T.tag?] at h2; subst h2; simp [isTypeExpr, hm]
      | _ => simp [hm, T.tag?] at h2
    · simp [isTypeExpr, mapLoc_node ρ.to t ks ht]
  · simp at h

theorem isTypeExpr_inv (tag : Tag) (ρ : LocPerm) (n : T) : isTypeExpr tag (mapLoc ρ.to n) = isTypeExpr tag n :=
  inv_of_fwd (isTypeExpr tag) (isTypeExpr_fwd tag) ρ n


/-! ## per-node finding functions -/

theorem addressBalanceAt_fwd (ρ : LocPerm) (n : T) (l : Loc) (h : addressBalanceAt n = some l) :
    addressBalanceAt (mapLoc ρ.to n) = some (ρ.to l) := by
  unfold addressBalanceAt at h
  split at h
  · split at h
    · rename_i hc
      simp only [Bool.and_eq_true, decide_eq_true_eq] at hc
      simp [addressBalanceAt, identName_inv, isTypeExpr_inv, hc.1, hc.2, ofT_fwd ρ _ l h]
    · simp at h
  · simp at h


theorem optimalComparisonAt_fwd (ρ : LocPerm) (n : T) (l : Loc) (h : optimalComparisonAt n = some l) :
    optimalComparisonAt (mapLoc ρ.to n) = some (ρ.to l) := by
  unfold optimalComparisonAt at h
  split at h <;> simp_all [optimalComparisonAt, ofT_fwd ρ _ l]

theorem solidityMathAt_fwd (ρ : LocPerm) (n : T) (l : Loc) (h : solidityMathAt n = some l) :
    solidityMathAt (mapLoc ρ.to n) = some (ρ.to l) := by
  unfold solidityMathAt at h
  split at h <;> simp_all [solidityMathAt, ofT_fwd ρ _ l]

theorem incDecLocAt_fwd (ρ : LocPerm) (n : T) (l : Loc) (h : incDecLocAt n = some l) :
    incDecLocAt (mapLoc ρ.to n) = some (ρ.to l) := by
  unfold incDecLocAt at h
  split at h <;> simp_all [incDecLocAt, ofT_fwd ρ _ l]

theorem isBoolLit_fwd (ρ : LocPerm) (n : T) (h : isBoolLit n = true) : isBoolLit (mapLoc ρ.to n) = true := by
  unfold isBoolLit at h
  split at h
  · simp [isBoolLit]
  · simp at h

theorem isBoolLit_inv (ρ : LocPerm) (n : T) : isBoolLit (mapLoc ρ.to n) = isBoolLit n := inv_of_fwd isBoolLit isBoolLit_fwd ρ n

theorem boolEqualsBoolAt_fwd (ρ : LocPerm) (n : T) (l : Loc) (h : boolEqualsBoolAt n = some l) :
    boolEqualsBoolAt (mapLoc ρ.to n) = some (ρ.to l) := by
  unfold boolEqualsBoolAt at h
  split at h
  · split at h
    · rename_i hc; simp [boolEqualsBoolAt, isBoolLit_inv, hc, ofT_fwd ρ _ l h]
    · simp at h
  · split at h
    · rename_i hc; simp [boolEqualsBoolAt, isBoolLit_inv, hc, ofT_fwd ρ _ l h]
    · simp at h
  · simp at h

theorem checkAddressZero_fwd (ρ : LocPerm) (n : T) (h : checkAddressZero n = true) : checkAddressZero (mapLoc ρ.to n) = true := by
  unfold checkAddressZero at h
  split at h
  · rename_i l callee args
    simp only [Bool.and_eq_true] at h
    obtain ⟨hty, hz⟩ := h
    split at hz
    · rename_i l2 v ex heq
      have hv : ∃ rest, vecItems args = .node .Expression_NumberLiteral [l2, .str v, .str ex] :: rest := by
        cases hh : vecItems args with
        | nil => simp [hh] at heq
        | cons a as => simp [hh] at heq; exact ⟨as, by rw [heq]⟩
      obtain ⟨rest, hv⟩ := hv
      simp [checkAddressZero, isTypeExpr_inv, hty, vecItems_mapLoc, hv, hz]
    · simp at hz
  · simp at h

theorem checkAddressZero_inv (ρ : LocPerm) (n : T) : checkAddressZero (mapLoc ρ.to n) = checkAddressZero n :=
  inv_of_fwd checkAddressZero checkAddressZero_fwd ρ n

theorem addressZeroAt_fwd (ρ : LocPerm) (n : T) (l : Loc) (h : addressZeroAt n = some l) :
    addressZeroAt (mapLoc ρ.to n) = some (ρ.to l) := by
  unfold addressZeroAt at h
  split at h
  · split at h
    · rename_i hc; simp [addressZeroAt, checkAddressZero_inv, hc, ofT_fwd ρ _ l h]
    · simp at h
  · split at h
    · rename_i hc; simp [addressZeroAt, checkAddressZero_inv, hc, ofT_fwd ρ _ l h]
    · simp at h
  · simp at h

theorem lengthAccessAt_fwd (ρ : LocPerm) (n : T) (l : Loc) (h : lengthAccessAt n = some l) :
    lengthAccessAt (mapLoc ρ.to n) = some (ρ.to l) := by
  unfold lengthAccessAt at h
  split at h
  · split at h
    · rename_i hc; simp [lengthAccessAt, identName_inv, hc, ofT_fwd ρ _ l h]
    · simp at h
  · simp at h

theorem erc20At_fwd (ρ : LocPerm) (n : T) (l : Loc) (h : erc20At n = some l) : erc20At (mapLoc ρ.to n) = some (ρ.to l) := by
  unfold erc20At at h
  split at h
  · rename_i loc obj id
    cases hid : identName id with
    | none => simp [hid] at h
    | some name =>
      simp only [hid] at h
      split at h
      · rename_i hc; simp [erc20At, identName_inv, hid, hc, ofT_fwd ρ _ l h]
      · simp at h
  · simp at h

theorem safeMathCallAt_fwd (ρ : LocPerm) (n : T) (l : Loc) (h : safeMathCallAt n = some l) :
    safeMathCallAt (mapLoc ρ.to n) = some (ρ.to l) := by
  unfold safeMathCallAt at h
  split at h
  · rename_i cl loc obj id args
    cases hid : identName id with
    | none => simp [hid] at h
    | some name =>
      simp only [hid] at h
      split at h
      · rename_i hc; simp [safeMathCallAt, identName_inv, hid, hc, ofT_fwd ρ _ l h]
      · simp at h
  · simp at h

theorem keccakAt_fwd (ρ : LocPerm) (n : T) (l : Loc) (h : keccakAt n = some l) : keccakAt (mapLoc ρ.to n) = some (ρ.to l) := by
  unfold keccakAt at h
  split at h
  · split at h
    · rename_i hc; simp [keccakAt, hc, ofT_fwd ρ _ l h]
    · simp at h
  · simp at h

theorem floatingPragmaAt_fwd (ρ : LocPerm) (n : T) (l : Loc) (h : floatingPragmaAt n = some l) :
    floatingPragmaAt (mapLoc ρ.to n) = some (ρ.to l) := by
  unfold floatingPragmaAt at h
  split at h
  · rename_i loc id l2 u v
    split at h
    · rename_i hc
      have hm : '^' ∈ v.toList := by simpa using hc
      simp [floatingPragmaAt, hm, ofT_fwd ρ _ l h]
    · simp at h
  · simp at h

theorem multipleRequireAt_fwd (ρ : LocPerm) (n : T) (l : Loc) (h : multipleRequireAt n = some l) :
    multipleRequireAt (mapLoc ρ.to n) = some (ρ.to l) := by
  unfold multipleRequireAt at h
  split at h
  · rename_i loc callee args
    split at h
    · rename_i hc
      simp only [Bool.and_eq_true, decide_eq_true_eq, List.any_eq_true] at hc
      obtain ⟨hreq, a, ha, hand⟩ := hc
      have : ((vecItems args).map (mapLoc ρ.to)).any (fun a => a.tag? = some .Expression_And) = true := by
        rw [List.any_eq_true]
        exact ⟨mapLoc ρ.to a, List.mem_map.2 ⟨a, ha, rfl⟩, by simpa [tag_inv] using hand⟩
      simp [multipleRequireAt, varName_inv, hreq, vecItems_mapLoc, this, ofT_fwd ρ _ l h]
    · simp at h
  · simp at h

/-! the literal test of shift_math reads atoms only -/

theorem isPow2Literal_fwd (ρ : LocPerm) (n : T) (h : isPow2Literal n = true) : isPow2Literal (mapLoc ρ.to n) = true := by
  unfold isPow2Literal at h
  split at h
  · simp [isPow2Literal]; simpa using h
  · simp at h

theorem isPow2Literal_inv (ρ : LocPerm) (n : T) : isPow2Literal (mapLoc ρ.to n) = isPow2Literal n :=
  inv_of_fwd isPow2Literal isPow2Literal_fwd ρ n

theorem shiftMathAt_fwd (ρ : LocPerm) (n : T) (l : Loc) (h : shiftMathAt n = some l) :
    shiftMathAt (mapLoc ρ.to n) = some (ρ.to l) := by
  unfold shiftMathAt at h
  split at h
  · split at h
    · rename_i hc; simp [shiftMathAt, isPow2Literal_inv, hc, ofT_fwd ρ _ l h]
    · simp at h
  · split at h
    · rename_i hc; simp [shiftMathAt, isPow2Literal_inv, hc, ofT_fwd ρ _ l h]
    · simp at h
  · simp at h

/-! divide_before_multiply: the operand chains are followed through the same constructors -/

theorem reachesDivide_fwd (ρ : LocPerm) (n : T) (h : reachesDivide n = true) : reachesDivide (mapLoc ρ.to n) = true := by
  induction n using reachesDivide.induct with
  | case1 ks => simp [reachesDivide]
  | case2 loc l r ih =>
    simp only [reachesDivide] at h
    simp [reachesDivide, ih h]
  | case3 loc e ih =>
    simp only [reachesDivide] at h
    simp [reachesDivide, ih h]
  | case4 t h1 h2 h3 => unfold reachesDivide at h; split at h <;> simp_all

theorem reachesDivide_inv (ρ : LocPerm) (n : T) : reachesDivide (mapLoc ρ.to n) = reachesDivide n :=
  inv_of_fwd reachesDivide (fun ρ n h => reachesDivide_fwd ρ n h) ρ n


theorem reachesMultiply_fwd (ρ : LocPerm) : ∀ n : T, reachesMultiply n = true → reachesMultiply (mapLoc ρ.to n) = true
  | .node tag [loc, l, r], h => by
    by_cases hl : tag = .Loc_File
    · subst hl; simp [reachesMultiply, chainTags] at h
    · by_cases hm : tag = .Expression_Multiply
      · subst hm; simp [reachesMultiply]
      · by_cases hc : chainTags.contains tag = true
        · have h' : reachesMultiply l = true := by
            simp only [reachesMultiply, hm, hc, if_true, if_false] at h; exact h
          simp only [mapLoc_node ρ.to tag _ hl, List.map_cons, List.map_nil, reachesMultiply, hm, hc, if_true, if_false]
          exact reachesMultiply_fwd ρ l h'
        · simp only [reachesMultiply, hm, hc, if_false] at h; simp at h
  | .node tag [loc, e], h => by
    by_cases hl : tag = .Loc_File
    · subst hl; simp [reachesMultiply] at h
    · by_cases hm : tag = .Expression_Multiply
      · subst hm; simp [reachesMultiply]
      · by_cases hp : tag = .Expression_Parenthesis
        · subst hp
          have h' : reachesMultiply e = true := by simpa [reachesMultiply] using h
          simp [reachesMultiply, reachesMultiply_fwd ρ e h']
        · simp [reachesMultiply, hm, hp] at h
  | .node tag [], h => by
    simp [reachesMultiply] at h; subst h; simp [reachesMultiply]
  | .node tag [_], h => by
    simp [reachesMultiply] at h; subst h; simp [reachesMultiply]
  | .node tag (_ :: _ :: _ :: _ :: _), h => by
    simp [reachesMultiply] at h; subst h; simp [reachesMultiply]
  | .str _, h => by simp [reachesMultiply] at h
  | .nat _, h => by simp [reachesMultiply] at h
  | .bool _, h => by simp [reachesMultiply] at h

theorem reachesMultiply_inv (ρ : LocPerm) (n : T) : reachesMultiply (mapLoc ρ.to n) = reachesMultiply n :=
  inv_of_fwd reachesMultiply (fun ρ n h => reachesMultiply_fwd ρ n h) ρ n

theorem divideBeforeMultiplyAt_fwd (ρ : LocPerm) (n : T) (l : Loc) (h : divideBeforeMultiplyAt n = some l) :
    divideBeforeMultiplyAt (mapLoc ρ.to n) = some (ρ.to l) := by
  unfold divideBeforeMultiplyAt at h
  split at h
  · split at h
    · rename_i hc; simp [divideBeforeMultiplyAt, reachesDivide_inv, hc, ofT_fwd ρ _ l h]
    · simp at h
  · split at h
    · rename_i hc; simp [divideBeforeMultiplyAt, reachesMultiply_inv, hc, ofT_fwd ρ _ l h]
    · simp at h
  · simp at h

/-! ## whole detectors: the same tokens are flagged before and after -/

/-- a detector commutes with relocation: it flags, in the relocated file, exactly the relocated
locations, in the same order -/
def Equivariant (d : T → List Loc) : Prop := ∀ (ρ : LocPerm) (f : T), d (mapLoc ρ.to f) = (d f).map ρ.to

theorem equivariant_filterMap (ts : List Target) (g : T → Option Loc)
    (hf : ∀ (ρ : LocPerm) n l, g n = some l → g (mapLoc ρ.to n) = some (ρ.to l)) :
    Equivariant (fun f => (extract ts f).filterMap g) :=
  fun ρ f => filterMap_detector_equivariant ts g ρ.to (equiv_of_fwd g hf ρ) f

theorem addressBalance_equivariant : Equivariant addressBalance := equivariant_filterMap _ _ addressBalanceAt_fwd
theorem addressZero_equivariant : Equivariant addressZero := equivariant_filterMap _ _ addressZeroAt_fwd
theorem boolEqualsBool_equivariant : Equivariant boolEqualsBool := equivariant_filterMap _ _ boolEqualsBoolAt_fwd
theorem multipleRequire_equivariant : Equivariant multipleRequire := equivariant_filterMap _ _ multipleRequireAt_fwd
theorem optimalComparison_equivariant : Equivariant optimalComparison := equivariant_filterMap _ _ optimalComparisonAt_fwd
theorem shiftMath_equivariant : Equivariant shiftMath := equivariant_filterMap _ _ shiftMathAt_fwd
theorem solidityKeccak256_equivariant : Equivariant solidityKeccak256 := equivariant_filterMap _ _ keccakAt_fwd
theorem solidityMath_equivariant : Equivariant solidityMath := equivariant_filterMap _ _ solidityMathAt_fwd
theorem unsafeErc20_equivariant : Equivariant unsafeErc20Operation := equivariant_filterMap _ _ erc20At_fwd
theorem floatingPragma_equivariant : Equivariant floatingPragma := equivariant_filterMap _ _ floatingPragmaAt_fwd
theorem divideBeforeMultiply_equivariant : Equivariant divideBeforeMultiply := equivariant_filterMap _ _ divideBeforeMultiplyAt_fwd
theorem safeMathCalls_equivariant : Equivariant safeMathCalls := equivariant_filterMap _ _ safeMathCallAt_fwd

/-- all increment/decrement locations below a root, and the prefix ones: equivariant for any root -/
theorem incDecLocs_equivariant (ts : List Target) (ρ : LocPerm) (root : T) :
    incDecLocs ts (mapLoc ρ.to root) = (incDecLocs ts root).map ρ.to :=
  equivariant_filterMap ts incDecLocAt incDecLocAt_fwd ρ root

/-- cache_array_length: the `for` statements and, inside their conditions, the `.length` accesses -/
theorem forCondition_mapLoc (ρ : LocPerm) (n : T) : forCondition (mapLoc ρ.to n) = (forCondition n).map (mapLoc ρ.to) := by
  have hf : ∀ (ρ : LocPerm) n c, forCondition n = some c → forCondition (mapLoc ρ.to n) = some (mapLoc ρ.to c) := by
    intro ρ n c h
    unfold forCondition at h
    split at h
    · simp only [Option.some.injEq] at h; subst h; simp [forCondition]
    · simp at h
  cases h : forCondition n with
  | some c => simpa using hf ρ n c h
  | none =>
    cases h2 : forCondition (mapLoc ρ.to n) with
    | none => rfl
    | some c' =>
      have := hf ρ.symm _ c' h2
      simp only [LocPerm.symm, mapLoc_inv_to] at this
      rw [h] at this; cases this

theorem cacheArrayLength_equivariant : Equivariant cacheArrayLength := by
  intro ρ f
  unfold cacheArrayLength
  rw [extract_mapLoc, List.flatMap_map, List.map_flatMap]
  congr 1
  funext n
  unfold cacheArrayLengthAt
  rw [forCondition_mapLoc]
  cases forCondition n with
  | none => rfl
  | some c =>
    simp only [Option.map_some]
    exact equivariant_filterMap [.MemberAccess] lengthAccessAt lengthAccessAt_fwd ρ c

/-- **C17 (lines).** If the flagged locations move with `ρ`, the reported lines are the lines of the
relocated locations in the re-laid-out text: the lines move exactly with the tokens. -/
theorem lines_move_with_tokens (d : T → List Loc) (hd : Equivariant d) (ρ : LocPerm) (f : T) (bytes₂ : List UInt8) (l : Nat) :
    l ∈ analyzeLines d bytes₂ (mapLoc ρ.to f) ↔ ∃ loc ∈ d f, l = lineOf bytes₂ (ρ.to loc).start := by
  unfold analyzeLines
  rw [mem_lineSet, hd ρ f]
  simp only [List.map_map, List.mem_map, Function.comp]
  constructor
  · rintro ⟨loc, hm, rfl⟩; exact ⟨loc, hm, rfl⟩
  · rintro ⟨loc, hm, rfl⟩; exact ⟨loc, hm, rfl⟩

/-- swapping two file numbers is a permutation of the locations: the file number a file is parsed
with is irrelevant to every equivariant detector (C15) -/
def swapFileNo (a b : Nat) : LocPerm where
  to l := { l with fileNo := if l.fileNo = a then b else if l.fileNo = b then a else l.fileNo }
  inv l := { l with fileNo := if l.fileNo = a then b else if l.fileNo = b then a else l.fileNo }
  left l := by
    cases l with
    | mk f s e =>
      simp only [Loc.mk.injEq, and_true]
      by_cases h1 : f = a <;> by_cases h2 : f = b <;> simp_all
  right l := by
    cases l with
    | mk f s e =>
      simp only [Loc.mk.injEq, and_true]
      by_cases h1 : f = a <;> by_cases h2 : f = b <;> simp_all

/-- **C15 (file number).** For an equivariant detector the reported lines do not depend on the file
number: parsing the same text as file `b` instead of file `a` relabels every location and changes
no start offset. -/
theorem fileNo_irrelevant (d : T → List Loc) (hd : Equivariant d) (a b : Nat) (f : T) (bytes : List UInt8) :
    analyzeLines d bytes (mapLoc (swapFileNo a b).to f) = analyzeLines d bytes f := by
  unfold analyzeLines
  rw [hd (swapFileNo a b) f, List.map_map]
  rfl

end Solstat
