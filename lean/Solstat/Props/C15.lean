import Solstat.Gen.Inventory
import Solstat.Gen.Patterns
/-!
# C15 — obligations on the regenerated tables

The independence statements of C15 are theorems about functions (`entry_local` in `Props/C16.lean`,
`analyzeDir_exact` in `Props/C03.lean`, `fileNo_irrelevant` in `Props/C17.lean`); that the *code* is such a
function rests on a fact read off the current sources by the translator.  It lives in its own module so that a change
which breaks it is attributed to C15 and to nothing else.  (The shape of the per-file entry points — parse, run the
detector, convert every location — is tied by the correspondence on every sample, not by a syntactic comparison:
`Gen.entryFrameResidue` is recorded in the evidence only.)
-/
namespace Solstat

/-- the library keeps no state between calls: no `static`, `lazy_static!`, `thread_local!`, `unsafe`
or interior-mutability type anywhere in the non-test sources (regenerated inventory) -/
theorem no_global_state : Gen.globalSites = [] := by decide

end Solstat
