import Solstat.Props.C17b
import Solstat.Analyze
/-!
# C15: the position of a file in its directory does not matter

`analyze_dir` parses the `k`-th directory entry with file number `k`; the number ends up in every location of the
tree and nowhere else.  Renumbering is a relocation (`swapFile`, an involution on locations that exchanges two file
numbers and keeps the offsets), so for every equivariant detector — all 30, `C17_all` — the offsets of the findings,
and with them the reported lines, are the same whatever number the file was parsed with.
-/
namespace Solstat
open Solstat.Gen T

/-- exchange two file numbers, keep the offsets -/
def swapFile (i j : Nat) : Loc → Loc := fun l =>
  if l.fileNo = i then ⟨j, l.start, l.stop⟩ else if l.fileNo = j then ⟨i, l.start, l.stop⟩ else l

theorem swapFile_invol (i j : Nat) (l : Loc) : swapFile i j (swapFile i j l) = l := by
  obtain ⟨f, s, e⟩ := l
  unfold swapFile
  by_cases h1 : f = i
  · subst h1
    by_cases h2 : j = f
    · subst h2; simp
    · simp [h2]
  · by_cases h2 : f = j
    · subst h2; simp [h1]
    · simp [h1, h2]

def swapFilePerm (i j : Nat) : LocPerm := ⟨swapFile i j, swapFile i j, swapFile_invol i j, swapFile_invol i j⟩

theorem swapFile_start (i j : Nat) (l : Loc) : (swapFile i j l).start = l.start := by
  unfold swapFile
  split
  · rfl
  · split <;> rfl

theorem swapFile_stop (i j : Nat) (l : Loc) : (swapFile i j l).stop = l.stop := by
  unfold swapFile
  split
  · rfl
  · split <;> rfl

/-- the offsets of the findings do not depend on the file number -/
theorem offsets_fileNo_irrelevant (d : T → List Loc) (hd : Equivariant d) (i j : Nat) (f : T) :
    (d (mapLoc (swapFile i j) f)).map (fun l => (l.start, l.stop)) = (d f).map (fun l => (l.start, l.stop)) := by
  have := hd (swapFilePerm i j) f
  simp only [swapFilePerm] at this
  rw [this, List.map_map]
  apply List.map_congr_left
  intro l _
  simp [swapFile_start, swapFile_stop]

/-- nor do the reported lines -/
theorem lines_fileNo_irrelevant (d : T → List Loc) (hd : Equivariant d) (i j : Nat) (src : List UInt8) (f : T) :
    analyzeLines d src (mapLoc (swapFile i j) f) = analyzeLines d src f := by
  unfold analyzeLines
  have := hd (swapFilePerm i j) f
  simp only [swapFilePerm] at this
  rw [this, List.map_map]
  congr 1
  apply List.map_congr_left
  intro l _
  simp [swapFile_start]

/-- for every detector of the dispatch table -/
theorem lines_fileNo_irrelevant_all (name : String) (d : T → List Loc) (h : detectorByName name = some d)
    (i j : Nat) (src : List UInt8) (f : T) : analyzeLines d src (mapLoc (swapFile i j) f) = analyzeLines d src f :=
  lines_fileNo_irrelevant d (C17_all name d h) i j src f

end Solstat
