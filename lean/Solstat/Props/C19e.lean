import Solstat.Props.C19
import Solstat.Props.C02
/-!
# C19 on the reported LINES

The property speaks of the lines reported for a file.  The composition theorems of `C19.lean` … `C19d.lean` are
about flagged locations; the per-file entry points turn locations into lines (`analyzeLines`, C02).  Here: when
"each top-level item is analysed on its own at its original position" — the text of the other items is blanked,
every line feed kept — the line of an offset is the same in the blanked text as in the whole file
(`lineOf_blank`), hence the lines reported for the whole file are exactly the union of the lines reported for
the items (`lines_compose`, and `lines_compose_of_distributes` for a detector that distributes over the items).
-/
namespace Solstat
open Solstat.Gen T

/-- the text with some bytes replaced: positions where `keepAt` is false become a space, except line feeds
(and whatever else the caller keeps) — the harness blanks the other items this way -/
def blankFrom (keepAt : Nat → Bool) : Nat → List UInt8 → List UInt8
  | _, [] => []
  | i, b :: bs => (if keepAt i || b = 10 then b else 32) :: blankFrom keepAt (i + 1) bs

def blank (keepAt : Nat → Bool) (bs : List UInt8) : List UInt8 := blankFrom keepAt 0 bs

theorem lfPositionsFrom_blank (keepAt : Nat → Bool) : ∀ (bs : List UInt8) (base i : Nat),
    lfPositionsFrom base (blankFrom keepAt i bs) = lfPositionsFrom base bs
  | [], _, _ => rfl
  | b :: bs, base, i => by
    simp only [blankFrom, lfPositionsFrom]
    by_cases hb : b = 10
    · simp [hb, lfPositionsFrom_blank keepAt bs (base + 1) (i + 1)]
    · by_cases hk : keepAt i = true
      · simp [hk, hb, lfPositionsFrom_blank keepAt bs (base + 1) (i + 1)]
      · have h32 : (32 : UInt8) ≠ 10 := by decide
        simp [hk, hb, h32, lfPositionsFrom_blank keepAt bs (base + 1) (i + 1)]

/-- blanking keeps the line of every offset -/
theorem lineOf_blank (keepAt : Nat → Bool) (bs : List UInt8) (off : Nat) : lineOf (blank keepAt bs) off = lineOf bs off := by
  unfold lineOf lfPositions blank
  rw [lfPositionsFrom_blank]

theorem blank_length (keepAt : Nat → Bool) (bs : List UInt8) : (blank keepAt bs).length = bs.length := by
  unfold blank
  have : ∀ (bs : List UInt8) (i : Nat), (blankFrom keepAt i bs).length = bs.length := by
    intro bs
    induction bs with
    | nil => intro i; rfl
    | cons b bs ih => intro i; simp [blankFrom, ih]
  exact this bs 0

/-- **C19, lines.** If the locations flagged in the whole file are exactly those flagged in the items analysed
on their own (the statement of the location-level theorems), and every item is analysed on a text that has
the line feeds of the whole file, then the reported lines of the file are exactly the union of the reported
lines of the items. -/
theorem lines_compose (d : T → List Loc) (whole : T) (n : Nat) (part : Nat → T) (src : List UInt8) (srcOf : Nat → List UInt8)
    (hlocs : ∀ l, l ∈ d whole ↔ ∃ i, i < n ∧ l ∈ d (part i))
    (hsrc : ∀ i, i < n → ∀ off, lineOf (srcOf i) off = lineOf src off) (y : Nat) :
    y ∈ analyzeLines d src whole ↔ ∃ i, i < n ∧ y ∈ analyzeLines d (srcOf i) (part i) := by
  unfold analyzeLines
  simp only [mem_lineSet, List.mem_map]
  constructor
  · rintro ⟨l, hl, rfl⟩
    obtain ⟨i, hi, hli⟩ := (hlocs l).1 hl
    exact ⟨i, hi, l, hli, hsrc i hi _⟩
  · rintro ⟨i, hi, l, hl, rfl⟩
    exact ⟨l, (hlocs l).2 ⟨i, hi, hl⟩, (hsrc i hi _).symm⟩

/-- the same for a detector that distributes over the top-level items, with the other items blanked -/
theorem lines_compose_of_distributes (d : T → List Loc) (hd : Distributes d) (parts : List T) (src : List UInt8)
    (keepAt : Nat → Nat → Bool) (y : Nat) :
    y ∈ analyzeLines d src (mkSourceUnit parts) ↔
      ∃ i, i < parts.length ∧ y ∈ analyzeLines d (blank (keepAt i) src) (mkSourceUnit (keep i parts)) :=
  lines_compose d (mkSourceUnit parts) parts.length (fun i => mkSourceUnit (keep i parts)) src (fun i => blank (keepAt i) src)
    (compose_of_distributes d hd parts) (fun i _ off => lineOf_blank (keepAt i) src off) y

/-- no item influences the lines of another: the lines an item contributes are those of its own findings,
whatever surrounds it (text and tree) -/
theorem item_lines (d : T → List Loc) (hd : Distributes d) (pre post : List T) (item : T) (src : List UInt8) (l : Loc)
    (h : l ∈ d item) : lineOf src l.start ∈ analyzeLines d src (mkSourceUnit (pre ++ item :: post)) := by
  unfold analyzeLines
  rw [mem_lineSet, List.mem_map]
  exact ⟨l, (item_contribution d hd pre post pre post item l h).1, rfl⟩

/-- non-vacuity: blanking a two-line text keeps the line feed, and the line of offset 5 with it -/
example : blank (fun i => i ≥ 4) [0x61, 0x62, 0x0A, 0x63, 0x64, 0x65] = [32, 32, 0x0A, 32, 0x64, 0x65] ∧
    lineOf (blank (fun i => i ≥ 4) [0x61, 0x62, 0x0A, 0x63, 0x64, 0x65]) 5 = 2 := by decide

end Solstat
