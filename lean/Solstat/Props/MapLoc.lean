import Solstat.Props.Lift
import Solstat.Reloc
import Solstat.Props.TreeLemmas
/-!
# Relocation of a parse tree

`mapLoc ρ t` applies `ρ` to every source location of `t` and leaves everything else alone: it is
what a token-preserving re-layout of the source text does to the parse tree (with `ρ` the token
offset map), and what a change of the file number does (with `ρ` replacing the file number).
-/
namespace Solstat
open Solstat.Gen T


theorem mapLocL_eq_map (ρ : Loc → Loc) (ks : List T) : mapLocL ρ ks = ks.map (mapLoc ρ) := by
  induction ks with
  | nil => rfl
  | cons k ks ih => simp [mapLocL, ih]

/-- on a node that is not a location -/
theorem mapLoc_node (ρ : Loc → Loc) (tag : Tag) (ks : List T) (h : tag ≠ .Loc_File) :
    mapLoc ρ (.node tag ks) = .node tag (ks.map (mapLoc ρ)) := by
  unfold mapLoc; simp [h, mapLocL_eq_map]

theorem mapLoc_loc (ρ : Loc → Loc) (l : Loc) : mapLoc ρ (Loc.toT l) = Loc.toT (ρ l) := by
  simp [Loc.toT, mapLoc]

theorem mapLoc_tag (ρ : Loc → Loc) (t : T) : (mapLoc ρ t).tag? = t.tag? := by
  cases t with
  | node tag ks =>
    unfold mapLoc
    by_cases h : tag = .Loc_File
    · subst h
      simp only [if_true]
      split <;> simp [T.tag?, Loc.toT]
    · simp [h, T.tag?]
  | _ => simp [mapLoc]

theorem mapLoc_isNode (ρ : Loc → Loc) (t : T) : (mapLoc ρ t).isNode = t.isNode := by
  have := mapLoc_tag ρ t
  cases t with
  | node tag ks =>
    cases h : mapLoc ρ (.node tag ks) with
    | node tag' ks' => simp [h, T.tag?] at this; simp [T.isNode, this]
    | _ => simp [h, T.tag?] at this
  | _ => simp [mapLoc]

theorem ofT_mapLoc (ρ : Loc → Loc) (t : T) (l : Loc) (h : Loc.ofT t = some l) : Loc.ofT (mapLoc ρ t) = some (ρ l) := by
  unfold Loc.ofT at h
  split at h
  · simp only [Option.some.injEq] at h; subst h
    simp [mapLoc, Loc.toT, Loc.ofT]
  · simp at h

/-! ## the nodes of a relocated tree are the relocated nodes -/

mutual
theorem allNodes_mapLoc_aux (ρ : Loc → Loc) : ∀ t : T,
    (subtreesNoAsm (mapLoc ρ t)).filter T.isNode = ((subtreesNoAsm t).filter T.isNode).map (mapLoc ρ)
  | .node tag ks => by
    by_cases hl : tag = .Loc_File
    · subst hl
      -- a location (well-formed or not) contains no nodes, before and after
      unfold mapLoc
      simp only [if_true]
      split
      · simp [Loc.toT, subtreesNoAsm, subtreesNoAsmL, T.isNode, isNodeTag, List.filter_cons]
      · have h2 := allNodesL_mapLoc_aux ρ ks
        have hne : (Tag.Loc_File = Tag.Statement_Assembly) = False := by simp
        simp only [subtreesNoAsm, hne, if_false, List.filter_cons, T.isNode, isNodeTag, Bool.false_eq_true, h2]
    · rw [mapLoc_node ρ tag ks hl]
      have h2 := allNodesL_mapLoc_aux ρ ks
      rw [mapLocL_eq_map] at h2
      by_cases ha : tag = .Statement_Assembly
      · subst ha
        simp only [subtreesNoAsm, if_true, List.filter_cons, T.isNode, isNodeTag, List.filter_nil, List.map_cons, List.map_nil]
        rw [mapLoc_node ρ _ ks (by decide)]
      · simp only [subtreesNoAsm, ha, if_false, List.filter_cons, T.isNode, h2]
        by_cases hn : isNodeTag tag = true
        · simp only [hn, if_true, List.map_cons, mapLoc_node ρ tag ks hl]
        · simp only [hn, Bool.false_eq_true, if_false]
  | .str _ => by simp [mapLoc, subtreesNoAsm, T.isNode]
  | .nat _ => by simp [mapLoc, subtreesNoAsm, T.isNode]
  | .bool _ => by simp [mapLoc, subtreesNoAsm, T.isNode]
theorem allNodesL_mapLoc_aux (ρ : Loc → Loc) : ∀ ks : List T,
    (subtreesNoAsmL (mapLocL ρ ks)).filter T.isNode = ((subtreesNoAsmL ks).filter T.isNode).map (mapLoc ρ)
  | [] => by simp [mapLocL, subtreesNoAsmL]
  | k :: ks => by
    simp only [mapLocL, subtreesNoAsmL, List.filter_append, List.map_append]
    rw [allNodes_mapLoc_aux ρ k, allNodesL_mapLoc_aux ρ ks]
end

theorem allNodes_mapLoc (ρ : Loc → Loc) (t : T) : allNodes (mapLoc ρ t) = (allNodes t).map (mapLoc ρ) :=
  allNodes_mapLoc_aux ρ t

theorem hasKind_mapLoc (ρ : Loc → Loc) (ts : Tag → Bool) (t : T) : hasKind ts (mapLoc ρ t) = hasKind ts t := by
  have := mapLoc_tag ρ t
  cases t with
  | node tag ks =>
    cases h : mapLoc ρ (.node tag ks) with
    | node tag' ks' => simp [h, T.tag?] at this; simp [hasKind, this]
    | _ => simp [h, T.tag?] at this
  | _ => simp [mapLoc]

/-- **the walker is equivariant**: re-laying out a file relocates the nodes found, nothing else -/
theorem extract_mapLoc (ρ : Loc → Loc) (ts : List Target) (t : T) :
    extract ts (mapLoc ρ t) = (extract ts t).map (mapLoc ρ) := by
  rw [C01, C01, allNodes_mapLoc, List.filter_map]
  congr 1
  apply List.filter_congr
  intro n _
  simp [hasKind_mapLoc]

/-! ## composition and identity -/

def IsLocArgs (ks : List T) : Prop := ∃ f s e, ks = [.nat f, .nat s, .nat e]

theorem mapLoc_locnode_ill (ρ : Loc → Loc) (ks : List T) (h : ¬ IsLocArgs ks) :
    mapLoc ρ (.node .Loc_File ks) = .node .Loc_File (ks.map (mapLoc ρ)) := by
  unfold mapLoc
  simp only [if_true]
  split
  · rename_i f s e
    exact absurd ⟨f, s, e, rfl⟩ h
  · simp [mapLocL_eq_map]

theorem mapLoc_eq_nat (ρ : Loc → Loc) (k : T) (x : Nat) (h : mapLoc ρ k = .nat x) : k = .nat x := by
  cases k with
  | node tag ks =>
    exfalso
    have := mapLoc_tag ρ (.node tag ks)
    rw [h] at this
    simp [T.tag?] at this
  | nat y => simpa [mapLoc] using h
  | str _ => simp [mapLoc] at h
  | bool _ => simp [mapLoc] at h

theorem isLocArgs_map (ρ : Loc → Loc) (ks : List T) (h : IsLocArgs (ks.map (mapLoc ρ))) : IsLocArgs ks := by
  obtain ⟨f, s, e, he⟩ := h
  match ks, he with
  | [a, b, c], he =>
    simp only [List.map_cons, List.map_nil, List.cons.injEq, and_true] at he
    exact ⟨f, s, e, by rw [mapLoc_eq_nat ρ a f he.1, mapLoc_eq_nat ρ b s he.2.1, mapLoc_eq_nat ρ c e he.2.2]⟩
  | [], he => simp at he
  | [_], he => simp at he
  | [_, _], he => simp at he
  | _ :: _ :: _ :: _ :: _, he => simp at he

mutual
theorem mapLoc_comp (σ ρ : Loc → Loc) : ∀ t : T, mapLoc σ (mapLoc ρ t) = mapLoc (σ ∘ ρ) t
  | .node tag ks => by
    by_cases hl : tag = .Loc_File
    · subst hl
      by_cases hw : IsLocArgs ks
      · obtain ⟨f, s, e, rfl⟩ := hw
        simp [mapLoc, Loc.toT]
      · have ih := mapLocL_comp σ ρ ks
        simp only [mapLocL_eq_map] at ih
        rw [mapLoc_locnode_ill ρ ks hw, mapLoc_locnode_ill σ _ (fun h => hw (isLocArgs_map ρ ks h)),
          mapLoc_locnode_ill (σ ∘ ρ) ks hw, ih]
    · rw [mapLoc_node ρ tag ks hl, mapLoc_node σ tag _ hl, mapLoc_node (σ ∘ ρ) tag ks hl]
      have ih := mapLocL_comp σ ρ ks
      simp only [mapLocL_eq_map] at ih
      rw [ih]
  | .str _ => by simp [mapLoc]
  | .nat _ => by simp [mapLoc]
  | .bool _ => by simp [mapLoc]
theorem mapLocL_comp (σ ρ : Loc → Loc) : ∀ ks : List T, mapLocL σ (mapLocL ρ ks) = mapLocL (σ ∘ ρ) ks
  | [] => rfl
  | k :: ks => by simp only [mapLocL, mapLoc_comp σ ρ k, mapLocL_comp σ ρ ks]
end

mutual
theorem mapLoc_id : ∀ t : T, mapLoc id t = t
  | .node tag ks => by
    by_cases hl : tag = .Loc_File
    · subst hl
      by_cases hw : IsLocArgs ks
      · obtain ⟨f, s, e, rfl⟩ := hw
        simp [mapLoc, Loc.toT]
      · have ih := mapLocL_id ks
        simp only [mapLocL_eq_map] at ih
        rw [mapLoc_locnode_ill id ks hw, ih]
    · have ih := mapLocL_id ks
      simp only [mapLocL_eq_map] at ih
      rw [mapLoc_node id tag ks hl, ih]
  | .str _ => by simp [mapLoc]
  | .nat _ => by simp [mapLoc]
  | .bool _ => by simp [mapLoc]
theorem mapLocL_id : ∀ ks : List T, mapLocL id ks = ks
  | [] => rfl
  | k :: ks => by simp only [mapLocL, mapLoc_id k, mapLocL_id ks]
end

/-- an injective relocation can be undone -/
theorem mapLoc_leftInverse (ρ σ : Loc → Loc) (h : ∀ l, σ (ρ l) = l) (t : T) : mapLoc σ (mapLoc ρ t) = t := by
  rw [mapLoc_comp]
  have : σ ∘ ρ = id := funext h
  rw [this, mapLoc_id]

/-! ## from "forward" facts to invariance / equivariance

For an injective `ρ` it is enough to show that a property is *preserved* by every relocation; that it
is also *reflected* follows by relocating back. -/

theorem exists_leftInverse (ρ : Loc → Loc) (hinj : Function.Injective ρ) : ∃ σ : Loc → Loc, ∀ l, σ (ρ l) = l := by
  classical
  refine ⟨fun m => if h : ∃ l, ρ l = m then Classical.choose h else m, ?_⟩
  intro l
  have hex : ∃ l', ρ l' = ρ l := ⟨l, rfl⟩
  simp only [hex, dite_true]
  exact hinj (Classical.choose_spec hex)

/-- a Boolean test on terms that every relocation preserves is invariant under injective relocations -/
theorem invariant_of_forward (p : T → Bool) (hf : ∀ (ρ : Loc → Loc) n, p n = true → p (mapLoc ρ n) = true)
    (ρ : Loc → Loc) (hinj : Function.Injective ρ) (n : T) : p (mapLoc ρ n) = p n := by
  obtain ⟨σ, hσ⟩ := exists_leftInverse ρ hinj
  cases h : p n with
  | true => exact hf ρ n h
  | false =>
    cases h2 : p (mapLoc ρ n) with
    | false => rfl
    | true =>
      have := hf σ _ h2
      rw [mapLoc_leftInverse ρ σ hσ] at this
      rw [h] at this; cases this

/-- a per-node finding function whose findings every relocation carries along is equivariant under
injective relocations -/
theorem equivariant_of_forward (g : T → Option Loc)
    (hf : ∀ (ρ : Loc → Loc) n l, g n = some l → g (mapLoc ρ n) = some (ρ l))
    (ρ : Loc → Loc) (hinj : Function.Injective ρ) (n : T) : g (mapLoc ρ n) = (g n).map ρ := by
  obtain ⟨σ, hσ⟩ := exists_leftInverse ρ hinj
  cases h : g n with
  | some l => simpa using hf ρ n l h
  | none =>
    cases h2 : g (mapLoc ρ n) with
    | none => rfl
    | some l' =>
      have := hf σ _ l' h2
      rw [mapLoc_leftInverse ρ σ hσ, h] at this
      cases this

/-- lifting: a detector `(extract ts f).filterMap g` with an equivariant `g` flags the relocated
locations of the relocated file, in the same order -/
theorem filterMap_detector_equivariant (ts : List Target) (g : T → Option Loc)
    (ρ : Loc → Loc) (hg : ∀ n, g (mapLoc ρ n) = (g n).map ρ) (f : T) :
    (extract ts (mapLoc ρ f)).filterMap g = ((extract ts f).filterMap g).map ρ := by
  rw [extract_mapLoc, List.filterMap_map, List.map_filterMap]
  congr 1
  funext n
  simp [Function.comp, hg n]

/-! ## the locations of a tree; relocations that agree on them agree on the tree -/


mutual
theorem mapLoc_congr (ρ σ : Loc → Loc) : ∀ t : T, (∀ l ∈ locsOf t, ρ l = σ l) → mapLoc ρ t = mapLoc σ t
  | .node tag ks, h => by
    unfold mapLoc
    unfold locsOf at h
    by_cases ht : tag = .Loc_File
    · subst ht
      by_cases hk : IsLocArgs ks
      · obtain ⟨f, s, e, rfl⟩ := hk
        simp only [if_true, List.mem_singleton, forall_eq] at h ⊢
        rw [h]
      · have hl : locsOf (.node .Loc_File ks) = locsOfL ks := by
          unfold locsOf
          simp only [if_true]
          split
          · rename_i f s e
            exact absurd ⟨f, s, e, rfl⟩ hk
          · rfl
        have h' : ∀ l ∈ locsOfL ks, ρ l = σ l := fun l m => h l (by unfold locsOf at hl; rw [hl]; exact m)
        simp only [if_true]
        split
        · rename_i f s e
          exact absurd ⟨f, s, e, rfl⟩ hk
        · rw [mapLocL_congr ρ σ ks h']
    · simp only [ht, if_false] at h ⊢
      rw [mapLocL_congr ρ σ ks h]
  | .str _, _ => by simp [mapLoc]
  | .nat _, _ => by simp [mapLoc]
  | .bool _, _ => by simp [mapLoc]
theorem mapLocL_congr (ρ σ : Loc → Loc) : ∀ ks : List T, (∀ l ∈ locsOfL ks, ρ l = σ l) → mapLocL ρ ks = mapLocL σ ks
  | [], _ => rfl
  | k :: ks, h => by
    unfold locsOfL at h
    unfold mapLocL
    rw [mapLoc_congr ρ σ k (fun l hl => h l (List.mem_append_left _ hl)),
        mapLocL_congr ρ σ ks (fun l hl => h l (List.mem_append_right _ hl))]
end

end Solstat
