import Solstat.Props.C01
/-!
# Lifting a per-node test to "found anywhere in the file" (uses C01)
-/
namespace Solstat
open Solstat.Gen T

/-- A detector of the form `(extract ts f).filterMap g` reports exactly the `g`-images of all nodes
of the file outside inline assembly — provided `g` only fires on nodes of a requested kind. -/
theorem mem_extract_filterMap (ts : List Target) (g : T → Option Loc) (f : T) (l : Loc)
    (hk : ∀ n l, g n = some l → ∃ tag kids, n = .node tag kids ∧ isNodeTag tag = true ∧ specKind tag ∈ ts) :
    l ∈ (extract ts f).filterMap g ↔ ∃ n ∈ allNodes f, g n = some l := by
  rw [List.mem_filterMap]
  constructor
  · rintro ⟨n, hn, hg⟩
    exact ⟨n, (extract_mem ts f n hn).1, hg⟩
  · rintro ⟨n, hn, hg⟩
    refine ⟨n, ?_, hg⟩
    rw [C01]
    apply List.mem_filter.2
    refine ⟨hn, ?_⟩
    obtain ⟨tag, kids, rfl, _, hk'⟩ := hk n l hg
    simpa [hasKind] using hk'

/-- the same, for any result type -/
theorem mem_extract_filterMap' {α : Type} (ts : List Target) (g : T → Option α) (f : T) (a : α)
    (hk : ∀ n a, g n = some a → ∃ tag kids, n = .node tag kids ∧ isNodeTag tag = true ∧ specKind tag ∈ ts) :
    a ∈ (extract ts f).filterMap g ↔ ∃ n ∈ allNodes f, g n = some a := by
  rw [List.mem_filterMap]
  constructor
  · rintro ⟨n, hn, hg⟩
    exact ⟨n, (extract_mem ts f n hn).1, hg⟩
  · rintro ⟨n, hn, hg⟩
    refine ⟨n, ?_, hg⟩
    rw [C01]
    apply List.mem_filter.2
    refine ⟨hn, ?_⟩
    obtain ⟨tag, kids, rfl, _, hk'⟩ := hk n a hg
    simpa [hasKind] using hk'

/-- the same for a detector that collects several locations per node -/
theorem mem_extract_flatMap (ts : List Target) (g : T → List Loc) (f : T) (l : Loc)
    (hk : ∀ n l, l ∈ g n → ∃ tag kids, n = .node tag kids ∧ isNodeTag tag = true ∧ specKind tag ∈ ts) :
    l ∈ (extract ts f).flatMap g ↔ ∃ n ∈ allNodes f, l ∈ g n := by
  rw [List.mem_flatMap]
  constructor
  · rintro ⟨n, hn, hg⟩
    exact ⟨n, (extract_mem ts f n hn).1, hg⟩
  · rintro ⟨n, hn, hg⟩
    refine ⟨n, ?_, hg⟩
    rw [C01]
    apply List.mem_filter.2
    refine ⟨hn, ?_⟩
    obtain ⟨tag, kids, rfl, _, hk'⟩ := hk n l hg
    simpa [hasKind] using hk'

/-- membership in `extract` in terms of `allNodes` and the tag -/
theorem mem_extract (ts : List Target) (f n : T) :
    n ∈ extract ts f ↔ n ∈ allNodes f ∧ ∃ tag kids, n = .node tag kids ∧ specKind tag ∈ ts := by
  rw [C01, List.mem_filter]
  constructor
  · rintro ⟨h1, h2⟩
    refine ⟨h1, ?_⟩
    cases n with
    | node tag kids => exact ⟨tag, kids, rfl, by simpa [hasKind] using h2⟩
    | _ => simp [hasKind] at h2
  · rintro ⟨h1, tag, kids, rfl, h2⟩
    exact ⟨h1, by simpa [hasKind] using h2⟩

end Solstat
