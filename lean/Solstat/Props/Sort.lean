import Solstat.Report
/-! # Insertion sort: permutation, sortedness, and "a sorted permutation is unique" -/
namespace Solstat

variable {α : Type}

theorem insertBy_perm (le : α → α → Bool) (x : α) : ∀ ys : List α, (insertBy le x ys).Perm (x :: ys)
  | [] => by simp [insertBy]
  | y :: ys => by
    unfold insertBy
    by_cases h : le x y = true
    · simp [h]
    · simp only [h, if_false]
      exact ((insertBy_perm le x ys).cons y).trans (List.Perm.swap x y ys)

theorem sortBy_perm (le : α → α → Bool) : ∀ xs : List α, (sortBy le xs).Perm xs
  | [] => by simp [sortBy]
  | x :: xs => by
    have ih := sortBy_perm le xs
    unfold sortBy at ih ⊢
    simp only [List.foldr]
    exact (insertBy_perm le x _).trans (ih.cons x)

theorem mem_insertBy (le : α → α → Bool) (x y : α) (ys : List α) : y ∈ insertBy le x ys ↔ y = x ∨ y ∈ ys := by
  rw [(insertBy_perm le x ys).mem_iff]; simp

structure TotalPreorder (le : α → α → Bool) : Prop where
  total : ∀ a b, le a b = true ∨ le b a = true
  trans : ∀ a b c, le a b = true → le b c = true → le a c = true

theorem insertBy_sorted (le : α → α → Bool) (h : TotalPreorder le) (x : α) :
    ∀ ys : List α, ys.Pairwise (fun a b => le a b = true) → (insertBy le x ys).Pairwise (fun a b => le a b = true)
  | [], _ => by simp [insertBy]
  | y :: ys, hs => by
    have hy := List.pairwise_cons.1 hs
    unfold insertBy
    by_cases hxy : le x y = true
    · simp only [hxy, if_true]
      refine List.pairwise_cons.2 ⟨?_, hs⟩
      intro a ha
      rcases List.mem_cons.1 ha with rfl | ha
      · exact hxy
      · exact h.trans _ _ _ hxy (hy.1 a ha)
    · simp only [hxy, if_false]
      refine List.pairwise_cons.2 ⟨?_, insertBy_sorted le h x ys hy.2⟩
      intro a ha
      rcases (mem_insertBy le x a ys).1 ha with rfl | ha
      · rcases h.total a y with h1 | h1
        · exact absurd h1 hxy
        · exact h1
      · exact hy.1 a ha

theorem sortBy_sorted (le : α → α → Bool) (h : TotalPreorder le) : ∀ xs : List α, (sortBy le xs).Pairwise (fun a b => le a b = true)
  | [] => by simp [sortBy]
  | x :: xs => by
    have ih := sortBy_sorted le h xs
    unfold sortBy at ih ⊢
    simp only [List.foldr]
    exact insertBy_sorted le h x _ ih

/-- two lists with the same elements (as multisets) sort to the same list, provided the order is
antisymmetric on their elements -/
theorem sortBy_eq_of_perm (le : α → α → Bool) (h : TotalPreorder le) (xs ys : List α) (hp : xs.Perm ys)
    (hanti : ∀ a ∈ xs, ∀ b ∈ xs, le a b = true → le b a = true → a = b) : sortBy le xs = sortBy le ys := by
  apply List.Perm.eq_of_pairwise (le := fun a b => le a b = true)
  · intro a b ha hb h1 h2
    exact hanti a ((sortBy_perm le xs).mem_iff.1 ha) b ((sortBy_perm le ys).mem_iff.1 hb |> hp.mem_iff.2) h1 h2
  · exact sortBy_sorted le h xs
  · exact sortBy_sorted le h ys
  · exact (sortBy_perm le xs).trans (hp.trans (sortBy_perm le ys).symm)

/-! ## the orders the renderer uses -/

theorem lexLe_total : ∀ a b : List Nat, lexLe a b = true ∨ lexLe b a = true
  | [], _ => Or.inl (by simp [lexLe])
  | _ :: _, [] => Or.inr (by simp [lexLe])
  | a :: as, b :: bs => by
    simp only [lexLe, Bool.or_eq_true, Bool.and_eq_true, decide_eq_true_eq]
    rcases Nat.lt_trichotomy a b with h | h | h
    · exact Or.inl (Or.inl h)
    · subst h
      rcases lexLe_total as bs with h | h
      · exact Or.inl (Or.inr ⟨rfl, h⟩)
      · exact Or.inr (Or.inr ⟨rfl, h⟩)
    · exact Or.inr (Or.inl h)

theorem lexLe_trans : ∀ a b c : List Nat, lexLe a b = true → lexLe b c = true → lexLe a c = true
  | [], _, _, _, _ => by simp [lexLe]
  | _ :: _, [], _, h, _ => by simp [lexLe] at h
  | _ :: _, _ :: _, [], _, h => by simp [lexLe] at h
  | a :: as, b :: bs, c :: cs, h1, h2 => by
    simp only [lexLe, Bool.or_eq_true, Bool.and_eq_true, decide_eq_true_eq] at h1 h2 ⊢
    rcases h1 with h1 | ⟨rfl, h1⟩
    · rcases h2 with h2 | ⟨rfl, _⟩
      · exact Or.inl (by omega)
      · exact Or.inl h1
    · rcases h2 with h2 | ⟨rfl, h2⟩
      · exact Or.inl h2
      · exact Or.inr ⟨rfl, lexLe_trans as bs cs h1 h2⟩

theorem lexLe_antisymm : ∀ a b : List Nat, lexLe a b = true → lexLe b a = true → a = b
  | [], [], _, _ => rfl
  | [], _ :: _, _, h => by simp [lexLe] at h
  | _ :: _, [], h, _ => by simp [lexLe] at h
  | a :: as, b :: bs, h1, h2 => by
    simp only [lexLe, Bool.or_eq_true, Bool.and_eq_true, decide_eq_true_eq] at h1 h2
    rcases h1 with h1 | ⟨rfl, h1⟩
    · rcases h2 with h2 | ⟨rfl, _⟩ <;> omega
    · rcases h2 with h2 | ⟨_, h2⟩
      · omega
      · rw [lexLe_antisymm as bs h1 h2]

theorem charToNat_inj (x y : Char) (h : x.toNat = y.toNat) : x = y := by
  exact Char.ext (by simpa [Char.toNat] using UInt32.toNat_inj.1 h)

theorem map_toNat_inj : ∀ (a b : List Char), a.map Char.toNat = b.map Char.toNat → a = b
  | [], [], _ => rfl
  | [], _ :: _, h => by simp at h
  | _ :: _, [], h => by simp at h
  | x :: xs, y :: ys, h => by
    simp only [List.map_cons, List.cons.injEq] at h
    rw [charToNat_inj x y h.1, map_toNat_inj xs ys h.2]

theorem strKey_injective (a b : String) (h : strKey a = strKey b) : a = b :=
  String.ext (map_toNat_inj _ _ h)

theorem fileLe_preorder : TotalPreorder fileLe where
  total a b := by
    unfold fileLe
    by_cases h : strKey a.1 = strKey b.1
    · simp only [h, if_true]; exact lexLe_total _ _
    · have h' : ¬ strKey b.1 = strKey a.1 := fun e => h e.symm
      simp only [h, h', if_false]; exact lexLe_total _ _
  trans a b c h1 h2 := by
    unfold fileLe at h1 h2 ⊢
    by_cases hab : strKey a.1 = strKey b.1
    · by_cases hbc : strKey b.1 = strKey c.1
      · have hac : strKey a.1 = strKey c.1 := hab.trans hbc
        rw [if_pos hab] at h1; rw [if_pos hbc] at h2; rw [if_pos hac]
        exact lexLe_trans _ _ _ h1 h2
      · have hac : ¬ strKey a.1 = strKey c.1 := fun e => hbc (hab.symm.trans e)
        rw [if_neg hbc] at h2; rw [if_neg hac, hab]
        exact h2
    · by_cases hbc : strKey b.1 = strKey c.1
      · have hac : ¬ strKey a.1 = strKey c.1 := fun e => hab (e.trans hbc.symm)
        rw [if_neg hab] at h1; rw [if_neg hac, ← hbc]
        exact h1
      · rw [if_neg hab] at h1; rw [if_neg hbc] at h2
        have h3 := lexLe_trans _ _ _ h1 h2
        by_cases hac : strKey a.1 = strKey c.1
        · -- a ≤ b ≤ c = a on keys forces the keys equal: contradiction with hab
          have : strKey b.1 = strKey a.1 := lexLe_antisymm _ _ (by rw [hac]; exact h2) h1
          exact absurd this.symm hab
        · rw [if_neg hac]; exact h3

theorem fileLe_antisymm (a b : String × List Nat) (h1 : fileLe a b = true) (h2 : fileLe b a = true) : a = b := by
  unfold fileLe at h1 h2
  by_cases hab : strKey a.1 = strKey b.1
  · rw [if_pos hab] at h1; rw [if_pos hab.symm] at h2
    exact Prod.ext (strKey_injective _ _ hab) (lexLe_antisymm _ _ h1 h2)
  · have hba : ¬ strKey b.1 = strKey a.1 := fun e => hab e.symm
    rw [if_neg hab] at h1; rw [if_neg hba] at h2
    exact absurd (lexLe_antisymm _ _ h1 h2) hab

/-- files in any discovery order sort to the same list -/
theorem sortFiles_perm (fs fs' : Files) (h : fs.Perm fs') : sortBy fileLe fs = sortBy fileLe fs' :=
  sortBy_eq_of_perm fileLe fileLe_preorder fs fs' h (fun a _ b _ => fileLe_antisymm a b)

end Solstat
