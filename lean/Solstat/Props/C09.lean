import Solstat.Props.C07
import Solstat.Props.Compose
/-!
# C09 — version-gated detectors follow the file's `pragma solidity` version
-/
namespace Solstat
open Solstat.Gen T View

/-! ## the version regex on plain versions -/

def AllDigits (ds : List Char) : Prop := ∀ c ∈ ds, isDigitC c = true

theorem dot_not_digit : isDigitC '.' = false := by decide

theorem spanDigits_append (ds rest : List Char) (hd : AllDigits ds)
    (hr : ∀ c rs, rest = c :: rs → isDigitC c = false) : spanDigits (ds ++ rest) = (ds, rest) := by
  induction ds with
  | nil =>
    cases rest with
    | nil => simp [spanDigits]
    | cons c rs => simp [spanDigits, hr c rs rfl]
  | cons d ds ih =>
    have hd' : AllDigits ds := fun c hc => hd c (by simp [hc])
    simp [spanDigits, hd d (by simp), ih hd']

theorem spanDots_one (rest : List Char) (hr : ∀ c rs, rest = c :: rs → c ≠ '.') :
    spanDots ('.' :: rest) = (['.'], rest) := by
  cases rest with
  | nil => simp [spanDots]
  | cons c rs => simp [spanDots, hr c rs rfl]

theorem digit_ne_dot {c : Char} (h : isDigitC c = true) : c ≠ '.' := by
  intro e; subst e; simp [dot_not_digit] at h

/-- a well-formed `a.b.c` is matched whole at its start -/
theorem matchVersionAt_full (d1 d2 d3 : List Char) (h1 : AllDigits d1) (h2 : AllDigits d2) (h3 : AllDigits d3)
    (n1 : d1 ≠ []) (n2 : d2 ≠ []) (n3 : d3 ≠ []) :
    matchVersionAt (d1 ++ '.' :: (d2 ++ '.' :: d3)) = some (d1 ++ '.' :: (d2 ++ '.' :: d3), []) := by
  unfold matchVersionAt
  rw [spanDigits_append d1 _ h1 (by intro c rs h; cases h; exact dot_not_digit)]
  cases d1 with
  | nil => exact absurd rfl n1
  | cons a as =>
    simp only
    rw [spanDigits_append d2 _ h2 (by intro c rs h; cases h; exact dot_not_digit)]
    cases d2 with
    | nil => exact absurd rfl n2
    | cons b bs =>
      simp only
      cases d3 with
      | nil => exact absurd rfl n3
      | cons c cs =>
        rw [spanDots_one _ (by intro x rs h; cases h; exact digit_ne_dot (h3 c (by simp)))]
        simp only
        have := spanDigits_append (c :: cs) [] h3 (by intro x rs h; cases h)
        simp only [List.append_nil] at this
        rw [this]
        simp

theorem matchVersionAt_nondigit (c : Char) (cs : List Char) (h : isDigitC c = false) :
    matchVersionAt (c :: cs) = none := by
  simp [matchVersionAt, spanDigits, h]

theorem lastVersionMatch_prefix (op v : List Char) (hop : ∀ c ∈ op, isDigitC c = false)
    (hv : matchVersionAt v = some (v, [])) (hne : v ≠ []) :
    ∀ fuel, fuel ≥ op.length + 1 → lastVersionMatch fuel (op ++ v) none = some v := by
  induction op with
  | nil =>
    intro fuel hf
    cases fuel with
    | zero => omega
    | succ n =>
      cases v with
      | nil => exact absurd rfl hne
      | cons c cs =>
        simp only [List.nil_append, lastVersionMatch, hv]
        cases n <;> simp [lastVersionMatch]
  | cons o os ih =>
    intro fuel hf
    cases fuel with
    | zero => omega
    | succ n =>
      have ho : isDigitC o = false := hop o (by simp)
      simp only [List.cons_append, lastVersionMatch, matchVersionAt_nondigit o _ ho]
      exact ih (fun c hc => hop c (by simp [hc])) n (by simp at hf; omega)

theorem splitDots_nodot (ds : List Char) (h : ∀ c ∈ ds, c ≠ '.') : splitDots ds = [ds] := by
  induction ds with
  | nil => simp [splitDots]
  | cons d ds ih =>
    have := ih (fun c hc => h c (by simp [hc]))
    simp [splitDots, this, h d (by simp)]

theorem splitDots_ne_nil (cs : List Char) : splitDots cs ≠ [] := by
  cases cs with
  | nil => simp [splitDots]
  | cons c cs =>
    simp only [splitDots]
    split
    · simp
    · split <;> simp

theorem splitDots_append (ds rest : List Char) (h : ∀ c ∈ ds, c ≠ '.') :
    splitDots (ds ++ '.' :: rest) = ds :: splitDots rest := by
  induction ds with
  | nil =>
    simp only [List.nil_append, splitDots]
    cases hs : splitDots rest with
    | nil => exact absurd hs (splitDots_ne_nil rest)
    | cons x xs => simp
  | cons d ds ih =>
    have := ih (fun c hc => h c (by simp [hc]))
    simp [splitDots, this, h d (by simp)]


/-- **C09 (regex, general form).** For every operator spelling without digits and every triple of
non-empty ASCII digit strings the code extracts exactly the three components. -/
theorem versionPieces_of_plain (op d1 d2 d3 : List Char) (hop : ∀ c ∈ op, isDigitC c = false)
    (h1 : AllDigits d1) (h2 : AllDigits d2) (h3 : AllDigits d3) (n1 : d1 ≠ []) (n2 : d2 ≠ []) (n3 : d3 ≠ []) :
    versionPieces (op ++ (d1 ++ '.' :: (d2 ++ '.' :: d3))) = [d1, d2, d3] := by
  unfold versionPieces
  have hv := matchVersionAt_full d1 d2 d3 h1 h2 h3 n1 n2 n3
  have hne : d1 ++ '.' :: (d2 ++ '.' :: d3) ≠ [] := by cases d1 <;> simp
  rw [lastVersionMatch_prefix op _ hop hv hne _ (by simp; omega)]
  simp only
  rw [splitDots_append d1 _ (fun c hc => digit_ne_dot (h1 c hc)), splitDots_append d2 _ (fun c hc => digit_ne_dot (h2 c hc)),
    splitDots_nodot d3 (fun c hc => digit_ne_dot (h3 c hc))]


/-- the numeric value of a digit string that fits an `i32` is what `parse::<i32>()` returns -/
theorem parseI32_digits (ds : List Char) (h : AllDigits ds) (hne : ds ≠ []) (hb : digitsVal ds 0 < 2147483648) :
    parseI32 ds = some (digitsVal ds 0) := by
  unfold parseI32
  have h1 : ds.isEmpty = false := by cases ds <;> simp_all
  have h2 : ds.all isDigitC = true := by rw [List.all_eq_true]; exact h
  simp [h1, h2, hb]

/-- **C09 (version extraction).** For every operator spelling without digits — in particular none,
`^`, `~`, `=`, `>=`, `>` — and every version whose components are non-empty digit strings below 2³¹,
the version read from the pragma value is the triple of their values. -/
theorem versionOfValue_plain (op d1 d2 d3 : List Char) (hop : ∀ c ∈ op, isDigitC c = false)
    (h1 : AllDigits d1) (h2 : AllDigits d2) (h3 : AllDigits d3) (n1 : d1 ≠ []) (n2 : d2 ≠ []) (n3 : d3 ≠ [])
    (b1 : digitsVal d1 0 < 2147483648) (b2 : digitsVal d2 0 < 2147483648) (b3 : digitsVal d3 0 < 2147483648) :
    versionOfValue (op ++ (d1 ++ '.' :: (d2 ++ '.' :: d3))) = some (digitsVal d1 0, digitsVal d2 0, digitsVal d3 0) := by
  unfold versionOfValue
  rw [versionPieces_of_plain op d1 d2 d3 hop h1 h2 h3 n1 n2 n3]
  simp [parseI32_digits d1 h1 n1 b1, parseI32_digits d2 h2 n2 b2, parseI32_digits d3 h3 n3 b3]

/-- the six operator spellings of the property contain no digit -/
theorem ops_no_digit : ∀ op ∈ ["".toList, "^".toList, "~".toList, "=".toList, ">=".toList, ">".toList],
    ∀ c ∈ op, isDigitC c = false := by decide

/-- the property's own table, spot instance: `>=0.8.13` -/
example : versionOfValue ">=0.8.13".toList = some (0, 8, 13) := by decide

/-! ## comparison of versions -/

/-- lexicographic order on (major, minor, patch) -/
def LexLt (a b : Nat × Nat × Nat) : Prop :=
  a.1 < b.1 ∨ (a.1 = b.1 ∧ (a.2.1 < b.2.1 ∨ (a.2.1 = b.2.1 ∧ a.2.2 < b.2.2)))

theorem verLt_iff (a b : Nat × Nat × Nat) : verLt a b = true ↔ LexLt a b := by
  unfold verLt LexLt; simp

def LexLe (a b : Nat × Nat × Nat) : Prop := ¬ LexLt b a

theorem lexLt_of_le_of_lt {a b c : Nat × Nat × Nat} (h1 : LexLe a b) (h2 : LexLt b c) : LexLt a c := by
  unfold LexLe LexLt at *; omega

/-- **monotone gates**: a "`v <` bound" verdict is inherited by every smaller version, a "`v ≥` bound"
verdict by every larger one -/
theorem gate_lt_mono (bound v v' : Nat × Nat × Nat) (hle : LexLe v v') (h : verLt v' bound = true) :
    verLt v bound = true := (verLt_iff _ _).2 (lexLt_of_le_of_lt hle ((verLt_iff _ _).1 h))

theorem gate_ge_mono (bound v v' : Nat × Nat × Nat) (hle : LexLe v v') (h : verLt v bound = false) :
    verLt v' bound = false := by
  cases h' : verLt v' bound with
  | false => rfl
  | true => rw [gate_lt_mono bound v v' hle h'] at h; cases h

/-! ## the gates -/

/-- the SafeMath detectors: active iff the version is below / not below 0.8.0 -/
theorem safeMath_gate (f : T) (v : Nat × Nat × Nat) (hv : versionOf f = some v) (pre : Bool) (l : Loc) :
    l ∈ safeMath pre f ↔
      (if pre then LexLt v (0, 8, 0) else ¬ LexLt v (0, 8, 0)) ∧ usingSafeMath f = true ∧ l ∈ safeMathCalls f := by
  unfold safeMath
  simp only [hv]
  cases pre with
  | true =>
    simp only [if_true]
    by_cases h : verLt v (0, 8, 0) = true
    · have := (verLt_iff _ _).1 h
      cases hu : usingSafeMath f <;> simp [h, hu, this]
    · have : ¬ LexLt v (0, 8, 0) := fun x => h ((verLt_iff _ _).2 x)
      simp [h, this]
  | false =>
    simp only [Bool.false_eq_true, if_false]
    by_cases h : verLt v (0, 8, 0) = true
    · have := (verLt_iff _ _).1 h
      simp [h, this]
    · have : ¬ LexLt v (0, 8, 0) := fun x => h ((verLt_iff _ _).2 x)
      have h' : verLt v (0, 8, 0) = false := by simpa using h
      cases hu : usingSafeMath f <;> simp [h', hu, this]

/-- never both -/
theorem safeMath_never_both (f : T) (l : Loc) : ¬ (l ∈ safeMath true f ∧ l ∈ safeMath false f) := by
  rintro ⟨h1, h2⟩
  cases hv : versionOf f with
  | none => simp [safeMath, hv] at h1
  | some v =>
    have a := ((safeMath_gate f v hv true l).1 h1).1
    have b := ((safeMath_gate f v hv false l).1 h2).1
    simp at a b
    exact b a

theorem stringErrors_gate (f : T) (v : Nat × Nat × Nat) (hv : versionOf f = some v) (l : Loc) :
    l ∈ stringErrors f ↔ ¬ LexLt v (0, 8, 4) ∧ l ∈ (extract [.FunctionCall] f).filterMap stringErrorAt := by
  unfold stringErrors
  simp only [hv]
  by_cases h : verLt v (0, 8, 4) = true
  · have := (verLt_iff _ _).1 h
    simp [h, this]
  · have : ¬ LexLt v (0, 8, 4) := fun x => h ((verLt_iff _ _).2 x)
    have h' : verLt v (0, 8, 4) = false := by simpa using h
    simp [h', this]

theorem shortRevert_gate (f : T) (v : Nat × Nat × Nat) (hv : versionOf f = some v) (l : Loc) :
    l ∈ shortRevertString f ↔ LexLt v (0, 8, 4) ∧ l ∈ (extract [.FunctionCall] f).filterMap shortRevertAt := by
  unfold shortRevertString
  simp only [hv]
  by_cases h : verLt v (0, 8, 4) = true
  · have := (verLt_iff _ _).1 h
    simp [h, this]
  · have : ¬ LexLt v (0, 8, 4) := fun x => h ((verLt_iff _ _).2 x)
    simp [h, this]

/-- without a version nothing is reported (and nothing panics) -/
theorem no_version_silent (f : T) (hv : versionOf f = none) :
    safeMath true f = [] ∧ safeMath false f = [] ∧ stringErrors f = [] ∧ shortRevertString f = [] := by
  simp [safeMath, stringErrors, shortRevertString, hv]

/-! ## what is reported when a gate is open -/

/-- a SafeMath call site: a call whose callee is a member access named add/sub/mul/div; the member
access is reported -/
def isSafeMathCallee (m : T) : Bool :=
  match memberAccess m with
  | some (_, _, id) => identName id = some "add" || identName id = some "sub" || identName id = some "mul" || identName id = some "div"
  | none => false

theorem safeMathCallAt_iff (n : T) (l : Loc) :
    safeMathCallAt n = some l ↔ ∃ cl callee args, call n = some (cl, callee, args) ∧ isSafeMathCallee callee = true ∧ View.loc callee = some l := by
  constructor
  · intro h
    unfold safeMathCallAt at h
    split at h
    · rename_i cl loc obj id args
      cases hid : identName id with
      | none => simp [hid] at h
      | some name =>
        simp only [hid] at h
        split at h
        · rename_i hc
          refine ⟨cl, _, args, rfl, ?_, by simpa [View.loc] using h⟩
          simp only [Bool.or_eq_true, decide_eq_true_eq] at hc
          simp [isSafeMathCallee, memberAccess, hid]
          rcases hc with ((rfl | rfl) | rfl) | rfl <;> simp
        · simp at h
    · simp at h
  · rintro ⟨cl, callee, args, hc, hs, hl⟩
    have := call_inv hc; subst this
    unfold isSafeMathCallee at hs
    split at hs
    · rename_i ml obj id hm
      have := memberAccess_inv hm; subst this
      simp [View.loc] at hl
      cases hid : identName id with
      | none => simp [hid] at hs
      | some name =>
        simp [hid] at hs
        simp only [safeMathCallAt, hid]
        rcases hs with ((rfl | rfl) | rfl) | rfl <;> simp [hl]
    · simp at hs

theorem safeMathCalls_exact (f : T) (l : Loc) :
    l ∈ safeMathCalls f ↔ ∃ n ∈ allNodes f, ∃ cl callee args, call n = some (cl, callee, args) ∧
      isSafeMathCallee callee = true ∧ View.loc callee = some l := by
  unfold safeMathCalls
  rw [mem_extract_filterMap]
  · constructor
    · rintro ⟨n, hn, h⟩; exact ⟨n, hn, (safeMathCallAt_iff n l).1 h⟩
    · rintro ⟨n, hn, h⟩; exact ⟨n, hn, (safeMathCallAt_iff n l).2 h⟩
  · intro n l h
    unfold safeMathCallAt at h
    split at h
    · exact ⟨_, _, rfl, by decide, by decide⟩
    · simp at h

/-! ## other pragmas do not matter, wherever they stand -/

/-- the version depends on the file only through its `pragma solidity` directives -/
theorem versionOf_eq (f : T) :
    versionOf f = match solidityPragmas f with
      | v :: _ => versionOfValue v.toList
      | [] => none := rfl

/-- a top-level item that is not a `pragma solidity` directive and contains none -/
def NoSolidityPragma (p : T) : Prop := (extract [.PragmaDirective] p).filterMap solidityPragmaOf = []

theorem solidityPragmas_insert (xs ys : List T) (p : T) (hp : NoSolidityPragma p) :
    solidityPragmas (mkSourceUnit (xs ++ p :: ys)) = solidityPragmas (mkSourceUnit (xs ++ ys)) := by
  unfold solidityPragmas
  rw [extract_sourceUnit, extract_sourceUnit]
  have : ([Target.PragmaDirective].contains Target.SourceUnit) = false := by decide
  simp only [this, Bool.false_eq_true, if_false, List.nil_append, List.flatMap_append, List.flatMap_cons,
    List.filterMap_append]
  rw [hp]; simp

/-- **C09 (unrelated pragmas).** Inserting or removing, at any position among the top-level items, an
item that is not and does not contain a `pragma solidity` directive (`pragma experimental …`,
`pragma abicoder …`, anything else) leaves the version unchanged. -/
theorem versionOf_insert (xs ys : List T) (p : T) (hp : NoSolidityPragma p) :
    versionOf (mkSourceUnit (xs ++ p :: ys)) = versionOf (mkSourceUnit (xs ++ ys)) := by
  rw [versionOf_eq, versionOf_eq, solidityPragmas_insert xs ys p hp]

/-- a pragma directive with another identifier is such an item (its location, identifier and value
contain no nodes — true of every parse tree, where they are a `Loc`, an `Identifier` and a `StringLiteral`) -/
theorem other_pragma_noSolidity (loc id lit : T) (h : identName id ≠ some "solidity")
    (hleaf : allNodes loc = [] ∧ allNodes id = [] ∧ allNodes lit = []) :
    NoSolidityPragma (.node .SourceUnitPart_PragmaDirective [loc, id, lit]) := by
  unfold NoSolidityPragma
  have hall : allNodes (.node .SourceUnitPart_PragmaDirective [loc, id, lit]) =
      [.node .SourceUnitPart_PragmaDirective [loc, id, lit]] := by
    obtain ⟨h1, h2, h3⟩ := hleaf
    unfold allNodes at h1 h2 h3 ⊢
    have hne : (Tag.SourceUnitPart_PragmaDirective = Tag.Statement_Assembly) = False := by simp
    simp only [subtreesNoAsm, subtreesNoAsmL, hne, if_false, List.filter_cons, List.filter_append, h1, h2, h3,
      List.filter_nil, List.append_nil]
    simp only [T.isNode, isNodeTag, if_true]
  rw [C01, hall]
  have hk : hasKind (fun tag => [Target.PragmaDirective].contains (specKind tag))
      (.node .SourceUnitPart_PragmaDirective [loc, id, lit]) = true := by simp [hasKind, specKind]
  simp only [List.filter_cons, hk, if_true, List.filter_nil, List.filterMap_cons, List.filterMap_nil]
  have : solidityPragmaOf (.node .SourceUnitPart_PragmaDirective [loc, id, lit]) = none := by
    unfold solidityPragmaOf
    split
    · rename_i heq
      simp only [T.node.injEq, List.cons.injEq, true_and] at heq
      obtain ⟨_, rfl, _⟩ := heq
      simp [h]
    · rfl
  simp [this]

/-- non-vacuity: `pragma abicoder v2;` placed before `pragma solidity 0.8.4;` does not change the version -/
example :
    let lit (s : String) := T.node .S_StringLiteral [Loc.toT ⟨0, 0, 0⟩, .bool false, .str s]
    let idn (s : String) := T.node .S_Identifier [Loc.toT ⟨0, 0, 0⟩, .str s]
    let pr (i v : String) := T.node .SourceUnitPart_PragmaDirective [Loc.toT ⟨0, 0, 0⟩, idn i, lit v]
    versionOf (mkSourceUnit [pr "abicoder" "v2", pr "solidity" "0.8.4"]) = some (0, 8, 4) := by
  decide

end Solstat
