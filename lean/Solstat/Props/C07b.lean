import Solstat.Props.C07
/-! # C07, unprotected_selfdestruct: the MUST half as the property words it

The property states the MUST half through *mentions* of `msg.sender` ("mentions msg.sender only inside the call's
own arguments or as the operand of a type conversion").  `nonExempt` (Spec/C07) is that condition, occurrence by
occurrence, as a structural recursion over the body.  Here: a body with a sender-check call (the detector's
protection test) has a non-exempt mention — hence a function all of whose mentions are exempt has no
sender-check call and its selfdestruct calls are reported (`unprotectedSelfdestruct_must`). -/
namespace Solstat
open Solstat.Gen T View

theorem nonExemptL_of_mem {i cv : Bool} {a : T} : ∀ {ks : List T}, a ∈ ks → nonExempt i cv a = true → nonExemptL i cv ks = true
  | k :: ks, h, ha => by
    simp only [nonExemptL, Bool.or_eq_true]
    rcases List.mem_cons.1 h with rfl | h
    · exact Or.inl ha
    · exact Or.inr (nonExemptL_of_mem h ha)

theorem mem_subtreesNoAsmL {ks : List T} {n : T} (h : n ∈ subtreesNoAsmL ks) : ∃ k ∈ ks, n ∈ subtreesNoAsm k := by
  induction ks with
  | nil => simp [subtreesNoAsmL] at h
  | cons x xs ih =>
    simp only [subtreesNoAsmL, List.mem_append] at h
    rcases h with h | h
    · exact ⟨x, List.mem_cons_self, h⟩
    · obtain ⟨k, hk, hn⟩ := ih h
      exact ⟨k, List.mem_cons_of_mem _ hk, hn⟩

theorem nonExempt_msgSender (t : T) (h : isMsgSenderExpr t = true) : nonExempt false false t = true := by
  cases t with
  | node tag ks => unfold nonExempt; simp [h]
  | _ => simp [isMsgSenderExpr, memberAccess] at h

theorem nonExempt_senderArg (a : T) (h : isSenderArg a = true) : nonExempt false false a = true := by
  unfold isSenderArg at h
  simp only [Bool.or_eq_true] at h
  rcases h with h | h
  · exact nonExempt_msgSender a h
  · split at h
    · rename_i tag loc l r hb
      have : a = .node tag [loc, l, r] := by
        unfold binary at hb
        split at hb
        · simp only [Option.some.injEq, Prod.mk.injEq] at hb
          obtain ⟨rfl, rfl, rfl, rfl⟩ := hb; rfl
        · simp at hb
      subst this
      simp only [Bool.and_eq_true, Bool.or_eq_true, decide_eq_true_eq] at h
      obtain ⟨ht, hlr⟩ := h
      have hsub : nonExemptL false false [loc, l, r] = true := by
        rcases hlr with hl | hr
        · exact nonExemptL_of_mem (a := l) (by simp) (nonExempt_msgSender l hl)
        · exact nonExemptL_of_mem (a := r) (by simp) (nonExempt_msgSender r hr)
      rcases ht with rfl | rfl <;> (unfold nonExempt; simp [hsub])
    · simp at h

theorem isNode_call {c l callee args : T} (h : call c = some (l, callee, args)) : c.isNode = true := by
  have := call_inv h; subst this
  show isNodeTag .Expression_FunctionCall = true
  decide

theorem vec_of_mem_vecItems {a args : T} (ha : a ∈ vecItems args) : args = .node .Vec (vecItems args) := by
  unfold vecItems at ha ⊢
  split at ha
  · rfl
  · simp at ha

theorem checkCall_shape {body c : T} (hc : isSenderCheckCall body c = true) :
    ∃ l callee items a, c = .node .Expression_FunctionCall [l, callee, .node .Vec items] ∧
      isSelfdestructName callee = false ∧ (callee.tag? == some Tag.Expression_Type) = false ∧
      insideSelfdestructArgs body c = false ∧ a ∈ items ∧ isSenderArg a = true := by
  unfold isSenderCheckCall at hc
  cases hcall : call c with
  | none => simp [hcall] at hc
  | some x =>
    obtain ⟨l0, callee0, args0⟩ := x
    simp only [hcall, Bool.and_eq_true, Bool.not_eq_true', bne_iff_ne, ne_eq, List.any_eq_true] at hc
    obtain ⟨⟨⟨hnsd, hnty⟩, hnin⟩, a, ha, hsa⟩ := hc
    have hv := vec_of_mem_vecItems ha
    refine ⟨l0, callee0, vecItems args0, a, ?_, hnsd, by simpa using hnty, hnin, ha, hsa⟩
    rw [← hv]; exact call_inv hcall

/-- the core: below any sub-term `t` of the body that contains a sender-check call `c`, some mention of
`msg.sender` is not exempt — provided the `inSd` flag is only raised where the value-based exemption of the
detector (`insideSelfdestructArgs`) agrees -/
theorem nonExempt_of_check (body c : T) (hc : isSenderCheckCall body c = true) :
    ∀ (n : Nat) (t : T) (inSd conv : Bool), sizeOf t ≤ n → t ∈ subtreesNoAsm body →
      (inSd = true → ∀ x ∈ allNodes t, insideSelfdestructArgs body x = true) →
      c ∈ subtreesNoAsm t → nonExempt inSd conv t = true := by
  obtain ⟨l0, callee0, items0, a, hcshape, hnsd, hnty, hnin, ha, hsa⟩ := checkCall_shape hc
  have hcnode : c.isNode = true := by rw [hcshape]; show isNodeTag .Expression_FunctionCall = true; decide
  intro n
  induction n with
  | zero => intro t _ _ ht; cases t <;> simp at ht <;> omega
  | succ n ih =>
    intro t inSd conv ht htb hinv hct
    cases t with
    | node tag ks =>
      simp only [subtreesNoAsm, List.mem_cons] at hct
      rcases hct with hEq | hsub
      · -- `c` is `t` itself
        have hin : inSd = false := by
          cases inSd with
          | false => rfl
          | true =>
            have := hinv rfl c (by rw [mem_allNodes, ← hEq]; exact ⟨self_mem_subtreesNoAsm _, hcnode⟩)
            rw [this] at hnin; cases hnin
        subst hin
        rw [← hEq, hcshape]
        unfold nonExempt
        have h2 : nonExemptL (isSelfdestructName callee0) (callee0.tag? == some .Expression_Type) items0 = true := by
          rw [hnsd, hnty]
          exact nonExemptL_of_mem ha (nonExempt_senderArg a hsa)
        simp [h2]
      · -- `c` lies below a kid of `t`
        by_cases hasm : tag = .Statement_Assembly
        · simp [hasm] at hsub
        · simp only [hasm, if_false] at hsub
          obtain ⟨k, hk, hck⟩ := mem_subtreesNoAsmL hsub
          have hksz : sizeOf k ≤ n := by
            have := List.sizeOf_lt_of_mem hk
            simp at ht; omega
          have hkt : k ∈ subtreesNoAsm (.node tag ks) := kid_mem_subtreesNoAsm hasm hk
          have hkb : k ∈ subtreesNoAsm body := subtreesNoAsm_trans _ _ _ htb hkt
          have hkinv : inSd = true → ∀ x ∈ allNodes k, insideSelfdestructArgs body x = true :=
            fun hi x hx => hinv hi x (allNodes_trans hkt hx)
          unfold nonExempt
          simp only [hasm, if_false, Bool.or_eq_true]
          right
          split
          · -- a call with its argument vector
            rename_i l callee items
            simp only [List.mem_cons, List.not_mem_nil, or_false] at hk
            rcases hk with rfl | rfl | rfl
            · simp [ih _ inSd false hksz hkb hkinv hck]
            · simp [ih _ inSd false hksz hkb hkinv hck]
            · -- below the arguments
              simp only [subtreesNoAsm, List.mem_cons] at hck
              rcases hck with hE | hck
              · rw [hcshape] at hE; cases hE
              · simp only [show (Tag.Vec = Tag.Statement_Assembly) = False from by decide, if_false] at hck
                obtain ⟨it, hit, hcit⟩ := mem_subtreesNoAsmL hck
                have hitk : it ∈ subtreesNoAsm (T.node .Vec items) := kid_mem_subtreesNoAsm (by decide) hit
                have hitsz : sizeOf it ≤ n := by
                  have := List.sizeOf_lt_of_mem hit
                  simp at hksz; omega
                have hitb : it ∈ subtreesNoAsm body := subtreesNoAsm_trans _ _ _ hkb hitk
                have hitinv : (inSd || isSelfdestructName callee) = true →
                    ∀ x ∈ allNodes it, insideSelfdestructArgs body x = true := by
                  intro hflag x hx
                  cases hi : inSd with
                  | true => exact hkinv hi x (allNodes_trans hitk hx)
                  | false =>
                    rw [hi] at hflag
                    simp only [Bool.false_or] at hflag
                    unfold insideSelfdestructArgs
                    rw [List.any_eq_true]
                    refine ⟨.node .Expression_FunctionCall [l, callee, .node .Vec items], ?_, ?_⟩
                    · rw [mem_allNodes]; exact ⟨htb, by show isNodeTag .Expression_FunctionCall = true; decide⟩
                    · simp only [call, hflag, Bool.true_and, vecItems, List.any_eq_true]
                      exact ⟨it, hit, by simpa using hx⟩
                have := ih it (inSd || isSelfdestructName callee) (callee.tag? == some .Expression_Type) hitsz hitb hitinv hcit
                simp [nonExemptL_of_mem hit this]
          · exact nonExemptL_of_mem hk (ih _ inSd false hksz hkb hkinv hck)
    | str _ => simp [subtreesNoAsm] at hct; rw [hcshape] at hct; cases hct
    | nat _ => simp [subtreesNoAsm] at hct; rw [hcshape] at hct; cases hct
    | bool _ => simp [subtreesNoAsm] at hct; rw [hcshape] at hct; cases hct

/-- a body all of whose `msg.sender` mentions are exempt contains no sender-check call -/
theorem no_check_of_all_exempt (body : T) (h : mentionsOnlyExempt body = true) : hasSenderCheckCall body = false := by
  cases hh : hasSenderCheckCall body with
  | false => rfl
  | true =>
    unfold hasSenderCheckCall at hh
    rw [List.any_eq_true] at hh
    obtain ⟨c, hcb, hc⟩ := hh
    have := nonExempt_of_check body c hc (sizeOf body) body false false (Nat.le_refl _) (self_mem_subtreesNoAsm _)
      (by intro h; cases h) ((mem_allNodes.1 hcb).1)
    simp [mentionsOnlyExempt, this] at h

/-- **C07, MUST half of unprotected_selfdestruct, as the property words it**: a selfdestruct/suicide call in
the body of a contract-level function that is not a constructor, is public or external, has no `only…`
modifier, and mentions `msg.sender` only inside selfdestruct arguments or as the operand of a type conversion,
is reported. -/
theorem unprotectedSelfdestruct_must (f g body c : T) (fields : List T) (l : Loc)
    (hs : SelfdestructSite f g body c fields)
    (h1 : isConstructor fields = false) (h2 : isPublicOrExternal fields = true) (h3 : hasOnlyModifier fields = false)
    (h4 : mentionsOnlyExempt body = true) (hl : View.loc c = some l) :
    l ∈ unprotectedSelfdestruct f :=
  unprotectedSelfdestruct_must_partial f g body c fields l hs ⟨h1, h2, h3, no_check_of_all_exempt body h4⟩ hl

/-- the oracle's `mustReport` is the hypothesis of the theorem -/
theorem mustReport_iff (fields : List T) (body : T) :
    mustReport fields body = true ↔
      isConstructor fields = false ∧ isPublicOrExternal fields = true ∧ hasOnlyModifier fields = false ∧
        mentionsOnlyExempt body = true := by
  simp [mustReport, and_assoc]

/-! non-vacuity: `selfdestruct(payable(msg.sender))` mentions `msg.sender` and every mention is exempt;
`require(msg.sender == owner)` has a non-exempt one -/
section
private def lc (a b : Nat) : T := Loc.toT ⟨0, a, b⟩
private def msgSender (a : Nat) : T :=
  .node .Expression_MemberAccess [lc a (a+10), .node .Expression_Variable [.node .S_Identifier [lc a (a+3), .str "msg"]],
    .node .S_Identifier [lc (a+4) (a+10), .str "sender"]]
private def var (a : Nat) (s : String) : T := .node .Expression_Variable [.node .S_Identifier [lc a (a+1), .str s]]
private def callOf (a : Nat) (callee : T) (args : List T) : T := .node .Expression_FunctionCall [lc a (a+1), callee, .node .Vec args]
private def payableTy : T := .node .Expression_Type [lc 0 1, .node .Type_Payable []]

example : isMsgSenderExpr (msgSender 5) = true := by decide
example : mentionsOnlyExempt (callOf 1 (var 1 "selfdestruct") [callOf 2 payableTy [msgSender 5]]) = true := by decide
example : mentionsOnlyExempt (callOf 1 (var 1 "f") [callOf 2 payableTy [msgSender 5]]) = true := by decide
example : mentionsOnlyExempt (callOf 1 (var 1 "require") [.node .Expression_Equal [lc 0 1, msgSender 5, var 9 "o"]]) = false := by decide
example : mentionsOnlyExempt (callOf 1 (var 1 "f") [callOf 2 payableTy [callOf 3 (var 3 "g") [msgSender 5]]]) = false := by decide
end

end Solstat
