import Solstat.Tree
/-!
# Wire format: Rust `Debug` text of a parse tree → generic tree

The harness prints `format!("{:?}", x)` (derived `Debug`, complete by construction).  This file
parses that syntax generically and resolves names to qualified tags by descending the generated
schema from the expected type.  An unknown name or a wrong arity is a hard error, never a default.
Not part of the verified model: it is correspondence-check plumbing.
-/
namespace Solstat
open Solstat.Gen

/-- generic Rust-Debug tree -/
inductive D
  | app (name : String) (args : List D)
  | recd (name : String) (fields : List (String × D))
  | list (xs : List D)
  | tuple (xs : List D)
  | str (s : String)
  | num (n : Nat)
deriving Repr, Inhabited

structure P where
  s : Array Char
  i : Nat

namespace P
def peek (p : P) : Option Char := p.s[p.i]?
def adv (p : P) : P := { p with i := p.i + 1 }
partial def skipWs (p : P) : P :=
  match p.peek with
  | some ' ' | some ',' => skipWs p.adv
  | _ => p
end P

def isIdStart (c : Char) : Bool := c.isAlpha || c == '_'
def isIdChar (c : Char) : Bool := c.isAlphanum || c == '_'

partial def parseIdent (p : P) (acc : String) : String × P :=
  match p.peek with
  | some c => if isIdChar c then parseIdent p.adv (acc.push c) else (acc, p)
  | none => (acc, p)

partial def parseNum (p : P) (acc : Nat) : Nat × P :=
  match p.peek with
  | some c => if c.isDigit then parseNum p.adv (acc * 10 + (c.toNat - 48)) else (acc, p)
  | none => (acc, p)

def hexVal (c : Char) : Nat :=
  if c.isDigit then c.toNat - 48
  else if 'a' ≤ c && c ≤ 'f' then c.toNat - 87
  else if 'A' ≤ c && c ≤ 'F' then c.toNat - 55 else 0

partial def parseHexBraced (p : P) (acc : Nat) : Nat × P :=
  match p.peek with
  | some '}' => (acc, p.adv)
  | some c => parseHexBraced p.adv (acc * 16 + hexVal c)
  | none => (acc, p)

partial def parseStr (p : P) (acc : String) : Except String (String × P) :=
  match p.peek with
  | none => .error "eof in string"
  | some '"' => .ok (acc, p.adv)
  | some '\\' =>
    match p.adv.peek with
    | some 'n' => parseStr p.adv.adv (acc.push '\n')
    | some 'r' => parseStr p.adv.adv (acc.push '\r')
    | some 't' => parseStr p.adv.adv (acc.push '\t')
    | some '0' => parseStr p.adv.adv (acc.push (Char.ofNat 0))
    | some '\\' => parseStr p.adv.adv (acc.push '\\')
    | some '"' => parseStr p.adv.adv (acc.push '"')
    | some '\'' => parseStr p.adv.adv (acc.push '\'')
    | some 'u' =>
      let (v, p') := parseHexBraced p.adv.adv.adv 0
      parseStr p' (acc.push (Char.ofNat v))
    | _ => .error "bad escape"
  | some c => parseStr p.adv (acc.push c)

mutual
partial def parseD (p : P) : Except String (D × P) := do
  let p := p.skipWs
  match p.peek with
  | none => .error "eof"
  | some '"' => let (s, p) ← parseStr p.adv ""; pure (.str s, p)
  | some '[' => let (xs, p) ← parseSeq p.adv ']' []; pure (.list xs, p)
  | some '(' => let (xs, p) ← parseSeq p.adv ')' []; pure (.tuple xs, p)
  | some c =>
    if c.isDigit then let (n, p) := parseNum p 0; pure (.num n, p)
    else if isIdStart c then
      let (name, p) := parseIdent p ""
      match p.peek with
      | some '(' => let (xs, p) ← parseSeq p.adv ')' []; pure (.app name xs, p)
      | some ' ' =>
        match p.adv.peek with
        | some '{' => let (fs, p) ← parseFields p.adv.adv []; pure (.recd name fs, p)
        | _ => pure (.app name [], p)
      | _ => pure (.app name [], p)
    else .error s!"unexpected char {c} at {p.i}"
partial def parseSeq (p : P) (close : Char) (acc : List D) : Except String (List D × P) := do
  let p := p.skipWs
  match p.peek with
  | none => .error "eof in seq"
  | some c =>
    if c == close then pure (acc.reverse, p.adv)
    else let (d, p) ← parseD p; parseSeq p close (d :: acc)
partial def parseFields (p : P) (acc : List (String × D)) : Except String (List (String × D) × P) := do
  let p := p.skipWs
  match p.peek with
  | none => .error "eof in fields"
  | some '}' => pure (acc.reverse, p.adv)
  | some _ =>
    let (name, p) := parseIdent p ""
    let p := p.skipWs
    match p.peek with
    | some ':' => let (d, p) ← parseD p.adv; parseFields p ((name, d) :: acc)
    | _ => .error s!"expected ':' after field {name} at {p.i}"
end

def parseDebug (s : String) : Except String D := do
  let (d, _) ← parseD ⟨s.toList.toArray, 0⟩
  pure d

/-- schema-directed decode -/
partial def decode (ty : Ty) (d : D) : Except String T :=
  match ty, d with
  | .str, .str s => pure (.str s)
  | .num, .num n => pure (.nat n)
  | .bool, .app "true" [] => pure (.bool true)
  | .bool, .app "false" [] => pure (.bool false)
  | .vec e, .list xs => do pure (.node .Vec (← xs.mapM (decode e)))
  | .opt _, .app "None" [] => pure (.node .None [])
  | .opt e, .app "Some" [x] => do pure (.node .Some [← decode e x])
  | .tuple es, .tuple xs =>
    if es.length != xs.length then .error "tuple arity" else do
      pure (.node .Tuple (← (es.zip xs).mapM (fun (e, x) => decode e x)))
  | .named n, d =>
    match structFields n, d with
    | some (tag, ftys), .recd name fs =>
      if name != n then .error s!"struct name {name} ≠ {n}"
      else if ftys.length != fs.length then .error s!"struct arity {n}" else do
        pure (.node tag (← (ftys.zip fs).mapM (fun (t, (_, x)) => decode t x)))
    | some (tag, ftys), .app name xs =>
      if name != n then .error s!"struct name {name} ≠ {n}"
      else if ftys.length != xs.length then .error s!"tuple-struct arity {n}" else do
        pure (.node tag (← (ftys.zip xs).mapM (fun (t, x) => decode t x)))
    | _, _ =>
      match enumVariants n with
      | none => .error s!"unknown type {n}"
      | some vs =>
        let (vname, args) : String × List D := match d with
          | .app name xs => (name, xs)
          | .recd name fs => (name, fs.map (·.2))
          | _ => ("?", [])
        match vs.find? (fun (v, _, _) => v == vname) with
        | none => .error s!"unknown variant {vname} of {n}"
        | some (_, tag, ftys) =>
          if ftys.length != args.length then .error s!"variant arity {n}::{vname}" else do
            pure (.node tag (← (ftys.zip args).mapM (fun (t, x) => decode t x)))
  | _, _ => .error "shape mismatch"

/-- decode the `Debug` text of a value of the named `pt` type -/
def decodeAs (tyName : String) (text : String) : Except String T := do
  let d ← parseDebug text
  decode (.named tyName) d

/-! ## Schema conformance (`WF`): what the model assumes of the trees the parser produces -/

mutual
partial def conforms (ty : Ty) (t : T) : Bool :=
  match ty, t with
  | .str, .str _ => true
  | .num, .nat _ => true
  | .bool, .bool _ => true
  | .vec e, .node .Vec ks => ks.all (conforms e)
  | .opt _, .node .None [] => true
  | .opt e, .node .Some [k] => conforms e k
  | .tuple es, .node .Tuple ks => es.length == ks.length && (es.zip ks).all (fun (e, k) => conforms e k)
  | .named n, .node tag ks =>
    tagOwner tag == n &&
    match tagFields tag with
    | some ftys => ftys.length == ks.length && (ftys.zip ks).all (fun (e, k) => conforms e k)
    | none => false
  | _, _ => false
end

end Solstat
