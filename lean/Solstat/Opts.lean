import Solstat.Gen.Patterns
import Solstat.Gen.Docs
import Solstat.Dir
/-!
# Model of `src/opts.rs` (option resolution) and `src/main.rs`

clap and the TOML deserialiser are not modelled: `resolve` takes the parsed command line and the
parsed configuration file.  Pattern names are looked up after ASCII lower-casing (the model's domain
is ASCII names; Rust's `to_lowercase` is Unicode-aware).
-/
namespace Solstat
open Solstat.Gen

structure TomlCfg where
  path : Option String
  optimizations : List String
  vulnerabilities : List String
  qa : List String
deriving Repr

structure CliArgs where
  path : Option String
  /-- `--toml FILE` given and the file parsed into a configuration -/
  toml : Option TomlCfg
deriving Repr

structure Opts where
  path : String
  optimizations : List Optimization
  vulnerabilities : List Vulnerability
  qa : List QualityAssurance
deriving Repr

/-- `str_to_*`: look the lower-cased name up, panic otherwise -/
def strTo {P : Type} (table : List (String × P)) (s : String) : Except String P :=
  match table.find? (fun e => e.1 = asciiLower s) with
  | some e => .ok e.2
  | none => .error s!"Unrecgonized pattern: {asciiLower s}"

def mapNames {P : Type} (table : List (String × P)) : List String → Except String (List P)
  | [] => .ok []
  | n :: ns =>
    match strTo table n with
    | .ok p => (match mapNames table ns with | .ok ps => .ok (p :: ps) | .error e => .error e)
    | .error e => .error e

/-- `Opts::new()` after clap and TOML parsing: `Except` = the process exits with a non-zero status
before any analysis or report -/
def resolve (args : CliArgs) (contractsDirExists : Bool) : Except String Opts :=
  let pats : Except String (List Optimization × List Vulnerability × List QualityAssurance × Option String) :=
    match args.toml with
    | some t =>
      match mapNames optStrTable t.optimizations with
      | .error e => .error e
      | .ok os =>
        match mapNames vulnStrTable t.vulnerabilities with
        | .error e => .error e
        | .ok vs =>
          match mapNames qaStrTable t.qa with
          | .error e => .error e
          | .ok qs => .ok (os, vs, qs, t.path)
    | none => .ok (optDefaults, vulnDefaults, qaDefaults, none)
  match pats with
  | .error e => .error e
  | .ok (os, vs, qs, tomlPath) =>
    match args.path with
    | some p => .ok { path := p, optimizations := os, vulnerabilities := vs, qa := qs }
    | none =>
      match tomlPath with
      | some p => .ok { path := p, optimizations := os, vulnerabilities := vs, qa := qs }
      | none =>
        if contractsDirExists then .ok { path := "./contracts", optimizations := os, vulnerabilities := vs, qa := qs }
        else .error "no ./contracts directory"

end Solstat
