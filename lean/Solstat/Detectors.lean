import Solstat.Utils
/-!
# Models of the 30 detectors

One function per Rust detector, `SourceUnit tree → List Loc` (the `HashSet<Loc>` read as a list; the
driver compares sorted, de-duplicated `(start, end)` pairs and theorems speak about membership).
Each mirrors the control flow of its Rust source: same walker calls, same pattern nesting, same
insert/remove order where a `HashMap` is used (`assocInsert` / `assocRemove`, last insert wins).
Hand-written; tied to the code by the correspondence check on every run.
-/
namespace Solstat
open Solstat.Gen

/-! ## small matchers -/

def locOf? : T → Option Loc
  | .node _ (l :: _) => Loc.ofT l
  | _ => none

/-- `Expression::Type(_, Type::<tag>)` -/
def isTypeExpr (tag : Tag) : T → Bool
  | .node .Expression_Type [_, .node t _] => t = tag
  | _ => false

def isAnyTypeExpr : T → Bool
  | .node .Expression_Type _ => true
  | _ => false

def strStartsUnderscore (s : String) : Bool := s.toList.head? = some '_'

def isPrefixC : List Char → List Char → Bool
  | [], _ => true
  | _ :: _, [] => false
  | a :: as, b :: bs => a = b && isPrefixC as bs

/-- `haystack.contains(needle)` -/
def containsSub (needle : List Char) : List Char → Bool
  | [] => needle.isEmpty
  | c :: cs => isPrefixC needle (c :: cs) || containsSub needle cs

/-- `msg.sender` -/
def isMsgSender : T → Bool
  | .node .Expression_MemberAccess [_, obj, id] => varName obj = some "msg" && identName id = some "sender"
  | _ => false

def binOperands : T → Option (T × T)
  | .node _ [_, l, r] => some (l, r)
  | _ => none

/-! ## expression-level gas detectors (C05) -/

def addressBalanceAt : T → Option Loc
  | .node .Expression_MemberAccess [loc, .node .Expression_FunctionCall [_, callee, _], id] =>
    if isTypeExpr .Type_Address callee && identName id = some "balance" then Loc.ofT loc else none
  | _ => none

def addressBalance (su : T) : List Loc := (extract [.MemberAccess] su).filterMap addressBalanceAt

def checkAddressZero : T → Bool
  | .node .Expression_FunctionCall [_, callee, args] =>
    isTypeExpr .Type_Address callee &&
      match (vecItems args).head? with
      | some (.node .Expression_NumberLiteral [_, .str v, .str _]) => v = "0"
      | _ => false
  | _ => false

def addressZeroAt : T → Option Loc
  | .node .Expression_NotEqual [loc, l, r] => if checkAddressZero l || checkAddressZero r then Loc.ofT loc else none
  | .node .Expression_Equal [loc, l, r] => if checkAddressZero l || checkAddressZero r then Loc.ofT loc else none
  | _ => none

def addressZero (su : T) : List Loc := (extract [.Equal, .NotEqual] su).filterMap addressZeroAt

def isBoolLit : T → Bool
  | .node .Expression_BoolLiteral _ => true
  | _ => false

def boolEqualsBoolAt : T → Option Loc
  | .node .Expression_NotEqual [loc, l, r] => if isBoolLit l || isBoolLit r then Loc.ofT loc else none
  | .node .Expression_Equal [loc, l, r] => if isBoolLit l || isBoolLit r then Loc.ofT loc else none
  | _ => none

def boolEqualsBool (su : T) : List Loc := (extract [.Equal, .NotEqual] su).filterMap boolEqualsBoolAt

/-- `ident[numlit]` ↦ (ident, digits) -/
def subscriptOfVarLit : T → Option (String × String)
  | .node .Expression_ArraySubscript [_, base, .node .Some [.node .Expression_NumberLiteral [_, .str n, .str _]]] =>
    (varName base).map (fun a => (a, n))
  | _ => none

def isSubscript : T → Option T
  | .node .Expression_ArraySubscript [_, base, _] => some base
  | _ => none

def arithTags : List Tag :=
  [.Expression_Add, .Expression_Subtract, .Expression_Divide, .Expression_Multiply, .Expression_Modulo,
   .Expression_ShiftLeft, .Expression_ShiftRight, .Expression_BitwiseAnd, .Expression_BitwiseOr, .Expression_BitwiseXor]

def assignUpdateArrayAt : T → Option Loc
  | .node .Expression_Assign [loc, lhs, .node op [_, a, b]] =>
    match subscriptOfVarLit lhs with
    | some target =>
      if arithTags.contains op then
        match isSubscript a with
        | some baseA =>
          match varName baseA with
          | some _ => if subscriptOfVarLit a = some target then Loc.ofT loc else none
          | none => if subscriptOfVarLit b = some target then Loc.ofT loc else none
        | none => none
      else none
    | none => none
  | _ => none

def assignUpdateArray (su : T) : List Loc := (extract [.Assign] su).filterMap assignUpdateArrayAt

def lengthAccessAt : T → Option Loc
  | .node .Expression_MemberAccess [loc, _, id] => if identName id = some "length" then Loc.ofT loc else none
  | _ => none

/-- the condition expression of a `for` statement -/
def forCondition : T → Option T
  | .node .Statement_For [_, _, .node .Some [cond], _, _] => some cond
  | _ => none

def cacheArrayLengthAt (n : T) : List Loc :=
  match forCondition n with
  | some cond => (extract [.MemberAccess] cond).filterMap lengthAccessAt
  | none => []

def cacheArrayLength (su : T) : List Loc := (extract [.For] su).flatMap cacheArrayLengthAt

def incDecTargets : List Target := [.PreIncrement, .PreDecrement, .PostIncrement, .PostDecrement]

def incDecLocAt : T → Option Loc
  | .node .Expression_PreIncrement (loc :: _) => Loc.ofT loc
  | .node .Expression_PreDecrement (loc :: _) => Loc.ofT loc
  | .node .Expression_PostIncrement (loc :: _) => Loc.ofT loc
  | .node .Expression_PostDecrement (loc :: _) => Loc.ofT loc
  | _ => none

def incDecLocs (targets : List Target) (root : T) : List Loc := (extract targets root).filterMap incDecLocAt

/-- the statements of an `unchecked { .. }` block -/
def uncheckedStatements : T → List T
  | .node .Statement_Block [_, .bool true, stmts] => vecItems stmts
  | _ => []

def uncheckedPrefixLocs (su : T) : List Loc :=
  (extract [.Block] su).flatMap fun n => (uncheckedStatements n).flatMap (incDecLocs [.PreIncrement, .PreDecrement])

def incrementDecrement (su : T) : List Loc :=
  let unchecked := uncheckedPrefixLocs su
  (incDecLocs incDecTargets su).filter (fun l => !unchecked.contains l)

def multipleRequireAt : T → Option Loc
  | .node .Expression_FunctionCall [loc, callee, args] =>
    if varName callee = some "require" && (vecItems args).any (fun a => a.tag? = some .Expression_And)
    then Loc.ofT loc else none
  | _ => none

def multipleRequire (su : T) : List Loc := (extract [.FunctionCall] su).filterMap multipleRequireAt

def optimalComparisonAt : T → Option Loc
  | .node .Expression_MoreEqual (loc :: _) => Loc.ofT loc
  | .node .Expression_LessEqual (loc :: _) => Loc.ofT loc
  | _ => none

def optimalComparison (su : T) : List Loc := (extract [.MoreEqual, .LessEqual] su).filterMap optimalComparisonAt

/-- `n` is a power of two (`n ≥ 1`): halve while even, end at one -/
def isPow2Fuel : Nat → Nat → Bool
  | 0, _ => false
  | fuel + 1, n => if n = 1 then true else if n = 0 then false else if n % 2 = 0 then isPow2Fuel fuel (n / 2) else false

def isPow2 (n : Nat) : Bool := isPow2Fuel (n + 1) n

/-- a decimal literal without exponent whose value is a power of two -/
def isPow2Literal : T → Bool
  | .node .Expression_NumberLiteral [_, .str v, .str e] =>
    e.isEmpty && !v.isEmpty && v.toList.all isDigitC && isPow2 (digitsVal v.toList 0)
  | _ => false

def shiftMathAt : T → Option Loc
  | .node .Expression_Multiply [loc, l, r] => if isPow2Literal l || isPow2Literal r then Loc.ofT loc else none
  | .node .Expression_Divide [loc, l, r] => if isPow2Literal l || isPow2Literal r then Loc.ofT loc else none
  | _ => none

def shiftMath (su : T) : List Loc := (extract [.Multiply, .Divide] su).filterMap shiftMathAt

def keccakAt : T → Option Loc
  | .node .Expression_FunctionCall [_, .node .Expression_Variable [.node .S_Identifier [loc, .str name]], _] =>
    if name = "keccak256" then Loc.ofT loc else none
  | _ => none

def solidityKeccak256 (su : T) : List Loc := (extract [.FunctionCall] su).filterMap keccakAt

def solidityMathAt : T → Option Loc
  | .node .Expression_Add (loc :: _) => Loc.ofT loc
  | .node .Expression_Subtract (loc :: _) => Loc.ofT loc
  | .node .Expression_Multiply (loc :: _) => Loc.ofT loc
  | .node .Expression_Divide (loc :: _) => Loc.ofT loc
  | _ => none

def solidityMath (su : T) : List Loc := (extract [.Add, .Subtract, .Multiply, .Divide] su).filterMap solidityMathAt

/-! ## mutability (C08) -/

def writeTargets : List Target :=
  [.Assign, .PreIncrement, .PostIncrement, .PreDecrement, .PostDecrement, .AssignAdd, .AssignAnd, .AssignDivide,
   .AssignModulo, .AssignMultiply, .AssignOr, .AssignShiftLeft, .AssignShiftRight, .AssignSubtract, .AssignXor]

def writeTags : List Tag :=
  [.Expression_Assign, .Expression_PreIncrement, .Expression_PostIncrement, .Expression_PreDecrement,
   .Expression_PostDecrement, .Expression_AssignAdd, .Expression_AssignAnd, .Expression_AssignDivide,
   .Expression_AssignModulo, .Expression_AssignMultiply, .Expression_AssignOr, .Expression_AssignShiftLeft,
   .Expression_AssignShiftRight, .Expression_AssignSubtract, .Expression_AssignXor]

/-- the identifier a write node writes to directly, if its (first) operand is an identifier -/
def writtenName : T → Option String
  | .node tag (_ :: target :: _) => if writeTags.contains tag then varName target else none
  | _ => none

/-- names written directly anywhere below `root`, in walker order -/
def writtenNames (root : T) : List String := (extract writeTargets root).filterMap writtenName

def constantVariables (su : T) : List Loc :=
  let table := storageVarTable true false su
  let remaining := (writtenNames su).foldl assocRemove table
  remaining.filterMap (fun e => Loc.ofT e.2.2)

def sstoreAt (table : List (String × List T × T)) : T → Option Loc
  | .node .Expression_Assign [loc, lhs, _] =>
    match varName lhs with
    | some v => if assocHas table v then Loc.ofT loc else none
    | none => none
  | _ => none

def sstore (su : T) : List Loc := (extract [.Assign] su).filterMap (sstoreAt (storageVarTable true true su))

def isNonValueType : T → Bool
  | .node .Expression_StringLiteral _ => true
  | .node .Expression_FunctionCall [_, callee, _] =>
    match callee with
    | .node .Expression_MemberAccess [_, obj, _] =>
      match varName obj with
      | some n => n = "abi"
      | none => false
    | .node .Expression_Type [_, .node t _] => t = .Type_DynamicBytes
    | _ => false
  | _ => false

/-- the function definitions of a contract node that are contract parts: (part node, definition fields) -/
def contractFunctions (contractNode : T) : List (T × List T) :=
  (extract [.FunctionDefinition] contractNode).filterMap fun n =>
    match n with
    | .node .ContractPart_FunctionDefinition [.node .S_FunctionDefinition fields] => some (n, fields)
    | _ => none

def fnTy (fields : List T) : Option Tag := (fields[1]?).bind T.tag?
def fnName (fields : List T) : Option T := (fields[2]?).bind optItem
def fnParams (fields : List T) : List T := (fields[4]?).map vecItems |>.getD []
def fnAttrs (fields : List T) : List T := (fields[5]?).map vecItems |>.getD []
def fnBody (fields : List T) : Option T := (fields[8]?).bind optItem
def fnLoc (fields : List T) : Option Loc := (fields[0]?).bind Loc.ofT

def isConstructor (fields : List T) : Bool := fnTy fields = some .FunctionTy_Constructor

def contracts (su : T) : List T := extract [.ContractDefinition] su

/-- a plain assignment of a value-typed right-hand side to a state variable of the table: (name, type loc) -/
def ctorAssignEntry (table : List (String × List T × T)) : T → Option (String × T)
  | .node .Expression_Assign [_, lhs, rhs] =>
    if isNonValueType rhs then none
    else
      match varName lhs with
      | some v =>
        match assocGet table v with
        | some (_, loc) => some (v, loc)
        | none => none
      | none => none
  | _ => none

/-- the plain assignments found in the constructors of the contracts of the file, in walker order -/
def constructorAssigns (su : T) : List T :=
  (contracts su).flatMap fun c =>
    (contractFunctions c).flatMap fun (part, fields) =>
      if isConstructor fields then extract [.Assign] part else []

/-- variables assigned (plain `=`, value-typed right-hand side) inside a constructor: name ↦ type loc -/
def assignedInConstructor (su : T) (table : List (String × List T × T)) : List (String × T) :=
  ((constructorAssigns su).filterMap (ctorAssignEntry table)).foldl (fun acc e => assocInsert acc e.1 e.2) []

/-- names written directly in the non-constructor functions of the contracts of the file -/
def writtenOutsideConstructors (su : T) : List String :=
  (contracts su).flatMap fun c =>
    (contractFunctions c).flatMap fun (part, fields) =>
      if isConstructor fields then [] else writtenNames part

def immutableVariables (su : T) : List Loc :=
  let table := storageVarTable true true su
  let potential := assignedInConstructor su table
  ((writtenOutsideConstructors su).foldl assocRemove potential).filterMap (fun e => Loc.ofT e.2)

def assignTargets : List Target :=
  [.Assign, .AssignAdd, .AssignAnd, .AssignDivide, .AssignModulo, .AssignMultiply, .AssignOr, .AssignShiftLeft,
   .AssignShiftRight, .AssignSubtract, .AssignXor]

def assignTags : List Tag :=
  [.Expression_Assign, .Expression_AssignAdd, .Expression_AssignAnd, .Expression_AssignDivide, .Expression_AssignModulo,
   .Expression_AssignMultiply, .Expression_AssignOr, .Expression_AssignShiftLeft, .Expression_AssignShiftRight,
   .Expression_AssignSubtract, .Expression_AssignXor]

/-- strip array subscripts: `a[i][j]` ↦ `a` -/
def stripSubscripts : T → T
  | .node .Expression_ArraySubscript [l, base, i] =>
    -- structural: recurse on the base
    match base with
    | .node .Expression_ArraySubscript [l', base', i'] => stripSubscripts (.node .Expression_ArraySubscript [l', base', i'])
    | b => let _ := (l, i); b
  | t => t

/-- the parameter an assignment node writes to (directly or through any chain of subscripts) -/
def assignedBase : T → Option String
  | .node tag (_ :: target :: _) => if assignTags.contains tag then varName (stripSubscripts target) else none
  | _ => none

/-- named `memory` parameters: name ↦ loc of the `memory` keyword (last one wins on a repeated name) -/
def memoryArgs (fields : List T) : List (String × T) :=
  (fnParams fields).foldl (fun acc p =>
    match p with
    | .node .Tuple [_, .node .Some [.node .S_Parameter [_, _, .node .Some [.node .StorageLocation_Memory [loc]], .node .Some [id]]]] =>
      match identName id with
      | some n => assocInsert acc n loc
      | none => acc
    | _ => acc) []

/-- parameters (or anything else) assigned below `body`, directly or through subscripts -/
def assignedBases (body : T) : List String := (extract assignTargets body).filterMap assignedBase

def functionDefinitionFields : T → Option (List T)
  | .node .ContractPart_FunctionDefinition [.node .S_FunctionDefinition fields] => some fields
  | .node .SourceUnitPart_FunctionDefinition [.node .S_FunctionDefinition fields] => some fields
  | _ => none

def memoryToCalldata (su : T) : List Loc :=
  (extract [.FunctionDefinition] su).flatMap fun n =>
    match functionDefinitionFields n with
    | some fields =>
      if isConstructor fields then []
      else
        match fnBody fields with
        | some body =>
          ((assignedBases body).foldl assocRemove (memoryArgs fields)).filterMap (fun e => Loc.ofT e.2)
        | none => []
    | none => []

/-! ## declaration-level detectors (C06) and packing (C10) -/

def contractParts : T → List T
  | .node .SourceUnitPart_ContractDefinition [.node .S_ContractDefinition [_, _, _, _, parts]] => vecItems parts
  | _ => []

def contractLoc : T → Option Loc
  | .node .SourceUnitPart_ContractDefinition [.node .S_ContractDefinition (loc :: _)] => Loc.ofT loc
  | _ => none

def varDefFields : T → Option (List T)
  | .node .ContractPart_VariableDefinition [.node .S_VariableDefinition fields] => some fields
  | _ => none

def insertSorted (x : Nat) : List Nat → List Nat
  | [] => [x]
  | y :: ys => if x ≤ y then x :: y :: ys else y :: insertSorted x ys

def sortNat (xs : List Nat) : List Nat := xs.foldr insertSorted []

/-- the packing test both detectors use -/
def canPack (sizes : List Nat) : Bool := slotsUsed sizes > slotsUsed (sortNat sizes)

/-- size of a state-variable definition (none for other contract parts) -/
def varDefSize (p : T) : Option Nat :=
  match varDefFields p with
  | some (_ :: ty :: _) => some (typeSize ty)
  | _ => none

def packStorageVariables (su : T) : List Loc :=
  (contracts su).filterMap fun c =>
    let sizes := (contractParts c).filterMap varDefSize
    if canPack sizes then contractLoc c else none

def structFieldsOf : T → Option (Loc × List T)
  | .node .SourceUnitPart_StructDefinition [.node .S_StructDefinition [loc, _, fields]] => (Loc.ofT loc).map (·, vecItems fields)
  | .node .ContractPart_StructDefinition [.node .S_StructDefinition [loc, _, fields]] => (Loc.ofT loc).map (·, vecItems fields)
  | _ => none

/-- size of one struct member -/
def structFieldSize : T → Option Nat
  | .node .S_VariableDeclaration (_ :: ty :: _) => some (typeSize ty)
  | _ => none

def packStructVariables (su : T) : List Loc :=
  (extract [.StructDefinition] su).filterMap fun n =>
    match structFieldsOf n with
    | some (loc, fields) =>
      let sizes := fields.filterMap structFieldSize
      if canPack sizes then some loc else none
    | none => none

def fnVisibilities (fields : List T) : List Tag :=
  (fnAttrs fields).filterMap fun a =>
    match a with
    | .node .FunctionAttribute_Visibility [.node v _] => some v
    | _ => none

def isPublicOrExternal (fields : List T) : Bool :=
  (fnVisibilities fields).any (fun v => v = .Visibility_External || v = .Visibility_Public)

def isPayable (fields : List T) : Bool :=
  (fnAttrs fields).any fun a =>
    match a with
    | .node .FunctionAttribute_Mutability [.node .Mutability_Payable _] => true
    | _ => false

def payableFunction (su : T) : List Loc :=
  (contracts su).flatMap fun c =>
    (contractFunctions c).filterMap fun (_, fields) =>
      if (fnBody fields).isSome && isPublicOrExternal fields && !isPayable fields then fnLoc fields else none

def varAttrs (fields : List T) : List T := (fields[2]?).map vecItems |>.getD []
def varNameOf (fields : List T) : Option String := (fields[3]?).bind identName
def varLoc (fields : List T) : Option Loc := (fields[0]?).bind Loc.ofT

def varVisibilities (fields : List T) : List Tag :=
  (varAttrs fields).filterMap fun a =>
    match a with
    | .node .VariableAttribute_Visibility [.node v _] => some v
    | _ => none

def varIsConstant (fields : List T) : Bool := (varAttrs fields).any (fun a => a.tag? = some .VariableAttribute_Constant)

def privateConstant (su : T) : List Loc :=
  (contracts su).flatMap fun c =>
    (contractParts c).filterMap fun p =>
      match varDefFields p with
      | some fields =>
        if varIsConstant fields && !(varVisibilities fields).contains .Visibility_Private then varLoc fields else none
      | none => none

/-- the leading-underscore rule for one declared visibility -/
def underscoreMismatch (privateLike : Bool) (name : String) : Bool :=
  if privateLike then !strStartsUnderscore name else strStartsUnderscore name

def privateVarsLeadingUnderscore (su : T) : List Loc :=
  (contracts su).flatMap fun c =>
    (contractParts c).filterMap fun p =>
      match varDefFields p with
      | some fields =>
        if varIsConstant fields then none
        else
          match varNameOf fields with
          | some name =>
            if (varVisibilities fields).any (fun v => underscoreMismatch (v = .Visibility_Private || v = .Visibility_Internal) name)
            then varLoc fields else none
          | none => none
      | none => none

def privateFuncLeadingUnderscore (su : T) : List Loc :=
  (extract [.FunctionDefinition] su).filterMap fun n =>
    match n with
    | .node .ContractPart_FunctionDefinition [.node .S_FunctionDefinition fields] =>
      if fnTy fields = some .FunctionTy_Function then
        match fnName fields with
        | some (.node .S_Identifier [loc, .str name]) =>
          if (fnVisibilities fields).any (fun v => underscoreMismatch (!(v = .Visibility_Public || v = .Visibility_External)) name)
          then Loc.ofT loc else none
        | _ => none
      else none
    | _ => none

/-- scan the function definitions of one contract: a constructor after a plain function is reported -/
def constructorOrderScan : List (List T) → Bool → List Loc
  | [], _ => []
  | fields :: rest, seen =>
    if isConstructor fields then
      (if seen then (fnLoc fields).toList else []) ++ constructorOrderScan rest seen
    else if fnTy fields = some .FunctionTy_Modifier then constructorOrderScan rest seen
    else constructorOrderScan rest true

def constructorOrder (su : T) : List Loc :=
  (contracts su).flatMap fun c => constructorOrderScan ((contractFunctions c).map (·.2)) false

/-! ## version-gated detectors (C09) -/

def usingSafeMath (su : T) : Bool :=
  (extract [.Using] su).any fun n =>
    match n with
    | .node _ [.node .S_Using [_, .node .UsingList_Library [.node .S_IdentifierPath [_, ids]], _, _]] =>
      (vecItems ids).any (fun i => identName i = some "SafeMath")
    | _ => false

def safeMathCallAt : T → Option Loc
  | .node .Expression_FunctionCall [_, .node .Expression_MemberAccess [loc, _, id], _] =>
    match identName id with
    | some name => if name = "add" || name = "sub" || name = "mul" || name = "div" then Loc.ofT loc else none
    | none => none
  | _ => none

def safeMathCalls (su : T) : List Loc := (extract [.FunctionCall] su).filterMap safeMathCallAt

def safeMath (pre080 : Bool) (su : T) : List Loc :=
  match versionOf su with
  | none => []
  | some v =>
    let active := if pre080 then verLt v (0, 8, 0) else !verLt v (0, 8, 0)
    if active && usingSafeMath su then safeMathCalls su else []

/-- `require(..., "<string literal>")`: the pieces of the string literal that is the last argument -/
def requireStringPieces : T → Option (List T)
  | .node .Expression_FunctionCall [_, callee, args] =>
    if varName callee = some "require" then
      match (vecItems args).getLast? with
      | some (.node .Expression_StringLiteral [pieces]) => some (vecItems pieces)
      | _ => none
    else none
  | _ => none

def stringErrorAt (n : T) : Option Loc :=
  match requireStringPieces n with
  | some (.node .S_StringLiteral (loc :: _) :: _) => Loc.ofT loc
  | _ => none

def shortRevertAt (n : T) : Option Loc :=
  match requireStringPieces n with
  | some (.node .S_StringLiteral [loc, _, .str s] :: _) => if s.utf8ByteSize ≥ 32 then Loc.ofT loc else none
  | _ => none

def stringErrors (su : T) : List Loc :=
  match versionOf su with
  | none => []
  | some v =>
    if !verLt v (0, 8, 4) then
      (extract [.FunctionCall] su).filterMap stringErrorAt
    else []

def shortRevertString (su : T) : List Loc :=
  match versionOf su with
  | none => []
  | some v =>
    if verLt v (0, 8, 4) then
      (extract [.FunctionCall] su).filterMap shortRevertAt
    else []

/-! ## vulnerability detectors (C07) -/

def erc20At : T → Option Loc
  | .node .Expression_MemberAccess [loc, _, id] =>
    match identName id with
    | some name => if name = "transfer" || name = "transferFrom" || name = "approve" then Loc.ofT loc else none
    | none => none
  | _ => none

def unsafeErc20Operation (su : T) : List Loc := (extract [.MemberAccess] su).filterMap erc20At

def floatingPragmaAt : T → Option Loc
  | .node .SourceUnitPart_PragmaDirective [loc, _, .node .S_StringLiteral [_, _, .str v]] =>
    if v.toList.contains '^' then Loc.ofT loc else none
  | _ => none

def floatingPragma (su : T) : List Loc := (extract [.PragmaDirective] su).filterMap floatingPragmaAt

/-- follow left operands of `*` and the insides of parentheses down to a `/` -/
def reachesDivide : T → Bool
  | .node .Expression_Divide _ => true
  | .node .Expression_Multiply [_, l, _] => reachesDivide l
  | .node .Expression_Parenthesis [_, e] => reachesDivide e
  | _ => false

def chainTags : List Tag :=
  [.Expression_Divide, .Expression_Add, .Expression_Subtract, .Expression_Modulo, .Expression_BitwiseAnd,
   .Expression_BitwiseOr, .Expression_BitwiseXor, .Expression_ShiftLeft, .Expression_ShiftRight]

/-- follow left operands of `/ + - % & | ^ << >>` and the insides of parentheses down to a `*` -/
def reachesMultiply : T → Bool
  | .node tag [_, l, _] =>
    if tag = .Expression_Multiply then true
    else if chainTags.contains tag then reachesMultiply l else false
  | .node tag [_, e] =>
    if tag = .Expression_Multiply then true
    else if tag = .Expression_Parenthesis then reachesMultiply e else false
  | .node tag _ => tag = .Expression_Multiply
  | _ => false

def divideBeforeMultiplyAt : T → Option Loc
  | .node .Expression_Multiply [loc, l, _] => if reachesDivide l then Loc.ofT loc else none
  | .node .Expression_AssignDivide [loc, _, r] => if reachesMultiply r then Loc.ofT loc else none
  | _ => none

def divideBeforeMultiply (su : T) : List Loc := (extract [.Multiply, .AssignDivide] su).filterMap divideBeforeMultiplyAt

def isSelfdestructCallee (callee : T) : Bool :=
  varName callee = some "selfdestruct" || varName callee = some "suicide"

def hasOnlyModifier (fields : List T) : Bool :=
  (fnAttrs fields).any fun a =>
    match a with
    | .node .FunctionAttribute_BaseOrModifier [_, .node .S_Base [_, .node .S_IdentifierPath [_, ids], _]] =>
      (vecItems ids).any fun i =>
        match identName i with
        | some n => containsSub "only".toList n.toList
        | none => false
    | _ => false

def callParts : T → Option (T × List T)
  | .node .Expression_FunctionCall [_, callee, args] => some (callee, vecItems args)
  | _ => none

/-- a direct argument that is `msg.sender` or an `==`/`!=` with `msg.sender` on either side -/
def isSenderCheckArg : T → Bool
  | .node .Expression_Equal [_, l, r] => isMsgSender l || isMsgSender r
  | .node .Expression_NotEqual [_, l, r] => isMsgSender l || isMsgSender r
  | t => isMsgSender t

/-- `_contains_msg_sender_conditions` -/
def hasSenderCheck (body : T) : Bool :=
  let calls := extract [.FunctionCall] body
  let inSdArgs : List T := calls.flatMap fun c =>
    match callParts c with
    | some (callee, args) => if isSelfdestructCallee callee then args.flatMap (extract [.FunctionCall]) else []
    | none => []
  calls.any fun c =>
    !inSdArgs.contains c &&
    match callParts c with
    | some (callee, args) => !isAnyTypeExpr callee && !isSelfdestructCallee callee && args.any isSenderCheckArg
    | none => false

/-- a selfdestruct/suicide call in a function that is not protected -/
def selfdestructCallAt (protected_ : Bool) : T → Option Loc
  | .node .Expression_FunctionCall [loc, callee, _] =>
    if isSelfdestructCallee callee && !protected_ then Loc.ofT loc else none
  | _ => none

def unprotectedSelfdestruct (su : T) : List Loc :=
  (contracts su).flatMap fun c =>
    (contractFunctions c).flatMap fun (_, fields) =>
      match fnBody fields with
      | some body =>
        if isConstructor fields || !isPublicOrExternal fields then []
        else
          (extract [.FunctionCall] body).filterMap (selfdestructCallAt (hasOnlyModifier fields || hasSenderCheck body))
      | none => []

/-! ## dispatch by the Rust function name (the regenerated `*Dispatch` tables map variants to these names) -/

def detectorByName : String → Option (T → List Loc)
  | "address_balance_optimization" => some addressBalance
  | "address_zero_optimization" => some addressZero
  | "assign_update_array_optimization" => some assignUpdateArray
  | "bool_equals_bool_optimization" => some boolEqualsBool
  | "cache_array_length_optimization" => some cacheArrayLength
  | "constant_variable_optimization" => some constantVariables
  | "immutable_variables_optimization" => some immutableVariables
  | "increment_decrement_optimization" => some incrementDecrement
  | "memory_to_calldata_optimization" => some memoryToCalldata
  | "multiple_require_optimization" => some multipleRequire
  | "optimal_comparison_optimization" => some optimalComparison
  | "pack_storage_variables_optimization" => some packStorageVariables
  | "pack_struct_variables_optimization" => some packStructVariables
  | "payable_function_optimization" => some payableFunction
  | "private_constant_optimization" => some privateConstant
  | "safe_math_pre_080_optimization" => some (safeMath true)
  | "safe_math_post_080_optimization" => some (safeMath false)
  | "shift_math_optimization" => some shiftMath
  | "short_revert_string_optimization" => some shortRevertString
  | "solidity_keccak256_optimization" => some solidityKeccak256
  | "solidity_math_optimization" => some solidityMath
  | "sstore_optimization" => some sstore
  | "string_error_optimization" => some stringErrors
  | "divide_before_multiply_vulnerability" => some divideBeforeMultiply
  | "floating_pragma_vulnerability" => some floatingPragma
  | "unprotected_selfdestruct_vulnerability" => some unprotectedSelfdestruct
  | "unsafe_erc20_operation_vulnerability" => some unsafeErc20Operation
  | "constructor_order_qa" => some constructorOrder
  | "private_func_leading_underscore" => some privateFuncLeadingUnderscore
  | "private_vars_leading_underscore" => some privateVarsLeadingUnderscore
  | _ => none

def detectorNames : List String :=
  ["address_balance_optimization", "address_zero_optimization", "assign_update_array_optimization",
   "bool_equals_bool_optimization", "cache_array_length_optimization", "constant_variable_optimization",
   "immutable_variables_optimization", "increment_decrement_optimization", "memory_to_calldata_optimization",
   "multiple_require_optimization", "optimal_comparison_optimization", "pack_storage_variables_optimization",
   "pack_struct_variables_optimization", "payable_function_optimization", "private_constant_optimization",
   "safe_math_pre_080_optimization", "safe_math_post_080_optimization", "shift_math_optimization",
   "short_revert_string_optimization", "solidity_keccak256_optimization", "solidity_math_optimization",
   "sstore_optimization", "string_error_optimization", "divide_before_multiply_vulnerability",
   "floating_pragma_vulnerability", "unprotected_selfdestruct_vulnerability", "unsafe_erc20_operation_vulnerability",
   "constructor_order_qa", "private_func_leading_underscore", "private_vars_leading_underscore"]

end Solstat
