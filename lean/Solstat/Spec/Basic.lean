import Solstat.Utils
/-!
# Specifications, written independently of the model

These say what the properties say, in terms of `allNodes` and plain arithmetic; the theorems in
`Solstat/Props` relate the model to them, and the driver evaluates them on the implementation's
output to search for a failing input.
-/
namespace Solstat
open Solstat.Gen

/-- C01: the nodes of the requested kinds below `root`, in source order, outside assembly -/
def specExtract (targets : List Target) (root : T) : List T :=
  (T.allNodes root).filter (fun n => hasKind (fun tag => targets.contains (specKind tag)) n)

/-- C02: 1-based number of the line containing byte `off` -/
def specLine (bs : List UInt8) (off : Nat) : Nat := 1 + countLF (bs.take off)

/-- C10: Solidity's layout rule: (slot index, bits used in it) after placing the items in order -/
def layoutStep (st : Nat × Nat) (size : Nat) : Nat × Nat :=
  -- st = (index of the current slot, bits used in it)
  if st.2 + size ≤ 256 then (st.1, st.2 + size) else (st.1 + 1, size)

/-- slots occupied by a non-empty sequence of sizes in 1..256 under the layout rule: last slot index + 1 -/
def slotsOfLayout : List Nat → Nat
  | [] => 0
  | x :: xs => (xs.foldl layoutStep (0, x)).1 + 1

/-- C10: documented type sizes -/
def specTypeSize : T → Nat
  | .node .Expression_Type [_, .node .Type_Bool _] => 8
  | .node .Expression_Type [_, .node .Type_Address _] => 160
  | .node .Expression_Type [_, .node .Type_AddressPayable _] => 160
  | .node .Expression_Type [_, .node .Type_Int [.nat n]] => n
  | .node .Expression_Type [_, .node .Type_Uint [.nat n]] => n
  | .node .Expression_Type [_, .node .Type_Bytes [.nat n]] => 8 * n
  | _ => 256

end Solstat
