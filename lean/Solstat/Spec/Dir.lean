import Solstat.Dir
/-!
# C03 / C16 oracle: the expected result of a directory analysis, written with plain string functions
-/
namespace Solstat

/-- the property's own wording: ends in `.sol` and is not a Foundry test file (`.t.sol`, any letter case) -/
def eligibleSpec (name : String) : Bool := name.endsWith ".sol" && !(name.toLower.endsWith ".t.sol")

mutual
def eligibleContentsSpec : List Entry → List (String × Option (List UInt8))
  | [] => []
  | .file name c :: rest => (if eligibleSpec name then [(name, c)] else []) ++ eligibleContentsSpec rest
  | .dir _ sub :: rest => eligibleContentsSpec sub ++ eligibleContentsSpec rest
end

/-- per pattern: the (file, lines) pairs the union of the per-file results prescribes -/
def expectedDir (g : List UInt8 → String → List Nat) (ps : List String) (es : List Entry) (p : String) :
    Option (List (String × List Nat)) :=
  let files := eligibleContentsSpec es
  if files.any (fun x => x.2.isNone) then none
  else
    -- a pattern named k times in the selection is analysed k times: every file's result is listed k times
    let times := (ps.filter (· == p)).length
    some (files.flatMap fun (name, c) =>
      match c with
      | some bytes => let ls := g bytes p; if ls.isEmpty then [] else List.replicate times (name, ls)
      | none => [])

end Solstat
