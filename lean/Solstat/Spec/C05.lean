import Solstat.Spec.Views
/-!
# C05 — canonical (`C`), exact (`E`) and clearly-non-matching (`N`) forms of the eleven
expression-level gas detectors (DESIGN.md section 8.1).  `C ⊆ E`, `E ∩ N = ∅`.
The property: a line is reported if a `C` form begins on it; a reported line is the line of a
node that is not an `N` form.  Forms may depend on the file (`cache_array_length`,
`increment_decrement`): every predicate takes the file and the node.
-/
namespace Solstat
open Solstat.Gen View

structure NodeSpec where
  /-- canonical documented form (must be reported) -/
  canon : T → T → Bool
  /-- exact form the code reports -/
  exact : T → T → Bool
  /-- clearly non-matching (must never be reported) -/
  nonMatch : T → T → Bool
  /-- the node whose first byte determines the reported line -/
  reportLoc : T → Option Loc

/-- a call of the elementary type `address`: its argument vector -/
def addressConversionArgs (n : T) : Option T :=
  match call n with
  | some (_, callee, args) => if typeTag callee = some .Type_Address then some args else none
  | none => none

def specAddressBalance : NodeSpec where
  exact _ n := match memberAccess n with
    | some (_, obj, id) => identName id = some "balance" && (addressConversionArgs obj).isSome
    | none => false
  canon _ n := match memberAccess n with
    | some (_, obj, id) => identName id = some "balance" &&
        (match addressConversionArgs obj with | some args => (vecItems args).length = 1 | none => false)
    | none => false
  nonMatch _ n := match memberAccess n with
    | some (_, obj, id) => !(identName id = some "balance" && (addressConversionArgs obj).isSome)
    | none => true
  reportLoc := View.loc

/-- `address(0 ...)`: conversion whose first argument is a number literal with integer digits `0` -/
def isAddressZeroish (n : T) : Bool :=
  match addressConversionArgs n with
  | some args => (match (vecItems args).head? with
      | some a => (match numberLit a with | some (d, _) => d = "0" | none => false)
      | none => false)
  | none => false

/-- `address(0)` exactly: one argument, the literal `0` without exponent -/
def isAddressZeroCanon (n : T) : Bool :=
  match addressConversionArgs n with
  | some args => (match vecItems args with
      | [a] => numberLit a = some ("0", "")
      | _ => false)
  | none => false

/-- an `==` or `!=` one of whose operands satisfies `p` -/
def eqOrNeWith (p : T → Bool) (n : T) : Bool :=
  match binary n with
  | some (tag, _, l, r) => (tag = .Expression_Equal || tag = .Expression_NotEqual) && (p l || p r)
  | none => false

def specAddressZero : NodeSpec where
  exact _ n := eqOrNeWith isAddressZeroish n
  canon _ n := eqOrNeWith isAddressZeroCanon n
  nonMatch _ n := !eqOrNeWith isAddressZeroish n
  reportLoc := View.loc

def isBoolLiteral (n : T) : Bool := n.tag? = some .Expression_BoolLiteral

def specBoolEqualsBool : NodeSpec where
  exact _ n := eqOrNeWith isBoolLiteral n
  canon _ n := eqOrNeWith isBoolLiteral n
  nonMatch _ n := !eqOrNeWith isBoolLiteral n
  reportLoc := View.loc

def isRequireWithAnd (n : T) : Bool :=
  match call n with
  | some (_, callee, args) => varName callee = some "require" && (vecItems args).any (fun a => a.tag? = some .Expression_And)
  | none => false

def specMultipleRequire : NodeSpec where
  exact _ n := isRequireWithAnd n
  canon _ n := isRequireWithAnd n
  nonMatch _ n := !isRequireWithAnd n
  reportLoc := View.loc

def tagIn (tags : List Tag) (n : T) : Bool :=
  match n.tag? with
  | some t => tags.contains t
  | none => false

def specOptimalComparison : NodeSpec where
  exact _ n := tagIn [.Expression_MoreEqual, .Expression_LessEqual] n
  canon _ n := tagIn [.Expression_MoreEqual, .Expression_LessEqual] n
  nonMatch _ n := !tagIn [.Expression_MoreEqual, .Expression_LessEqual] n
  reportLoc := View.loc

def specSolidityMath : NodeSpec where
  exact _ n := tagIn [.Expression_Add, .Expression_Subtract, .Expression_Multiply, .Expression_Divide] n
  canon _ n := tagIn [.Expression_Add, .Expression_Subtract, .Expression_Multiply, .Expression_Divide] n
  nonMatch _ n := !tagIn [.Expression_Add, .Expression_Subtract, .Expression_Multiply, .Expression_Divide] n
  reportLoc := View.loc

/-- the identifier `keccak256` used as the callee of a call: its location is what is reported -/
def keccakCalleeLoc (n : T) : Option T :=
  match call n with
  | some (_, callee, _) =>
    (match varIdent callee with
     | some id => (match ident id with
        | some (l, name) => if name = "keccak256" then some l else none
        | none => none)
     | none => none)
  | none => none

def specSolidityKeccak256 : NodeSpec where
  exact _ n := (keccakCalleeLoc n).isSome
  canon _ n := (keccakCalleeLoc n).isSome
  nonMatch _ n := (keccakCalleeLoc n).isNone
  reportLoc n := (keccakCalleeLoc n).bind Loc.ofT

/-! ### shift_math -/

def allAsciiDigits (s : String) : Bool := !s.isEmpty && s.toList.all (fun c => '0' ≤ c && c ≤ '9')

/-- value of a string of ASCII digits -/
def decimalValue (s : String) : Nat := s.toList.foldl (fun acc c => acc * 10 + (c.toNat - 48)) 0

/-- `n = 2^k` for some `k` (theorem `isPowerOfTwo_iff`): the only candidate is `k = ⌊log₂ n⌋` -/
def isPowerOfTwo (n : Nat) : Bool := 2 ^ n.log2 = n

/-- a decimal literal without exponent whose value is a power of two -/
def isPow2LiteralSpec (n : T) : Bool :=
  match numberLit n with
  | some (d, e) => e.isEmpty && allAsciiDigits d && isPowerOfTwo (decimalValue d)
  | none => false

/-- an exponent string `-?\d+` or empty, as (negative?, magnitude) -/
def parseExponent (e : String) : Option (Bool × Nat) :=
  if e.isEmpty then some (false, 0)
  else
    let cs := e.toList
    let (neg, ds) := match cs with | '-' :: r => (true, r) | r => (false, r)
    if !ds.isEmpty && ds.all (fun c => '0' ≤ c && c ≤ '9') then some (neg, ds.foldl (fun acc c => acc * 10 + (c.toNat - 48)) 0) else none

/-- `digits × 10^exp` is a power of two -/
def literalValueIsPow2 (d e : String) : Option Bool :=
  if allAsciiDigits d then
    match parseExponent e with
    | some (false, x) => some (isPowerOfTwo (decimalValue d * 10 ^ x))
    | some (true, x) => some (decimalValue d % 10 ^ x = 0 && isPowerOfTwo (decimalValue d / 10 ^ x))
    | none => none
  else none

/-- a number-literal operand whose value is well defined and not a power of two -/
def clearlyNotPow2 (n : T) : Bool :=
  match numberLit n with
  | some (d, e) => literalValueIsPow2 d e = some false
  | none => true

def mulOrDivOperands (n : T) : Option (T × T) :=
  match binary n with
  | some (tag, _, l, r) => if tag = .Expression_Multiply || tag = .Expression_Divide then some (l, r) else none
  | none => none

def specShiftMath : NodeSpec where
  exact _ n := match mulOrDivOperands n with
    | some (l, r) => isPow2LiteralSpec l || isPow2LiteralSpec r
    | none => false
  canon _ n := match mulOrDivOperands n with
    | some (l, r) => isPow2LiteralSpec l || isPow2LiteralSpec r
    | none => false
  nonMatch _ n := match mulOrDivOperands n with
    | some (l, r) => clearlyNotPow2 l && clearlyNotPow2 r
    | none => true
  reportLoc := View.loc

/-! ### assign_update_array_value -/

/-- `ident[numlit]` ↦ (identifier, integer digits of the literal) -/
def subscriptVarLit (n : T) : Option (String × String) :=
  match subscript n with
  | some (_, base, idx) =>
    (match varName base, optItem idx with
     | some a, some i => (match numberLit i with | some (d, _) => some (a, d) | none => none)
     | _, _ => none)
  | none => none

def arithOps : List Tag :=
  [.Expression_Add, .Expression_Subtract, .Expression_Multiply, .Expression_Divide, .Expression_Modulo,
   .Expression_ShiftLeft, .Expression_ShiftRight, .Expression_BitwiseAnd, .Expression_BitwiseOr, .Expression_BitwiseXor]

/-- plain assignment `a[k] = x ⊕ y` with ⊕ one of the ten operators: (target, x, y) -/
def assignArith (n : T) : Option ((String × String) × T × T) :=
  match binary n with
  | some (tag, _, lhs, rhs) =>
    if tag = .Expression_Assign then
      (match subscriptVarLit lhs, binary rhs with
       | some t, some (op, _, x, y) => if arithOps.contains op then some (t, x, y) else none
       | _, _ => none)
    else none
  | none => none

def specAssignUpdateArray : NodeSpec where
  canon _ n := match assignArith n with
    | some (t, x, _) => subscriptVarLit x = some t
    | none => false
  exact _ n := match assignArith n with
    | some (t, x, y) =>
      (match subscript x with
       | some (_, base, _) => if (varName base).isSome then subscriptVarLit x = some t else subscriptVarLit y = some t
       | none => false)
    | none => false
  nonMatch _ n := match assignArith n with
    | some (t, x, y) => subscriptVarLit x ≠ some t && subscriptVarLit y ≠ some t
    | none => true
  reportLoc := View.loc


/-! ### cache_array_length -/

/-- the condition expression of a `for` statement -/
def forCond : T → Option T
  | .node .Statement_For [_, _, .node .Some [cond], _, _] => some cond
  | _ => none

/-- `n` occurs (at any depth, outside assembly) in the condition of a `for` statement of the file -/
def insideForCondition (f n : T) : Bool :=
  (T.allNodes f).any fun s =>
    match forCond s with
    | some c => (T.allNodes c).contains n
    | none => false

def isLengthAccess (n : T) : Bool :=
  match memberAccess n with
  | some (_, _, id) => identName id = some "length"
  | none => false

def specCacheArrayLength : NodeSpec where
  exact f n := isLengthAccess n && insideForCondition f n
  canon f n := isLengthAccess n && insideForCondition f n
  nonMatch f n := !(isLengthAccess n && insideForCondition f n)
  reportLoc := View.loc

/-! ### increment_decrement -/

def isPrefixIncDec (n : T) : Bool := tagIn [.Expression_PreIncrement, .Expression_PreDecrement] n
def isPostfixIncDec (n : T) : Bool := tagIn [.Expression_PostIncrement, .Expression_PostDecrement] n
def isIncDec (n : T) : Bool := isPrefixIncDec n || isPostfixIncDec n

/-- the statements of an `unchecked { .. }` block -/
def uncheckedBody : T → List T
  | .node .Statement_Block [_, .bool true, stmts] => vecItems stmts
  | _ => []

/-- `n` lies (at any depth, outside assembly) inside an `unchecked` block of the file -/
def underUnchecked (f n : T) : Bool :=
  (T.allNodes f).any fun b => (uncheckedBody b).any fun s => (T.allNodes s).contains n

def specIncrementDecrement : NodeSpec where
  exact f n := isIncDec n && !(isPrefixIncDec n && underUnchecked f n)
  canon f n := isIncDec n && !(isPrefixIncDec n && underUnchecked f n)
  nonMatch f n := !isIncDec n || (isPrefixIncDec n && underUnchecked f n)
  reportLoc := View.loc

/-- distinct increment/decrement nodes of a file carry distinct locations (true of every tree the
parser produces; evaluated on every input by the driver) -/
def IncDecLocsDistinct (f : T) : Prop :=
  ∀ m ∈ T.allNodes f, ∀ n ∈ T.allNodes f, isIncDec m = true → isIncDec n = true → View.loc m = View.loc n → m = n

def incDecLocsDistinct (f : T) : Bool :=
  let xs := (T.allNodes f).filter isIncDec
  xs.all fun m => xs.all fun n => View.loc m != View.loc n || m == n

end Solstat
