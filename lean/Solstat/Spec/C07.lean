import Solstat.Spec.C05
import Solstat.Detectors
/-!
# C07 — vulnerability detectors: specifications (DESIGN.md section 8.3)
-/
namespace Solstat
open Solstat.Gen View

/-! ## unsafe_erc20_operation, floating_pragma -/

def isErc20Member (n : T) : Bool :=
  match memberAccess n with
  | some (_, _, id) => identName id = some "transfer" || identName id = some "transferFrom" || identName id = some "approve"
  | none => false

def specUnsafeErc20 : NodeSpec where
  exact _ n := isErc20Member n
  canon _ n := isErc20Member n
  nonMatch _ n := !isErc20Member n
  reportLoc := View.loc

/-- pragma directive: (loc, identifier, value) -/
def pragmaValue : T → Option String
  | .node .SourceUnitPart_PragmaDirective [_, _, .node .S_StringLiteral [_, _, .str v]] => some v
  | _ => none

def isCaretPragma (n : T) : Bool :=
  match pragmaValue n with
  | some v => v.toList.contains '^'
  | none => false

def specFloatingPragma : NodeSpec where
  exact _ n := isCaretPragma n
  canon _ n := isCaretPragma n
  nonMatch _ n := !isCaretPragma n
  reportLoc := View.loc

/-! ## divide_before_multiply: operand chains as inductive relations -/

/-- `MulChain e d`: `d` is reached from `e` through left operands of `*` and insides of parentheses -/
inductive MulChain : T → T → Prop
  | refl (e : T) : MulChain e e
  | mul {loc l r d : T} : MulChain l d → MulChain (.node .Expression_Multiply [loc, l, r]) d
  | paren {loc e d : T} : MulChain e d → MulChain (.node .Expression_Parenthesis [loc, e]) d

def divChainOps : List Tag :=
  [.Expression_Divide, .Expression_Add, .Expression_Subtract, .Expression_Modulo, .Expression_BitwiseAnd,
   .Expression_BitwiseOr, .Expression_BitwiseXor, .Expression_ShiftLeft, .Expression_ShiftRight]

/-- `ArithChain e d`: `d` is reached from `e` through left operands of `/ + - % & | ^ << >>` and insides of parentheses -/
inductive ArithChain : T → T → Prop
  | refl (e : T) : ArithChain e e
  | op {tag : Tag} {loc l r d : T} : tag ∈ divChainOps → ArithChain l d → ArithChain (.node tag [loc, l, r]) d
  | paren {loc e d : T} : ArithChain e d → ArithChain (.node .Expression_Parenthesis [loc, e]) d

def isDivideNode (n : T) : Prop := n.tag? = some .Expression_Divide
def isMultiplyNode (n : T) : Prop := n.tag? = some .Expression_Multiply

/-- the relation the property states: a `*` whose left operand chain contains a `/`, or a `/=` whose
right-hand chain contains a `*` -/
def DivideBeforeMultiply (n : T) : Prop :=
  (∃ loc l r d, n = .node .Expression_Multiply [loc, l, r] ∧ MulChain l d ∧ isDivideNode d) ∨
  (∃ loc x r y, n = .node .Expression_AssignDivide [loc, x, r] ∧ ArithChain r y ∧ isMultiplyNode y)

/-- executable form for the oracle: the spine of left operands, as a list -/
def leftSpine (ops : List Tag) : T → List T
  | .node tag [loc, l, r] => .node tag [loc, l, r] :: (if ops.contains tag then leftSpine ops l else [])
  | .node .Expression_Parenthesis [loc, e] => .node .Expression_Parenthesis [loc, e] :: leftSpine ops e
  | t => [t]

def dbmOracle (n : T) : Bool :=
  match binary n with
  | some (tag, _, l, r) =>
    (tag = .Expression_Multiply && (leftSpine [.Expression_Multiply] l).any (fun d => d.tag? = some .Expression_Divide)) ||
    (tag = .Expression_AssignDivide && (leftSpine divChainOps r).any (fun d => d.tag? = some .Expression_Multiply))
  | none => false

/-! ## unprotected_selfdestruct -/

def isSelfdestructName (callee : T) : Bool := varName callee = some "selfdestruct" || varName callee = some "suicide"

def isSelfdestructCall (n : T) : Bool :=
  match call n with
  | some (_, callee, _) => isSelfdestructName callee
  | none => false

def isMsgSenderExpr (n : T) : Bool :=
  match memberAccess n with
  | some (_, obj, id) => varName obj = some "msg" && identName id = some "sender"
  | none => false

/-- calls nested (at any depth) in the arguments of a selfdestruct/suicide call of the body -/
def insideSelfdestructArgs (body n : T) : Bool :=
  (T.allNodes body).any fun c =>
    match call c with
    | some (_, callee, args) => isSelfdestructName callee && (vecItems args).any (fun a => (T.allNodes a).contains n)
    | none => false

/-- a direct argument that is `msg.sender` or an `==`/`!=` with `msg.sender` as either operand -/
def isSenderArg (a : T) : Bool :=
  isMsgSenderExpr a ||
    match binary a with
    | some (tag, _, l, r) => (tag = .Expression_Equal || tag = .Expression_NotEqual) && (isMsgSenderExpr l || isMsgSenderExpr r)
    | none => false

/-- *senderCheckCall*: a call in the body that is not a selfdestruct call, not a type conversion,
not inside the arguments of a selfdestruct call, and has a direct argument checking `msg.sender` -/
def isSenderCheckCall (body c : T) : Bool :=
  match call c with
  | some (_, callee, args) =>
    !isSelfdestructName callee && callee.tag? != some .Expression_Type &&
      !insideSelfdestructArgs body c && (vecItems args).any isSenderArg
  | none => false

def hasSenderCheckCall (body : T) : Bool := (T.allNodes body).any (isSenderCheckCall body)

/-- *senderMention* exemption: inside the argument list of a selfdestruct call, or a direct argument
of a call whose callee is a type -/
def mentionExempt (body m : T) : Bool :=
  (T.allNodes body).any fun c =>
    match call c with
    | some (_, callee, args) =>
      (isSelfdestructName callee && (vecItems args).any (fun a => (T.allNodes a).contains m)) ||
      (callee.tag? = some .Expression_Type && (vecItems args).contains m)
    | none => false

def allMentionsExempt (body : T) : Bool :=
  (T.allNodes body).all fun m => !isMsgSenderExpr m || mentionExempt body m


/-! Occurrence-based form of the same exemption, as a structural recursion: `inSd` — an ancestor is the argument
list of a selfdestruct/suicide call; `conv` — this term is a direct argument of a call whose callee is a type. -/
mutual
/-- some occurrence of `msg.sender` in `t` is not exempt -/
def nonExempt (inSd conv : Bool) : T → Bool
  | .node tag ks =>
    (isMsgSenderExpr (.node tag ks) && !inSd && !conv) ||
    (if tag = .Statement_Assembly then false else
      match tag, ks with
      | .Expression_FunctionCall, [l, callee, .node .Vec items] =>
        nonExempt inSd false l || nonExempt inSd false callee ||
          nonExemptL (inSd || isSelfdestructName callee) (callee.tag? == some .Expression_Type) items
      | _, ks => nonExemptL inSd false ks)
  | _ => false
def nonExemptL (inSd conv : Bool) : List T → Bool
  | [] => false
  | k :: ks => nonExempt inSd conv k || nonExemptL inSd conv ks
end

/-- every mention of `msg.sender` in the body is exempt (occurrence by occurrence) -/
def mentionsOnlyExempt (body : T) : Bool := !nonExempt false false body

/-- the fields of a contract-level function definition -/
def contractFunctionFields : T → Option (List T)
  | .node .ContractPart_FunctionDefinition [.node .S_FunctionDefinition fields] => some fields
  | _ => none

def isContractNode (c : T) : Bool := c.tag? = some .SourceUnitPart_ContractDefinition

/-- `c` is a selfdestruct/suicide call in the body `body` of the contract-level function `g`
(with definition fields `fields`) of some contract of the file `f` -/
structure SelfdestructSite (f g body c : T) (fields : List T) : Prop where
  inContract : ∃ k ∈ T.allNodes f, isContractNode k = true ∧ g ∈ T.allNodes k
  isFunction : contractFunctionFields g = some fields
  hasBody : fnBody fields = some body
  inBody : c ∈ T.allNodes body
  isCall : isSelfdestructCall c = true

/-- the function is one the detector must look at, and nothing protects it -/
def Unprotected (fields : List T) (body : T) : Prop :=
  isConstructor fields = false ∧ isPublicOrExternal fields = true ∧ hasOnlyModifier fields = false ∧
    hasSenderCheckCall body = false


/-! executable enumeration of the call sites, for the oracle -/

/-- (fields, body, call) of every selfdestruct/suicide call in a contract-level function with a body -/
def selfdestructSites (f : T) : List (List T × T × T) :=
  ((T.allNodes f).filter isContractNode).flatMap fun k =>
    (T.allNodes k).flatMap fun g =>
      match contractFunctionFields g with
      | some fields =>
        (match fnBody fields with
         | some body => ((T.allNodes body).filter isSelfdestructCall).map fun c => (fields, body, c)
         | none => [])
      | none => []

/-- MUST report (as the property words it): not a constructor, public or external, no `only`
modifier, and every mention of `msg.sender` exempt -/
def mustReport (fields : List T) (body : T) : Bool :=
  !isConstructor fields && isPublicOrExternal fields && !hasOnlyModifier fields && mentionsOnlyExempt body

def declaresInternalOrPrivate (fields : List T) : Bool :=
  (fnVisibilities fields).any (fun v => v = .Visibility_Internal || v = .Visibility_Private)

/-- MUST NOT report: constructor; internal/private and neither public nor external; `only` modifier;
a call that checks `msg.sender` -/
def mustNotReport (fields : List T) (body : T) : Bool :=
  isConstructor fields || (declaresInternalOrPrivate fields && !isPublicOrExternal fields) ||
    hasOnlyModifier fields || hasSenderCheckCall body

end Solstat
