import Solstat.Utils
/-!
# Views of parse-tree nodes used by the specifications

One-level shape destructors (strict about arity) returning the raw sub-terms, with their
inversion lemmas.  The specifications in `Solstat/Spec` compose these; the model in
`Solstat/Detectors.lean` uses nested pattern matches; the theorems in `Solstat/Props` connect the two.
Atom readers (`identName`, `varName`, `vecItems`, `optItem`) are shared with the model.
-/
namespace Solstat
open Solstat.Gen

namespace View

/-- the location carried as first field of a node -/
def loc : T → Option Loc
  | .node _ (l :: _) => Loc.ofT l
  | _ => none

/-- (loc, object, member identifier) -/
def memberAccess : T → Option (T × T × T)
  | .node .Expression_MemberAccess [l, obj, id] => some (l, obj, id)
  | _ => none

/-- (loc, callee, argument vector) -/
def call : T → Option (T × T × T)
  | .node .Expression_FunctionCall [l, callee, args] => some (l, callee, args)
  | _ => none

/-- the `Type` variant of an elementary type used as an expression -/
def typeTag : T → Option Tag
  | .node .Expression_Type [_, .node t _] => some t
  | _ => none

/-- number literal: (integer digits, exponent) -/
def numberLit : T → Option (String × String)
  | .node .Expression_NumberLiteral [_, .str d, .str e] => some (d, e)
  | _ => none

/-- a node with a location and two operand fields: (tag, loc, left, right) -/
def binary : T → Option (Tag × T × T × T)
  | .node tag [loc, l, r] => some (tag, loc, l, r)
  | _ => none

/-- array subscript: (loc, base, optional index) -/
def subscript : T → Option (T × T × T)
  | .node .Expression_ArraySubscript [l, base, idx] => some (l, base, idx)
  | _ => none

/-- identifier: (loc, name) -/
def ident : T → Option (T × String)
  | .node .S_Identifier [l, .str s] => some (l, s)
  | _ => none

/-- the identifier of an identifier expression -/
def varIdent : T → Option T
  | .node .Expression_Variable [id] => some id
  | _ => none

theorem memberAccess_inv {n l obj id : T} (h : memberAccess n = some (l, obj, id)) :
    n = .node .Expression_MemberAccess [l, obj, id] := by
  unfold memberAccess at h; split at h <;> simp_all
theorem call_inv {n l c a : T} (h : call n = some (l, c, a)) : n = .node .Expression_FunctionCall [l, c, a] := by
  unfold call at h; split at h <;> simp_all
theorem typeTag_inv {n : T} {t : Tag} (h : typeTag n = some t) : ∃ l ks, n = .node .Expression_Type [l, .node t ks] := by
  unfold typeTag at h; split at h <;> simp_all
theorem numberLit_inv {n : T} {d e : String} (h : numberLit n = some (d, e)) :
    ∃ l, n = .node .Expression_NumberLiteral [l, .str d, .str e] := by
  unfold numberLit at h; split at h <;> simp_all
theorem binary_inv {n loc l r : T} {tag : Tag} (h : binary n = some (tag, loc, l, r)) : n = .node tag [loc, l, r] := by
  unfold binary at h; split at h <;> simp_all
theorem subscript_inv {n l b i : T} (h : subscript n = some (l, b, i)) : n = .node .Expression_ArraySubscript [l, b, i] := by
  unfold subscript at h; split at h <;> simp_all
theorem ident_inv {n l : T} {s : String} (h : ident n = some (l, s)) : n = .node .S_Identifier [l, .str s] := by
  unfold ident at h; split at h <;> simp_all
theorem varIdent_inv {n id : T} (h : varIdent n = some id) : n = .node .Expression_Variable [id] := by
  unfold varIdent at h; split at h <;> simp_all

end View

theorem identName_eq_some {id : T} {s : String} : identName id = some s ↔ ∃ l, View.ident id = some (l, s) := by
  constructor
  · intro h; unfold identName at h; split at h <;> simp_all [View.ident]
  · rintro ⟨l, h⟩; have := View.ident_inv h; subst this; simp [identName]

theorem varName_eq_some {n : T} {s : String} : varName n = some s ↔ ∃ id, View.varIdent n = some id ∧ identName id = some s := by
  constructor
  · intro h; unfold varName at h; split at h <;> simp_all [View.varIdent]
  · rintro ⟨id, h, hs⟩; have := View.varIdent_inv h; subst this; simp [varName, hs]

end Solstat
