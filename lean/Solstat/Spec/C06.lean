import Solstat.Spec.C07
/-!
# C06 — executable expected sets of the declaration-level detectors (the property states them as
"if and only if"), formulated over the *direct members* of each contract of the file.
Used by the driver as oracle on the implementation's output.
-/
namespace Solstat
open Solstat.Gen View

def contractNodes (f : T) : List T := (T.allNodes f).filter isContractNode

def directParts : T → List T
  | .node .SourceUnitPart_ContractDefinition [.node .S_ContractDefinition [_, _, _, _, parts]] => vecItems parts
  | _ => []

def directFunctions (k : T) : List (List T) := (directParts k).filterMap contractFunctionFields

def directVariables (k : T) : List (List T) := (directParts k).filterMap varDefFields

def expectedPayable (f : T) : List Loc :=
  (contractNodes f).flatMap fun k => (directFunctions k).filterMap fun fields =>
    if (fnBody fields).isSome && isPublicOrExternal fields && !isPayable fields then fnLoc fields else none

def expectedPrivateConstant (f : T) : List Loc :=
  (contractNodes f).flatMap fun k => (directVariables k).filterMap fun fields =>
    if varIsConstant fields && !(varVisibilities fields).contains .Visibility_Private then varLoc fields else none

def startsWithUnderscore (s : String) : Bool := s.toList.head? = some '_'

def expectedPrivateVars (f : T) : List Loc :=
  (contractNodes f).flatMap fun k => (directVariables k).filterMap fun fields =>
    match varNameOf fields with
    | some name =>
      let vis := varVisibilities fields
      let privateLike := vis.any (fun v => v = .Visibility_Private || v = .Visibility_Internal)
      let publicLike := vis.any (fun v => !(v = .Visibility_Private || v = .Visibility_Internal))
      if !varIsConstant fields && ((privateLike && !startsWithUnderscore name) || (publicLike && startsWithUnderscore name))
      then varLoc fields else none
    | none => none

def expectedPrivateFunc (f : T) : List Loc :=
  (contractNodes f).flatMap fun k => (directFunctions k).filterMap fun fields =>
    match fnName fields with
    | some (.node .S_Identifier [loc, .str name]) =>
      let vis := fnVisibilities fields
      let publicLike := vis.any (fun v => v = .Visibility_Public || v = .Visibility_External)
      let privateLike := vis.any (fun v => !(v = .Visibility_Public || v = .Visibility_External))
      if fnTy fields = some .FunctionTy_Function && ((publicLike && startsWithUnderscore name) || (privateLike && !startsWithUnderscore name))
      then Loc.ofT loc else none
    | _ => none

/-- constructors preceded, among the direct members of their contract, by a function that is neither
a modifier nor a constructor -/
def expectedConstructorOrder (f : T) : List Loc :=
  (contractNodes f).flatMap fun k =>
    let fs := directFunctions k
    (List.range fs.length).filterMap fun i =>
      match fs[i]? with
      | some c =>
        if isConstructor c && (fs.take i).any (fun p => !isConstructor p && fnTy p != some .FunctionTy_Modifier)
        then fnLoc c else none
      | none => none

end Solstat
