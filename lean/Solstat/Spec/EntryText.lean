import Solstat.Report
/-!
# Entry lines as text

`- <file>:<n>`: the file name is everything between the dash-space and the LAST colon, the line number the decimal
digits after it.  Character-list functions, so that the round trip with the renderer can be proved (the `String`
library functions `splitOn` / `toNat?` are not convenient to reason about).
-/
namespace Solstat

/-- split at the last `:` -/
def splitLastColon (cs : List Char) : Option (List Char × List Char) :=
  let r := cs.reverse
  match r.dropWhile (· ≠ ':') with
  | ':' :: pre => some (pre.reverse, (r.takeWhile (· ≠ ':')).reverse)
  | _ => none

/-- `- <file>:<digits>` ↦ (file, number) -/
def parseEntryChars (cs : List Char) : Option (List Char × Nat) :=
  match cs with
  | '-' :: ' ' :: body =>
    match splitLastColon body with
    | some (f, ds) => if !ds.isEmpty && ds.all Char.isDigit then some (f, Nat.ofDigitChars 10 ds 0) else none
    | none => none
  | _ => none

/-- one line of report text back to a structured line -/
def parseLine (s : String) : Line :=
  match parseEntryChars s.toList with
  | some (f, l) => .entry (String.ofList f) l
  | none => .text s

end Solstat
