import Solstat.Spec.C06
/-!
# C08 — executable oracles for the mutability detectors (DESIGN.md section 8.4), formulated over
the direct members of the contracts of the file and `allNodes`, independently of the model.
-/
namespace Solstat
open Solstat.Gen View

structure VarDecl where
  name : String
  attrs : List T
  ty : T
  deriving Inhabited

/-- contract-level variable definitions of the file -/
def stateVarDecls (f : T) : List VarDecl :=
  (contractNodes f).flatMap fun k => (directVariables k).filterMap fun fields =>
    match fields with
    | [_, ty, attrs, name, _] => (identName name).map fun n => { name := n, attrs := vecItems attrs, ty := ty }
    | _ => none

def VarDecl.isElementaryNonMapping (d : VarDecl) : Bool :=
  match typeTag d.ty with
  | some t => t != .Type_Mapping
  | none => false

def VarDecl.hasAttr (d : VarDecl) (t : Tag) : Bool := d.attrs.any (fun a => a.tag? = some t)

def VarDecl.typeLoc (d : VarDecl) : Option Loc := View.loc d.ty

/-- elementary value types (can be `immutable`) -/
def VarDecl.isValueTyped (d : VarDecl) : Bool :=
  match typeTag d.ty with
  | some t => [Tag.Type_Address, .Type_AddressPayable, .Type_Bool, .Type_Int, .Type_Uint, .Type_Bytes].contains t
  | none => false

def writeOps : List Tag :=
  [.Expression_Assign, .Expression_AssignOr, .Expression_AssignAnd, .Expression_AssignXor, .Expression_AssignShiftLeft,
   .Expression_AssignShiftRight, .Expression_AssignAdd, .Expression_AssignSubtract, .Expression_AssignMultiply,
   .Expression_AssignDivide, .Expression_AssignModulo, .Expression_PreIncrement, .Expression_PreDecrement,
   .Expression_PostIncrement, .Expression_PostDecrement]

def assignOps : List Tag := writeOps.take 11

/-- `n` writes directly to the identifier `name` -/
def isDirectWriteTo (name : String) (n : T) : Bool :=
  match n with
  | .node tag (_ :: target :: _) => writeOps.contains tag && varName target = some name
  | _ => false

def isPlainAssignTo (name : String) (n : T) : Bool :=
  match binary n with
  | some (tag, _, lhs, _) => tag = .Expression_Assign && varName lhs = some name
  | none => false

/-- names declared by parameters or local variable declarations anywhere in the file -/
def localNames (f : T) : List String :=
  (T.subtreesNoAsm f).filterMap fun t =>
    match t with
    | .node .S_Parameter [_, _, _, .node .Some [id]] => identName id
    | .node .S_VariableDeclaration [_, _, _, id] => identName id
    | _ => none

/-- hypothesis of the property: state-variable names unique in the file, not shadowed -/
def stateNamesUnique (f : T) : Bool :=
  let names := (stateVarDecls f).map (·.name)
  let locals := localNames f
  -- struct fields are `VariableDeclaration`s too; a clash with them is harmless but excluded as well
  names.all (fun n => (names.filter (· == n)).length == 1 && !locals.contains n)

def expectedConstant (f : T) : List Loc :=
  (stateVarDecls f).filterMap fun d =>
    if d.isElementaryNonMapping && !d.hasAttr .VariableAttribute_Constant &&
       !(T.allNodes f).any (isDirectWriteTo d.name)
    then d.typeLoc else none

def expectedSstore (f : T) : List Loc :=
  let names := ((stateVarDecls f).filter fun d =>
    d.isElementaryNonMapping && !d.hasAttr .VariableAttribute_Constant && !d.hasAttr .VariableAttribute_Immutable).map (·.name)
  (T.allNodes f).filterMap fun n =>
    match binary n with
    | some (tag, l, lhs, _) =>
      if tag = .Expression_Assign then
        (match varName lhs with | some v => if names.contains v then Loc.ofT l else none | none => none)
      else none
    | none => none

/-- (is constructor, definition part) of the direct function members of every contract -/
def contractFunctionParts (f : T) : List (Bool × T) :=
  (contractNodes f).flatMap fun k => (directParts k).filterMap fun p =>
    (contractFunctionFields p).map fun fields => (isConstructor fields, p)

def assignedInAConstructor (f : T) (name : String) : Bool :=
  (contractFunctionParts f).any fun (c, p) => c && (T.allNodes p).any (isPlainAssignTo name)

def writtenInOtherFunction (f : T) (name : String) : Bool :=
  (contractFunctionParts f).any fun (c, p) => !c && (T.allNodes p).any (isDirectWriteTo name)

/-- right-hand sides the code takes for "not a value type" -/
def looksNonValue (rhs : T) : Bool :=
  rhs.tag? = some .Expression_StringLiteral ||
    match call rhs with
    | some (_, callee, _) =>
      (match memberAccess callee with | some (_, obj, _) => varName obj = some "abi" | none => false) ||
        typeTag callee = some .Type_DynamicBytes
    | none => false

/-- every constructor assignment to `name` has such a right-hand side (the cause class of finding K1) -/
def onlyNonValueLookingAssignments (f : T) (name : String) : Bool :=
  (contractFunctionParts f).all fun (c, p) => !c || (T.allNodes p).all fun n =>
    match binary n with
    | some (tag, _, lhs, rhs) => !(tag = .Expression_Assign && varName lhs = some name) || looksNonValue rhs
    | none => true

inductive ImmutableVerdict | ok | unsound (why : String) | missedK1 (name : String) | missed (name : String)

def immutableOracle (f : T) (impl : List (Nat × Nat)) : ImmutableVerdict :=
  let cands := (stateVarDecls f).filter fun d =>
    d.isElementaryNonMapping && !d.hasAttr .VariableAttribute_Constant && !d.hasAttr .VariableAttribute_Immutable
  let key (d : VarDecl) : Option (Nat × Nat) := d.typeLoc.map (fun l => (l.start, l.stop))
  let bad := impl.filter fun p =>
    !(cands.any fun d => key d == some p && assignedInAConstructor f d.name && !writtenInOtherFunction f d.name)
  match bad with
  | p :: _ => .unsound s!"{p.1}:{p.2} is not a state variable assigned in a constructor and unwritten elsewhere"
  | [] =>
    let missing := cands.filter fun d =>
      d.isValueTyped && assignedInAConstructor f d.name && !writtenInOtherFunction f d.name &&
        (match key d with | some p => !impl.contains p | none => false)
    match missing with
    | [] => .ok
    | d :: _ => if onlyNonValueLookingAssignments f d.name then .missedK1 d.name else .missed d.name

/-! memory_to_calldata -/

def functionFieldsAny : T → Option (List T)
  | .node .ContractPart_FunctionDefinition [.node .S_FunctionDefinition fields] => some fields
  | .node .SourceUnitPart_FunctionDefinition [.node .S_FunctionDefinition fields] => some fields
  | _ => none

/-- named `memory` parameters: (name, location of the keyword) -/
def namedMemoryParams (fields : List T) : List (String × T) :=
  (fnParams fields).filterMap fun p =>
    match p with
    | .node .Tuple [_, .node .Some [.node .S_Parameter [_, _, .node .Some [.node .StorageLocation_Memory [l]], .node .Some [id]]]] =>
      (identName id).map (·, l)
    | _ => none

/-- the identifier at the bottom of a chain of subscripts (and, if `members`, member accesses) -/
def baseName (members : Bool) : T → Option String
  | .node .Expression_ArraySubscript [_, b, _] => baseName members b
  | .node .Expression_MemberAccess [_, b, _] => if members then baseName members b else none
  | t => varName t

/-- assigned directly or through an index (plain or compound assignment) -/
def assignsThroughIndex (body : T) (name : String) : Bool :=
  (T.allNodes body).any fun n =>
    match n with
    | .node tag [_, target, _] => assignOps.contains tag && baseName false target = some name
    | _ => false

/-- written in any way: assignment, compound assignment, `++`/`--`, `delete`, through indexes or members -/
def writtenAtAll (body : T) (name : String) : Bool :=
  (T.allNodes body).any fun n =>
    match n with
    | .node tag (_ :: target :: _) =>
      (writeOps.contains tag || tag = .Expression_Delete) && baseName true target = some name
    | _ => false

def paramNamesUnique (fields : List T) : Bool :=
  let names := (fnParams fields).filterMap fun p =>
    match p with
    | .node .Tuple [_, .node .Some [.node .S_Parameter [_, _, _, .node .Some [id]]]] => identName id
    | _ => none
  names.all fun n => (names.filter (· == n)).length == 1

def memoryToCalldataOracle (f : T) (impl : List (Nat × Nat)) : Option String :=
  let fns := (T.allNodes f).filterMap functionFieldsAny
  let key (l : T) : Option (Nat × Nat) := (Loc.ofT l).map (fun l => (l.start, l.stop))
  -- must not: a parameter the body assigns (directly or through an index), a constructor parameter
  let forbidden : List (Nat × Nat) := fns.flatMap fun fields =>
    (namedMemoryParams fields).filterMap fun (n, l) =>
      if isConstructor fields || (match fnBody fields with | some b => assignsThroughIndex b n | none => false)
      then key l else none
  let allowed : List (Nat × Nat) := fns.flatMap fun fields =>
    if isConstructor fields then [] else
      match fnBody fields with
      | some b => (namedMemoryParams fields).filterMap fun (n, l) => if assignsThroughIndex b n then none else key l
      | none => []
  -- must: a named memory parameter of a public/external function (with a body) that is never written
  let required : List (Nat × Nat) := fns.flatMap fun fields =>
    if !isConstructor fields && isPublicOrExternal fields && paramNamesUnique fields then
      match fnBody fields with
      | some b => (namedMemoryParams fields).filterMap fun (n, l) => if writtenAtAll b n then none else key l
      | none => []
    else []
  match impl.filter (fun p => forbidden.contains p && !allowed.contains p), required.filter (fun p => !impl.contains p),
        impl.filter (fun p => !allowed.contains p) with
  | p :: _, _, _ => some s!"suggested {p.1}:{p.2}: assigned by the body or a constructor parameter"
  | [], p :: _, _ => some s!"not suggested: never-written memory parameter at {p.1}:{p.2}"
  | [], [], p :: _ => some s!"suggested {p.1}:{p.2} is not a named memory parameter of a non-constructor function with a body"
  | [], [], [] => none

end Solstat
