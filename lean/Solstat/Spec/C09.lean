import Solstat.Spec.C07
/-!
# C09 — executable expected sets of the version-gated detectors for a file whose single
`pragma solidity` directive names one full version (the property's hypothesis).
-/
namespace Solstat
open Solstat.Gen View

/-- `op ++ a.b.c` with `op` one of none, `^`, `~`, `=`, `>=`, `>` and decimal components -/
def plainVersionOf (s : String) : Option (Nat × Nat × Nat) :=
  let cs := s.toList
  let ops : List (List Char) := [">=".toList, "^".toList, "~".toList, "=".toList, ">".toList, []]
  ops.findSome? fun op =>
    if op.isPrefixOf cs then
      match (String.ofList (cs.drop op.length)).splitOn "." with
      | [a, b, c] =>
        if [a, b, c].all (fun x => !x.isEmpty && x.toList.all Char.isDigit) then
          -- components that do not fit an i32 are outside the property's quantifier (the code declines to analyse)
          if [a, b, c].all (fun x => x.toNat! < 2147483648) then some (a.toNat!, b.toNat!, c.toNat!) else none
        else none
      | _ => none
    else none

/-- all pragma directives of the file: (identifier name, value) -/
def pragmaDirectives (f : T) : List (String × String) :=
  (T.allNodes f).filterMap fun n =>
    match n with
    | .node .SourceUnitPart_PragmaDirective [_, id, .node .S_StringLiteral [_, _, .str v]] =>
      (identName id).map (·, v)
    | _ => none

/-- the version of a file with exactly one `pragma solidity` directive naming one full version -/
def singleFullVersion (f : T) : Option (Nat × Nat × Nat) :=
  match (pragmaDirectives f).filter (fun p => p.1 = "solidity") with
  | [(_, v)] => plainVersionOf v
  | _ => none

def lexLt (a b : Nat × Nat × Nat) : Bool :=
  a.1 < b.1 || (a.1 == b.1 && (a.2.1 < b.2.1 || (a.2.1 == b.2.1 && a.2.2 < b.2.2)))

/-- the file attaches a library called SafeMath (`using SafeMath for ..`, at file or contract level) -/
def attachesSafeMath (f : T) : Bool :=
  (T.allNodes f).any fun n =>
    match n with
    | .node tag [.node .S_Using [_, .node .UsingList_Library [.node .S_IdentifierPath [_, ids]], _, _]] =>
      (tag = .SourceUnitPart_Using || tag = .ContractPart_Using) && (vecItems ids).any (fun i => identName i = some "SafeMath")
    | _ => false

def safeMathSites (f : T) : List Loc :=
  (T.allNodes f).filterMap fun n =>
    match call n with
    | some (_, callee, _) =>
      (match memberAccess callee with
       | some (l, _, id) =>
         if identName id = some "add" || identName id = some "sub" || identName id = some "mul" || identName id = some "div"
         then Loc.ofT l else none
       | none => none)
    | none => none

/-- `require(.., "<string literal>")`: (location of the first piece, its raw byte length) -/
def requireStringSites (f : T) : List (Loc × Nat) :=
  (T.allNodes f).filterMap fun n =>
    match call n with
    | some (_, callee, args) =>
      if varName callee = some "require" then
        (match (vecItems args).getLast? with
         | some (.node .Expression_StringLiteral [pieces]) =>
           (match vecItems pieces with
            | .node .S_StringLiteral [l, _, .str s] :: _ => (Loc.ofT l).map (·, s.utf8ByteSize)
            | _ => none)
         | _ => none)
      else none
    | none => none

def expectedVersionGated (det : String) (f : T) : Option (List Loc) :=
  match singleFullVersion f with
  | none => none
  | some v =>
    match det with
    | "safe_math_pre_080_optimization" => some (if lexLt v (0, 8, 0) && attachesSafeMath f then safeMathSites f else [])
    | "safe_math_post_080_optimization" => some (if !lexLt v (0, 8, 0) && attachesSafeMath f then safeMathSites f else [])
    | "string_error_optimization" => some (if !lexLt v (0, 8, 4) then (requireStringSites f).map (·.1) else [])
    | "short_revert_string_optimization" =>
      some (if lexLt v (0, 8, 4) then ((requireStringSites f).filter (fun p => p.2 ≥ 32)).map (·.1) else [])
    | _ => none

end Solstat
