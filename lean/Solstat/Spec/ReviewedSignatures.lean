/-!
# Reviewed table: which explanatory section belongs to which pattern

(pattern variant, first non-blank line of the section that must head its findings).  Written down once from the
sections of the pinned tree and read against docs/identified-*.md; the report oracle recognises sections by THIS
table, and theorem `signatures_as_reviewed` (Props/C11Sections.lean) compares it with the table regenerated from
`get_*_report_section` on every run — so a section attached to the wrong pattern is seen by both.
-/
namespace Solstat

def reviewedSignatures : List (String × String) := [
("AddressBalance", "## Use assembly when getting a contract's balance of ETH."),
  ("AddressZero", "## Use assembly to check for address(0)"),
  ("AssignUpdateArrayValue", "## `array[index] += amount` is cheaper than `array[index] = array[index] + amount` (or related variants)"),
  ("CacheArrayLength", "## Cache array length during for loop definition."),
  ("ConstantVariables", "## Mark storage variables as `constant` if they never change."),
  ("BoolEqualsBool", "## Instead of `if (x == bool)`, use `if(x)` or when applicable, use assembly with `iszero(iszero(x))`."),
  ("ImmutableVarialbes", "## Mark storage variables as `immutable` if they never change after contract initialization."),
  ("IncrementDecrement", "## `unchecked{++i}` instead of `i++` (or use assembly when applicable)"),
  ("MemoryToCalldata", "## Use `calldata` instead of `memory` for function arguments that do not get mutated."),
  ("MultipleRequire", "## Use multiple require() statments insted of require(expression && expression && ...)"),
  ("PackStorageVariables", "## Tightly pack storage variables"),
  ("PackStructVariables", "## Pack structs"),
  ("PayableFunction", "## Mark functions as payable (with discretion)"),
  ("PrivateConstant", "## Consider marking constants as private"),
  ("SafeMathPre080", "## Consider using assembly with overflow/undeflow protection for math (add, sub, mul, div) instead of SafeMath"),
  ("SafeMathPost080", "## Don't use SafeMath when using solidity >= 0.8.0"),
  ("ShiftMath", "## Right shift or Left shift instead of dividing or multiplying by powers of two"),
  ("SolidityKeccak256", "## Use assembly to hash instead of Solidity"),
  ("SolidityMath", "## Use assembly for math (add, sub, mul, div)"),
  ("Sstore", "## Use assembly to write storage values"),
  ("StringErrors", "## Use custom errors instead of string error messages"),
  ("OptimalComparison", "## Optimal Comparison"),
  ("ShortRevertString", "## Short Revert Strings"),
  ("FloatingPragma", "Floating pragma is a vulnerability in smart contract code that can cause unexpected behavior by allowing the compiler to use a specified range of versions. This can lead to issues such as using an older compiler version with known vulnerabilities, using a newer compiler version with undiscovered vulnerabilities, inconsistency across files using different versions, or unpredictable behavior because the compiler can use any version within the specified range. It is recommended to use a locked pragma version in order to avoid these potential vulnerabilities."),
  ("UnsafeERC20Operation", "ERC20 operations can be unsafe due to different implementations and vulnerabilities in the standard. To account for this, either use OpenZeppelin's SafeERC20 library or wrap each operation in a require statement."),
  ("UnprotectedSelfdestruct", "Unprotected call to a function executing `selfdestruct` or `suicide`."),
  ("DivideBeforeMultiply", "Consider ordering multiplication before division to avoid loss of precision because integer division might truncate. Loss of precision in Solidity can lead to vulnerabilities because it can result in unexpected behavior in smart contracts. This can be particularly problematic in financial applications, where even small errors in calculations can have significant consequences. For example, if a contract uses integer division to calculate a result and the division operation truncates the fractional part of the result, it could lead to incorrect pricing or loss of funds due to miscalculated balances."),
  ("ConstructorOrder", "### Constructor is placed after other functions"),
  ("PrivateVarsLeadingUnderscore", "## No use of underscore for internal and private variable names | Don't use the underscore prefix for public variable names"),
  ("PrivateFuncLeadingUnderscore", "## No use of underscore for internal and private function names | Don't use the underscore prefix for public and external function names")]

/-- reviewed table: the configuration name of every pattern (documented in docs/identified-*.md) and the variant it
selects; every name is the snake_case spelling of its variant (`ImmutableVarialbes` is the code's own spelling) -/
def reviewedNames : List (String × String) := [
("address_balance", "AddressBalance"),
  ("address_zero", "AddressZero"),
  ("assign_update_array_value", "AssignUpdateArrayValue"),
  ("cache_array_length", "CacheArrayLength"),
  ("constant_variables", "ConstantVariables"),
  ("bool_equals_bool", "BoolEqualsBool"),
  ("immutable_variables", "ImmutableVarialbes"),
  ("increment_decrement", "IncrementDecrement"),
  ("memory_to_calldata", "MemoryToCalldata"),
  ("multiple_require", "MultipleRequire"),
  ("pack_storage_variables", "PackStorageVariables"),
  ("pack_struct_variables", "PackStructVariables"),
  ("payable_function", "PayableFunction"),
  ("private_constant", "PrivateConstant"),
  ("safe_math_pre_080", "SafeMathPre080"),
  ("safe_math_post_080", "SafeMathPost080"),
  ("shift_math", "ShiftMath"),
  ("solidity_keccak256", "SolidityKeccak256"),
  ("solidity_math", "SolidityMath"),
  ("sstore", "Sstore"),
  ("string_errors", "StringErrors"),
  ("optimal_comparison", "OptimalComparison"),
  ("short_revert_string", "ShortRevertString"),
  ("floating_pragma", "FloatingPragma"),
  ("unsafe_erc20_operation", "UnsafeERC20Operation"),
  ("unprotected_selfdestruct", "UnprotectedSelfdestruct"),
  ("divide_before_multiply", "DivideBeforeMultiply"),
  ("constructor_order", "ConstructorOrder"),
  ("private_vars_leading_underscore", "PrivateVarsLeadingUnderscore"),
  ("private_func_leading_underscore", "PrivateFuncLeadingUnderscore")]

end Solstat
