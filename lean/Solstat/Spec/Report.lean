import Solstat.Spec.ReviewedSignatures
import Solstat.Spec.EntryText
import Solstat.Report
/-!
# C11 / C12 oracles: reading a report back, as text
-/
namespace Solstat

/-- the line that identifies a pattern's section: its first line with a non-blank character -/
def signatureLine (sect : List String) : Option String := sect.find? (fun l => l.toList.any (fun c => !c.isWhitespace))

structure RB where
  current : Option String := none
  inList : Bool := false
  out : List (String × String × Nat) := []
  sectionsSeen : List String := []
  malformed : List String := []

/-- split `- <file>:<n>` at the last colon: the character-level parser of `Spec/EntryText.lean`, for which the round
trip with the renderer is a theorem (`Props/C11Text.lean`) -/
def parseEntryLine (l : String) : Option (String × Nat) :=
  (parseEntryChars l.toList).map fun (f, n) => (String.ofList f, n)

/-- recognise a pattern by its signature line, a list by `### Lines`, an entry by `- <file>:<int>`,
the end of a list by the empty line -/
def readBackStep (sigs : List (String × String)) (st : RB) (l : String) : RB :=
  if st.inList then
    if l.isEmpty then { st with inList := false }
    else
      match parseEntryLine l, st.current with
      | some (f, n), some p => { st with out := st.out ++ [(p, f, n)] }
      | _, _ => { st with malformed := st.malformed ++ [l] }
  else if l == "### Lines" then { st with inList := true }
  else
    match sigs.find? (fun s => s.2 == l) with
    | some (p, _) => { st with current := some p, sectionsSeen := st.sectionsSeen ++ [p] }
    | none => st

def readBack (sigs : List (String × String)) (lines : List String) : RB := lines.foldl (readBackStep sigs) {}

/-- (pattern name, signature line) of every pattern of the three categories, as regenerated from the code -/
def generatedSignatures : List (String × String) :=
  (Gen.optAll.filterMap fun p => (signatureLine (optCategory.sectionLines p)).map (p.name, ·)) ++
  (Gen.vulnAll.filterMap fun p => (signatureLine (vulnCategory.sectionLines p)).map (p.name, ·)) ++
  (Gen.qaAll.filterMap fun p => (signatureLine (qaCategory.sectionLines p)).map (p.name, ·))

/-- (configuration name, variant) of every accepted name, as regenerated from the `str_to_*` tables -/
def generatedNames : List (String × String) :=
  (Gen.optStrTable.map fun e => (e.1, e.2.name)) ++ (Gen.vulnStrTable.map fun e => (e.1, e.2.name)) ++ (Gen.qaStrTable.map fun e => (e.1, e.2.name))

/-- the table the oracle reads reports with: the reviewed one, not the regenerated one -/
def allSignatures : List (String × String) := reviewedSignatures

/-- the number printed in an overview line `...(Total X N)` -/
def overviewTotal (pre post : String) (lines : List String) : Option Nat :=
  lines.findSome? fun l =>
    if l.startsWith pre && l.endsWith post then
      (((l.drop pre.length).toString.dropEnd post.length).toString).toNat?
    else none

def countEntryLines (lines : List String) : Nat := (lines.filter (fun l => (parseEntryLine l).isSome)).length

end Solstat
