import Solstat.Gen.Patterns
import Solstat.Gen.Sections
/-!
# Model of the report renderer (`src/report/*.rs`)

The report is modelled as a list of lines; every string piece the code concatenates ends in a line
feed (checked by the translator on the section texts), so the report text is the lines each followed
by `\n`.  A findings map `HashMap<P, Vec<(String, BTreeSet<i32>)>>` enters as the list of its
entries in iteration order — any order: the renderer sorts patterns by declaration order and files
by (name, lines) before rendering.
-/
namespace Solstat

inductive Line
  | text (s : String)
  /-- `- <file>:<line>` -/
  | entry (file : String) (line : Nat)
deriving Repr, DecidableEq, Inhabited

def Line.render : Line → String
  | .text s => s
  | .entry f l => "- " ++ f ++ ":" ++ toString l

abbrev Files := List (String × List Nat)
abbrev Findings (P : Type) := List (P × Files)

/-! ## orders -/

/-- lexicographic `≤` on lists of naturals -/
def lexLe : List Nat → List Nat → Bool
  | [], _ => true
  | _ :: _, [] => false
  | a :: as, b :: bs => a < b || (a = b && lexLe as bs)

/-- code points of a string: Rust orders `String`s byte-wise, which for UTF-8 is code-point order -/
def strKey (s : String) : List Nat := s.toList.map Char.toNat

/-- the order `Vec<(String, BTreeSet<i32>)>::sort` uses -/
def fileLe (a b : String × List Nat) : Bool :=
  if strKey a.1 = strKey b.1 then lexLe a.2 b.2 else lexLe (strKey a.1) (strKey b.1)

def insertBy {α : Type} (le : α → α → Bool) (x : α) : List α → List α
  | [] => [x]
  | y :: ys => if le x y then x :: y :: ys else y :: insertBy le x ys

def sortBy {α : Type} (le : α → α → Bool) (xs : List α) : List α := xs.foldr (insertBy le) []

/-! ## a category of patterns -/

structure Category (P : Type) where
  /-- the variants in declaration order (`as usize`) -/
  order : List P
  /-- lines of `report_section_content() + "\n"` -/
  sectionLines : P → List String

def Category.idx {P : Type} [DecidableEq P] (c : Category P) (p : P) : Nat := c.order.idxOf p

def entryLe {P : Type} [DecidableEq P] (c : Category P) (a b : P × Files) : Bool := c.idx a.1 ≤ c.idx b.1

/-- patterns by declaration order, files by (name, lines) -/
def canon {P : Type} [DecidableEq P] (c : Category P) (F : Findings P) : Findings P :=
  sortBy (entryLe c) (F.map fun e => (e.1, sortBy fileLe e.2))

def entryLines (files : Files) : List Line := files.flatMap fun fl => fl.2.map (Line.entry fl.1)

/-- one pattern's block: its section, the list marker, the entries, two empty lines -/
def sectionBlock {P : Type} (c : Category P) (p : P) (files : Files) : List Line :=
  (c.sectionLines p).map Line.text ++ [Line.text "### Lines"] ++ entryLines files ++ [Line.text "", Line.text ""]

def blocks {P : Type} [DecidableEq P] (c : Category P) (F : Findings P) : List Line :=
  (canon c F).flatMap fun e => if e.2.isEmpty then [] else sectionBlock c e.1 e.2

def countEntries (files : Files) : Nat := (files.map (·.2.length)).sum

def totalEntries {P : Type} (F : Findings P) : Nat := (F.map (countEntries ·.2)).sum

def overviewLines (before : List String) (pre post : String) (after : List String) (total : Nat) : List Line :=
  (before.map Line.text) ++ [Line.text (pre ++ toString total ++ post)] ++ after.map Line.text

/-- `generate_optimization_report` -/
def optimizationReport (c : Category Gen.Optimization) (F : Findings Gen.Optimization) : List Line :=
  overviewLines Gen.sec_opt_overview_before Gen.sec_opt_overview_linePre Gen.sec_opt_overview_linePost Gen.sec_opt_overview_after
    (totalEntries F) ++ blocks c F

/-- `generate_qa_report` -/
def qaReport (c : Category Gen.QualityAssurance) (F : Findings Gen.QualityAssurance) : List Line :=
  Gen.sec_qa_overview.map Line.text ++ blocks c F

def severityOf (v : Gen.Vulnerability) : Gen.Severity :=
  match Gen.vulnSeverity.find? (fun e => e.1 = v) with
  | some e => e.2
  | none => .Low

/-- heading literal a severity buffer starts with, and the literal it is compared with before printing -/
def headingOf (sev : String) : String × String :=
  match Gen.vulnHeadings.find? (fun e => e.1 = sev) with
  | some e => e.2
  | none => ("", "")

/-- split a character list at line feeds -/
def splitLF : List Char → List (List Char)
  | [] => [[]]
  | c :: cs =>
    match splitLF cs with
    | [] => [[]]
    | h :: t => if c = '\n' then [] :: h :: t else (c :: h) :: t

def linesOfLiteral (s : String) : List Line :=
  -- a heading literal `"## High Risk\n"` is one line; a literal without the final line feed would glue to
  -- what follows (never the case for the literals the buffers start with: theorem `heading_literals_ok`)
  ((splitLF s.toList).dropLast).map fun cs => Line.text (String.ofList cs)

/-- one severity part: printed iff the buffer differs from the literal it is compared with -/
def severityPart (c : Category Gen.Vulnerability) (sevName : String) (sev : Gen.Severity) (F : Findings Gen.Vulnerability) : List Line :=
  let mine := F.filter fun e => severityOf e.1 = sev
  let body := blocks c mine
  let (init, cmp) := headingOf sevName
  if body.isEmpty && init = cmp then [] else linesOfLiteral init ++ body

/-- `generate_vulnerability_report` -/
def vulnerabilityReport (c : Category Gen.Vulnerability) (F : Findings Gen.Vulnerability) : List Line :=
  overviewLines Gen.sec_vuln_overview_before Gen.sec_vuln_overview_linePre Gen.sec_vuln_overview_linePost Gen.sec_vuln_overview_after
    (totalEntries F) ++
  severityPart c "high" .High F ++ severityPart c "medium" .Medium F ++ severityPart c "low" .Low F

/-- `generate_report`: each non-empty category followed by two empty lines -/
def fullReport (cv : Category Gen.Vulnerability) (co : Category Gen.Optimization) (cq : Category Gen.QualityAssurance)
    (V : Findings Gen.Vulnerability) (O : Findings Gen.Optimization) (Q : Findings Gen.QualityAssurance) : List Line :=
  (if V.isEmpty then [] else vulnerabilityReport cv V ++ [Line.text "", Line.text ""]) ++
  (if O.isEmpty then [] else optimizationReport co O ++ [Line.text "", Line.text ""]) ++
  (if Q.isEmpty then [] else qaReport cq Q ++ [Line.text "", Line.text ""])

/-! the categories of the current source tree (regenerated tables) -/

def sectionOf {P : Type} [DecidableEq P] (table : List (P × String)) (texts : String → Option (List String)) (p : P) : List String :=
  match table.find? (fun e => e.1 = p) with
  | some e => (texts e.2).getD []
  | none => []

def optCategory : Category Gen.Optimization := { order := Gen.optAll, sectionLines := sectionOf Gen.optSection Gen.optSectionText }
def vulnCategory : Category Gen.Vulnerability := { order := Gen.vulnAll, sectionLines := sectionOf Gen.vulnSection Gen.vulnSectionText }
def qaCategory : Category Gen.QualityAssurance := { order := Gen.qaAll, sectionLines := sectionOf Gen.qaSection Gen.qaSectionText }

end Solstat
