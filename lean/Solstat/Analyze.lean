import Solstat.Detectors
import Solstat.Gen.Patterns
/-!
# Per-file entry points `analyze_for_optimization / _vulnerability / _qa`

`BTreeSet<LineNumber>` of `get_line_number(loc.start(), file_contents)` over the detector's
locations.  The parser is not modelled: `tree` is what the real parser returned for `bytes`.
-/
namespace Solstat
open Solstat.Gen

def insertNat (x : Nat) : List Nat → List Nat
  | [] => [x]
  | y :: ys => if x = y then y :: ys else if x < y then x :: y :: ys else y :: insertNat x ys

/-- a `BTreeSet<i32>` as a strictly ascending list -/
def lineSet (xs : List Nat) : List Nat := xs.foldr insertNat []

/-- `analyze_for_*` for one detector function -/
def analyzeLines (d : T → List Loc) (bytes : List UInt8) (tree : T) : List Nat :=
  lineSet ((d tree).map (fun l => lineOf bytes l.start))

end Solstat
