import Solstat.Opts
import Solstat.Report
/-!
# Model of `main` as a transformer of an idealised file system

The file system is a finite map from absolute paths to file contents; directory listings, symlinks,
permissions and partial writes are not modelled.  The three directory analyses enter as one abstract
function of the (unchanged) file system and the resolved options: what they compute is the business
of C03–C16; what matters here is that they only *read*.
-/
namespace Solstat

abbrev World := String → Option (List UInt8)

def World.write (w : World) (path : String) (bytes : List UInt8) : World :=
  fun p => if p = path then some bytes else w p

def reportPath (cwd : String) : String := cwd ++ "/solstat_report.md"

def reportBytes (lines : List Line) : List UInt8 :=
  (lines.flatMap fun l => (l.render ++ "\n").toUTF8.toList)

/-- `main`: resolve the options, analyse (read-only), write the report into the working directory.
`false` = the process exits with a failure status. -/
def run (analyse : World → Opts → Except String (List Line)) (w : World) (cwd : String) (args : CliArgs)
    (contractsDirExists : Bool) : World × Bool :=
  match resolve args contractsDirExists with
  | .error _ => (w, false)
  | .ok o =>
    match analyse w o with
    | .error _ => (w, false)
    | .ok lines => (w.write (reportPath cwd) (reportBytes lines), true)

end Solstat
