import Solstat.Tree
/-!
# Relocation of a parse tree (model side; the lemmas are in `Solstat/Props/MapLoc.lean`)

`mapLoc ρ t` applies `ρ` to every source location of `t` and leaves everything else alone.
`locsOf t` lists the locations of `t` in pre-order.
-/
namespace Solstat
open Solstat.Gen T

mutual
def mapLoc (ρ : Loc → Loc) : T → T
  | .node tag ks =>
    if tag = .Loc_File then
      match ks with
      | [.nat f, .nat s, .nat e] => Loc.toT (ρ ⟨f, s, e⟩)
      | _ => .node tag (mapLocL ρ ks)
    else .node tag (mapLocL ρ ks)
  | t => t
def mapLocL (ρ : Loc → Loc) : List T → List T
  | [] => []
  | k :: ks => mapLoc ρ k :: mapLocL ρ ks
end

mutual
/-- every source location occurring in a tree, in pre-order -/
def locsOf : T → List Loc
  | .node tag ks =>
    if tag = .Loc_File then
      match ks with
      | [.nat f, .nat s, .nat e] => [⟨f, s, e⟩]
      | _ => locsOfL ks
    else locsOfL ks
  | _ => []
def locsOfL : List T → List Loc
  | [] => []
  | k :: ks => locsOf k ++ locsOfL ks
end

end Solstat
