/-!
# Model of the three `analyze_dir` functions

A directory is a list of entries in the order `read_dir` lists them.  The per-file analysis
`g bytes file_no pattern` (the `analyze_for_*` entry point: parse + detector + line mapping) is a
parameter: everything proved here holds for any `g`.  `HashMap<P, Vec<(String, BTreeSet<i32>)>>` is
a function from patterns to the vector of `(file name, lines)` pushed for it, in push order; a key
is "present" iff its vector is non-empty (the code only inserts on the first push).
-/
namespace Solstat

inductive Entry
  /-- a file: its name and its contents (`none`: cannot be read / not UTF-8) -/
  | file (name : String) (contents : Option (List UInt8))
  /-- a sub-directory: its name and its entries in listing order -/
  | dir (name : String) (entries : List Entry)
deriving Repr, Inhabited

abbrev FMap (P : Type) := P → List (String × List Nat)

def FMap.empty {P : Type} : FMap P := fun _ => []

/-- `entry(p).or_insert(vec![]).push(x)` -/
def FMap.push {P : Type} [DecidableEq P] (m : FMap P) (p : P) (x : String × List Nat) : FMap P :=
  fun q => if q = p then m q ++ [x] else m q

/-- merging the result of a sub-directory: append per key -/
def FMap.merge {P : Type} (m sub : FMap P) : FMap P := fun q => m q ++ sub q

def asciiLower (s : String) : String := String.ofList (s.toList.map Char.toLower)

/-- the file-name filter: `name.ends_with(".sol") && !name.to_lowercase().ends_with(".t.sol")` -/
def eligible (name : String) : Bool :=
  ".sol".toList.isSuffixOf name.toList && !(".t.sol".toList.isSuffixOf (asciiLower name).toList)

/-- for one eligible file: push `(name, lines)` for every selected pattern with a non-empty result, in the order of `ps` -/
def pushFile {P : Type} [DecidableEq P] (g : List UInt8 → Nat → P → List Nat) (name : String) (bytes : List UInt8) (i : Nat) :
    List P → FMap P → FMap P
  | [], m => m
  | p :: ps, m =>
    let lines := g bytes i p
    pushFile g name bytes i ps (if lines.isEmpty then m else m.push p (name, lines))

mutual
/-- one entry at position `i` of its directory's listing -/
def analyzeEntry {P : Type} [DecidableEq P] (g : List UInt8 → Nat → P → List Nat) (ps : List P) (i : Nat) :
    Entry → FMap P → Except String (FMap P)
  | .dir _ sub, m =>
    match analyzeEntries g ps 0 sub FMap.empty with
    | .ok r => .ok (m.merge r)
    | .error e => .error e
  | .file name contents, m =>
    if eligible name then
      match contents with
      | some bytes => .ok (pushFile g name bytes i ps m)
      | none => .error s!"Unable to read file {name}"
    else .ok m
/-- the entries of one directory from position `i` on -/
def analyzeEntries {P : Type} [DecidableEq P] (g : List UInt8 → Nat → P → List Nat) (ps : List P) (i : Nat) :
    List Entry → FMap P → Except String (FMap P)
  | [], m => .ok m
  | e :: es, m =>
    match analyzeEntry g ps i e m with
    | .ok m' => analyzeEntries g ps (i + 1) es m'
    | .error err => .error err
end

/-- `analyze_dir(target_dir, patterns)` -/
def analyzeDir {P : Type} [DecidableEq P] (g : List UInt8 → Nat → P → List Nat) (ps : List P) (es : List Entry) :
    Except String (FMap P) := analyzeEntries g ps 0 es FMap.empty

end Solstat
