import Solstat.Wire
import Solstat.Detectors
import Solstat.Spec.Basic
import Solstat.Spec.C05
import Solstat.Spec.C07
import Solstat.Spec.C06
import Solstat.Spec.C09
import Solstat.Spec.C08
import Solstat.Spec.Dir
import Solstat.Spec.Report
import Solstat.Reloc
import Solstat.Gen.Patterns
/-!
# Correspondence-check plumbing (not part of the verified model)

Evaluates one request line of the harness: model output vs the implementation's output
(`A`gree / `D`isagree / `E`rror) and the property oracle on the implementation's output
(`ok` / `VIOL` / `na`).
-/
namespace Solstat
open Solstat.Gen

structure Verdict where
  kind : String
  group : String := ""
  agree : String := "A"        -- A | D | E | na
  oracle : String := "na"      -- ok | VIOL | na
  detail : String := ""

def Verdict.render (v : Verdict) : String :=
  s!"{v.kind}\t{v.group}\t{v.agree}\t{v.oracle}\t{v.detail}"

structure FileRec where
  src : List UInt8
  tree : T

structure St where
  tokMaps : List ((String × String) × (List (Nat × Nat) × List (Nat × Nat))) := []
  files : List (String × FileRec) := []
  roots : List (String × T) := []
  detImpl : List ((String × String) × String) := []   -- (file id, detector fn) ↦ impl locs text
  edgesSeen : List CtxPath := []
  tagsSeen : List Tag := []
  conformFailures : Nat := 0

def unhexByte (a b : Char) : UInt8 := (hexVal a * 16 + hexVal b).toUInt8

def unhex : List Char → List UInt8
  | a :: b :: rest => unhexByte a b :: unhex rest
  | _ => []

def bytesToString (bs : List UInt8) : String :=
  match String.fromUTF8? ⟨bs.toArray⟩ with
  | some s => s
  | none => ""

/-- first location in pre-order: the comparison key both sides use for a node -/
partial def firstLoc : T → Option Loc
  | .node .Loc_File [.nat f, .nat s, .nat e] => some ⟨f, s, e⟩
  | .node _ ks => ks.findSome? firstLoc
  | _ => none

def nodeHead (n : T) : String :=
  match n with
  | .node tag _ =>
    let l := (firstLoc n).getD ⟨0, 0, 0⟩
    s!"{tag.name}:{l.start}:{l.stop}"
  | _ => "?"

def targetOfName (n : String) : Option Target := allTargets.find? (fun t => t.name == n)

def fmtSeq (ns : List T) : String := ";".intercalate (ns.map nodeHead)

def insertSortedLoc (x : Nat × Nat) : List (Nat × Nat) → List (Nat × Nat)
  | [] => [x]
  | y :: ys =>
    if x = y then y :: ys
    else if x.1 < y.1 || (x.1 = y.1 && x.2 < y.2) then x :: y :: ys else y :: insertSortedLoc x ys

/-- sorted, de-duplicated `(start,end)` pairs -/
def canonLocs (ls : List Loc) : List (Nat × Nat) := ls.foldr (fun l acc => insertSortedLoc (l.start, l.stop) acc) []

def fmtLocs (ls : List (Nat × Nat)) : String := ";".intercalate (ls.map fun (s, e) => s!"{s}:{e}")

def parseLocs (s : String) : Option (List (Nat × Nat)) :=
  if s == "PANIC" then none
  else if s.isEmpty then some []
  else some ((s.splitOn ";").filterMap fun p =>
    match p.splitOn ":" with
    | [a, b] => match a.toNat?, b.toNat? with
      | some x, some y => some (x, y)
      | _, _ => none
    | _ => none)

def insertSortedNat (x : Nat) : List Nat → List Nat
  | [] => [x]
  | y :: ys => if x = y then y :: ys else if x < y then x :: y :: ys else y :: insertSortedNat x ys

def canonNats (xs : List Nat) : List Nat := xs.foldr insertSortedNat []

def fmtNats (xs : List Nat) : String := ";".intercalate (xs.map toString)

mutual
/-- context paths of all node-tagged sub-terms (edge coverage of the inputs) -/
partial def edgesOf (ctx : CtxPath) (t : T) (acc : List CtxPath × List Tag) : List CtxPath × List Tag :=
  match t with
  | .node tag ks =>
    if isNodeTag tag then
      let acc := if ctx.isEmpty || acc.1.contains ctx.reverse then acc else (ctx.reverse :: acc.1, acc.2)
      let acc := if acc.2.contains tag then acc else (acc.1, tag :: acc.2)
      edgesOfL [] tag 0 ks acc
    else edgesOfL ctx tag 0 ks acc
  | _ => acc
partial def edgesOfL (ctx : CtxPath) (tag : Tag) (i : Nat) (ks : List T) (acc : List CtxPath × List Tag) : List CtxPath × List Tag :=
  match ks with
  | [] => acc
  | k :: rest => edgesOfL ctx tag (i + 1) rest (edgesOf ((tag, normIdx tag i) :: ctx) k acc)
end

def noteTree (st : St) (t : T) : St :=
  let (e, g) := edgesOf [] t (st.edgesSeen, st.tagsSeen)
  { st with edgesSeen := e, tagsSeen := g }

/-- variant name ↦ detector function, from the regenerated dispatch tables -/
def dispatchOf (cat variant : String) : Option String :=
  match cat with
  | "opt" => (optDispatch.find? (fun e => e.1.name == variant)).map (·.2)
  | "vuln" => (vulnDispatch.find? (fun e => e.1.name == variant)).map (·.2)
  | "qa" => (qaDispatch.find? (fun e => e.1.name == variant)).map (·.2)
  | _ => none

/-- specifications with canonical / clearly-non-matching forms, by detector function -/
def nodeSpecOf : String → Option NodeSpec
  | "address_balance_optimization" => some specAddressBalance
  | "address_zero_optimization" => some specAddressZero
  | "bool_equals_bool_optimization" => some specBoolEqualsBool
  | "assign_update_array_optimization" => some specAssignUpdateArray
  | "cache_array_length_optimization" => some specCacheArrayLength
  | "increment_decrement_optimization" => some specIncrementDecrement
  | "multiple_require_optimization" => some specMultipleRequire
  | "optimal_comparison_optimization" => some specOptimalComparison
  | "shift_math_optimization" => some specShiftMath
  | "solidity_keccak256_optimization" => some specSolidityKeccak256
  | "solidity_math_optimization" => some specSolidityMath
  | "unsafe_erc20_operation_vulnerability" => some specUnsafeErc20
  | "floating_pragma_vulnerability" => some specFloatingPragma
  | _ => none

/-- the property oracle on the implementation's output: every canonical form is reported, and
every reported location is that of a node which is not a clearly-non-matching form -/
def nodeSpecOracle (s : NodeSpec) (f : T) (impl : List (Nat × Nat)) : Option String :=
  let nodes := T.allNodes f
  let missed := nodes.filter fun n =>
    s.canon f n && match s.reportLoc n with
      | some l => !impl.contains (l.start, l.stop)
      | none => true
  let spurious := impl.filter fun p =>
    !(nodes.any fun n => (match s.reportLoc n with | some l => (l.start, l.stop) == p | none => false) && !s.nonMatch f n)
  match missed, spurious with
  | [], [] => none
  | m :: _, _ => some s!"canonical form not reported: {nodeHead m}"
  | [], p :: _ => some s!"reported location {p.1}:{p.2} is not the location of a matching node"

/-- divide_before_multiply: the reported set is exactly the set of chain instances -/
def dbmOracleOn (f : T) (impl : List (Nat × Nat)) : Option String :=
  let want := canonLocs ((T.allNodes f).filterMap fun n => if dbmOracle n then View.loc n else none)
  if want == impl then none else some s!"expected {fmtLocs want}"

/-- unprotected_selfdestruct: MUST / MUST NOT as the property words them -/
def selfdestructOracleOn (f : T) (impl : List (Nat × Nat)) : Option String :=
  let sites := selfdestructSites f
  let locOf (c : T) : Option (Nat × Nat) := (View.loc c).map (fun l => (l.start, l.stop))
  let missed := sites.filter fun (fields, body, c) =>
    mustReport fields body && (match locOf c with | some p => !impl.contains p | none => false)
  let spurious := impl.filter fun p =>
    !(sites.any fun (fields, body, c) => locOf c == some p && !mustNotReport fields body)
  match missed, spurious with
  | [], [] => none
  | (_, _, c) :: _, _ => some s!"unprotected call not reported: {nodeHead c}"
  | [], p :: _ => some s!"reported {p.1}:{p.2} has no call site outside the must-not cases"

/-- detectors whose property is an exact "iff": expected location set -/
def expectedSetOf : String → Option (T → List Loc)
  | "payable_function_optimization" => some expectedPayable
  | "private_constant_optimization" => some expectedPrivateConstant
  | "private_vars_leading_underscore" => some expectedPrivateVars
  | "private_func_leading_underscore" => some expectedPrivateFunc
  | "constructor_order_qa" => some expectedConstructorOrder
  | _ => none

/-! ## C10 oracle: packing reports against Solidity's layout rule (independent of `slotsUsed`/`canPack`) -/

def insertEverywhere (x : Nat) : List Nat → List (List Nat)
  | [] => [[x]]
  | y :: ys => (x :: y :: ys) :: (insertEverywhere x ys).map (y :: ·)

def permsSmall : List Nat → List (List Nat)
  | [] => [[]]
  | x :: xs => (permsSmall xs).flatMap (insertEverywhere x)

/-- `some true`: no reordering occupies fewer slots; `some false`: one does; `none`: too long to enumerate and
not at the lower bound ⌈bits / 256⌉ -/
def declaredOptimal (xs : List Nat) : Option Bool :=
  let used := slotsOfLayout xs
  if used == (xs.sum + 255) / 256 then some true
  else if xs.length ≤ 7 then some ((permsSmall xs).all fun p => used ≤ slotsOfLayout p)
  else none

def bothSortsSave (xs : List Nat) : Bool :=
  let used := slotsOfLayout xs
  let asc := (xs.toArray.qsort (· < ·)).toList
  slotsOfLayout asc < used && slotsOfLayout asc.reverse < used

/-- the packable units of a file: (location reported for it, documented sizes of its members) -/
def packUnits (structs : Bool) (root : T) : List (Loc × List Nat) :=
  (T.allNodes root).filterMap fun n =>
    if structs then
      match n with
      | .node .SourceUnitPart_StructDefinition [.node .S_StructDefinition [loc, _, fields]]
      | .node .ContractPart_StructDefinition [.node .S_StructDefinition [loc, _, fields]] =>
        (Loc.ofT loc).map fun l => (l, (vecItems fields).filterMap fun f =>
          match f with
          | .node .S_VariableDeclaration (_ :: ty :: _) => some (specTypeSize ty)
          | _ => none)
      | _ => none
    else
      match n with
      | .node .SourceUnitPart_ContractDefinition [.node .S_ContractDefinition [loc, _, _, _, parts]] =>
        (Loc.ofT loc).map fun l => (l, (vecItems parts).filterMap fun p =>
          match p with
          | .node .ContractPart_VariableDefinition [.node .S_VariableDefinition (_ :: ty :: _)] => some (specTypeSize ty)
          | _ => none)
      | _ => none

def packOracleOn (structs : Bool) (root : T) (reported : List Loc) : Option String :=
  let units := packUnits structs root
  let bad := units.filterMap fun (l, sizes) =>
    let rep := reported.any (fun r => r.start == l.start && r.stop == l.stop)
    if rep && declaredOptimal sizes == some true then
      some s!"reported at {l.start} although the declared order {sizes} is already optimal ({slotsOfLayout sizes} slots)"
    else if !rep && bothSortsSave sizes then
      some s!"not reported at {l.start} although sorting {sizes} by size saves a slot in either direction"
    else none
  let stray := reported.filter fun r => !(units.any fun (l, _) => r.start == l.start && r.stop == l.stop)
  match bad, stray with
  | w :: _, _ => some w
  | [], r :: _ => some s!"reported location {r.start} is not a contract / struct"
  | [], [] => none

/-! directory requests -/

partial def parseEntries (cs : List Char) (acc : List Entry) : List Entry × List Char :=
  match cs with
  | 'd' :: ':' :: rest =>
    let hexName := rest.takeWhile (· != '{')
    let rest := (rest.dropWhile (· != '{')).drop 1
    let (sub, rest) := parseEntries rest []
    let rest := rest.drop 1   -- '}'
    let e := Entry.dir (bytesToString (unhex hexName)) sub
    match rest with
    | ',' :: r => parseEntries r (e :: acc)
    | r => ((e :: acc).reverse, r)
  | 'f' :: ':' :: rest =>
    let hexName := rest.takeWhile (· != ':')
    let rest := (rest.dropWhile (· != ':')).drop 1
    let key := rest.takeWhile (fun c => c != ',' && c != '}')
    let rest := rest.dropWhile (fun c => c != ',' && c != '}')
    let contents : Option (List UInt8) := if key == ['!'] then none else some (String.ofList key).toUTF8.toList
    let e := Entry.file (bytesToString (unhex hexName)) contents
    match rest with
    | ',' :: r => parseEntries r (e :: acc)
    | r => ((e :: acc).reverse, r)
  | r => (acc.reverse, r)

def parseNatList (s : String) : Option (List Nat) :=
  if s == "PANIC" then none else some ((s.splitOn ";").filterMap String.toNat?)

/-- `key:Variant=1;2,Variant=..|key:..` -/
def parseGTable (s : String) : List (String × List (String × Option (List Nat))) :=
  if s.isEmpty then [] else
  (s.splitOn "|").filterMap fun row =>
    match row.splitOn ":" with
    | [key, rest] => some (key, (rest.splitOn ",").filterMap fun kv =>
        match kv.splitOn "=" with
        | [k, v] => some (k, parseNatList v)
        | _ => none)
    | _ => none

/-- `Variant=hexname:1;2|hexname:3,Variant=..` -/
def parseDirResult (s : String) : List (String × List (String × List Nat)) :=
  if s.isEmpty then [] else
  (s.splitOn ",").filterMap fun kv =>
    match kv.splitOn "=" with
    | [k, v] => some (k, (v.splitOn "|").filterMap fun fl =>
        match fl.splitOn ":" with
        | [f, ls] => some (bytesToString (unhex f.toList), (ls.splitOn ";").filterMap String.toNat?)
        | _ => none)
    | _ => none

def sortPairs (xs : List (String × List Nat)) : List (String × List Nat) :=
  (xs.toArray.qsort (fun a b => a.1 < b.1 || (a.1 == b.1 && toString a.2 < toString b.2))).toList

/-! report requests -/

def optOfName (n : String) : Option Optimization := optAll.find? (fun p => p.name == n)
def vulnOfName (n : String) : Option Vulnerability := vulnAll.find? (fun p => p.name == n)
def qaOfName (n : String) : Option QualityAssurance := qaAll.find? (fun p => p.name == n)

def decodeFindings {P : Type} (ofName : String → Option P) (s : String) : List (P × Files) :=
  if s.isEmpty then [] else
  (s.splitOn ",").filterMap fun kv =>
    match kv.splitOn "=" with
    | [k, v] =>
      (ofName k).map fun p => (p, if v.isEmpty then [] else (v.splitOn "|").filterMap fun fl =>
        match fl.splitOn ":" with
        | [f, ls] => some (bytesToString (unhex f.toList), (ls.splitOn ";").filterMap String.toNat?)
        | _ => none)
    | _ => none

def reportLinesOfHex (h : String) : List String :=
  let text := bytesToString (unhex h.toList)
  (text.splitOn "\n").dropLast

/-! composition requests (C19) -/

def isPragmaPartB (p : T) : Bool := p.tag? = some .SourceUnitPart_PragmaDirective

def keepItems (i : Nat) (parts : List T) : List T :=
  parts.zipIdx.filterMap fun pj => if isPragmaPartB pj.1 || pj.2 = i then some pj.1 else none

/-- identifiers mentioned anywhere in a term -/
def mentionedNames (t : T) : List String :=
  (T.subtrees t).filterMap fun n => match n with
    | .node .S_Identifier [_, .str s] => some s
    | _ => none

/-- state-variable names declared by an item (a contract's direct variable definitions) -/
def declaredStateNames (item : T) : List String :=
  (directVariables item).filterMap varNameOf

/-- no item mentions a state-variable name declared in another item -/
def itemsIndependent (parts : List T) : Bool :=
  let items := parts.zipIdx
  items.all fun (a, i) => items.all fun (b, j) =>
    i == j || (declaredStateNames a).all (fun n => !(mentionedNames b).contains n)

/-! re-layout requests (C17) -/

/-- token map `s1:e1>s2:e2;...` as (start map, end map) -/
def parseTokMap (s : String) : List (Nat × Nat) × List (Nat × Nat) :=
  let toks := (s.splitOn ";").filterMap fun t =>
    match t.splitOn ">" with
    | [a, b] =>
      (match a.splitOn ":", b.splitOn ":" with
       | [s1, e1], [s2, e2] =>
         (match s1.toNat?, e1.toNat?, s2.toNat?, e2.toNat? with
          | some a1, some a2, some b1, some b2 => some ((a1, b1), (a2, b2))
          | _, _, _, _ => none)
       | _, _ => none)
    | _ => none
  (toks.map (·.1), toks.map (·.2))

def assocNat (m : List (Nat × Nat)) (k : Nat) : Option Nat := (m.find? (fun e => e.1 == k)).map (·.2)

/-- the relocation a token map induces on locations: starts map with the token starts, ends with the
token ends (an empty range sits at a token boundary of either kind) -/
def relocate (starts ends : List (Nat × Nat)) (l : Loc) : Option Loc :=
  if l.start == l.stop then
    -- an empty range sits between two tokens: (end of the previous one, start of the next one)
    match (assocNat ends l.start).orElse (fun _ => assocNat starts l.start),
          (assocNat starts l.stop).orElse (fun _ => assocNat ends l.stop) with
    | some s', some e' => some ⟨l.fileNo, s', e'⟩
    | _, _ => none
  else
    match (assocNat starts l.start).orElse (fun _ => assocNat ends l.start),
          (assocNat ends l.stop).orElse (fun _ => assocNat starts l.stop) with
    | some s', some e' => some ⟨l.fileNo, s', e'⟩
    | _, _ => none

def lookup {α : Type} (m : List (String × α)) (k : String) : Option α := (m.find? (fun e => e.1 == k)).map (·.2)

end Solstat
