import Solstat.Tree
import Solstat.Gen.WalkEdges
import Solstat.Gen.Targets
/-!
# Model of `walk_node_for_targets`

The Rust walker is a ~100-arm `match` that, per node variant, recurses into some of the node-typed
fields.  Which fields it recurses into is *data*: the translator (`harness/src/bin/extract`)
symbolically executes every arm and emits `Gen.visited`, the list of context paths at which the
code recurses.  The schema gives `Gen.allEdges`, every context path that leads to a node-typed
field.  The model below walks the generic tree and refuses to descend through a context path in
`blocked` (= edges the code never visits).  It is faithful to the Rust for any `blocked` provided
the code visits edges in declaration order, at most once each (`orderOk`, `visitedNodup`), and the
translator left no residue.
-/
namespace Solstat
open Solstat.Gen

abbrev CtxPath := List (Tag × Nat)

/-- all elements of a `Vec` sit behind the same edge -/
def normIdx (tag : Tag) (i : Nat) : Nat := if tag = .Vec then 0 else i

mutual
/-- `ctx` is the reversed context path from the nearest enclosing node down to this term -/
def walkT (blocked : List CtxPath) (ts : Tag → Bool) (ctx : CtxPath) : T → List T
  | .node tag kids =>
    if isNodeTag tag then
      if blocked.contains ctx.reverse then []
      else
        (if ts tag then [.node tag kids] else []) ++
        (if tag = .Statement_Assembly then [] else walkL blocked ts [] tag 0 kids)
    else walkL blocked ts ctx tag 0 kids
  | _ => []
def walkL (blocked : List CtxPath) (ts : Tag → Bool) (ctx : CtxPath) (tag : Tag) (i : Nat) : List T → List T
  | [] => []
  | k :: ks => walkT blocked ts ((tag, normIdx tag i) :: ctx) k ++ walkL blocked ts ctx tag (i + 1) ks
end

namespace Gen
/-- edges of the schema the code never recurses into -/
def blocked : List CtxPath := allEdges.filter (fun e => !visited.contains e)
/-- recursion sites of the code that are not edges of the schema (must be empty) -/
def extraVisited : List CtxPath := visited.filter (fun e => !allEdges.contains e)
/-- no edge is visited twice -/
def visitedNodup : Bool := decide visited.Nodup
/-- per node variant, the code recurses in declaration order -/
def orderOk : Bool :=
  nodeTags.all fun tag =>
    (visited.filter (fun e => e.head?.map (·.1) == some tag)).isSublist
      (allEdges.filter (fun e => e.head?.map (·.1) == some tag))
/-- nothing that is a node can sit below an inline-assembly statement (so the model's explicit stop there is vacuous for the code) -/
def assemblyLeaf : Bool := allEdges.all (fun e => e.head?.map (·.1) != some Tag.Statement_Assembly)
end Gen

/-- `extract_targets_from_node(targets, root)` -/
def extractTargets (blocked : List CtxPath) (targets : List Target) (root : T) : List T :=
  walkT blocked (fun tag => targets.contains (kindOf tag)) [] root

/-- `extract_target_from_node(target, root)` -/
def extractTarget (blocked : List CtxPath) (target : Target) (root : T) : List T :=
  extractTargets blocked [target] root

/-- the walker of the current source tree -/
def extract (targets : List Target) (root : T) : List T := extractTargets Gen.blocked targets root

/-- membership test a target set induces on terms -/
def hasKind (ts : Tag → Bool) : T → Bool
  | .node tag _ => ts tag
  | _ => false

end Solstat
