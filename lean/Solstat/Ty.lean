/-! Field types of solang-parser's parse tree, as used by the generated schema. -/
namespace Solstat

inductive Ty
  | named (n : String)
  | vec (e : Ty)
  | opt (e : Ty)
  | tuple (es : List Ty)
  | str
  | bool
  | num
deriving Repr, Inhabited

end Solstat
