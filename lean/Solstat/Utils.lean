import Solstat.Walk
import Solstat.Gen.TypeSize
/-!
# Model of `src/analyzer/utils.rs`

`get_line_number`, `storage_slots_used`, `get_type_size`, the version regex and
`get_solidity_version_from_source_unit`, `get_32_byte_storage_variables`.
Hand-written; tied to the code by the correspondence check (and `typeSizeOfTag` by the translator).
-/
namespace Solstat
open Solstat.Gen

/-! ## offset → line -/

/-- ascending positions of the line-feed byte, starting the count at `base` -/
def lfPositionsFrom : Nat → List UInt8 → List Nat
  | _, [] => []
  | base, b :: bs => if b = 10 then base :: lfPositionsFrom (base + 1) bs else lfPositionsFrom (base + 1) bs

def lfPositions (bs : List UInt8) : List Nat := lfPositionsFrom 0 bs

/-- the loop of `get_line_number`: `i` counts line feeds at positions `≤ off`; the first one beyond
`off` ends the search; running out of line feeds returns the running count -/
def lineLoop (off : Nat) : List Nat → Nat → Nat
  | [], i => i
  | p :: ps, i => if p > off then i else lineLoop off ps (i + 1)

/-- `get_line_number(off, text)` -/
def lineOf (bs : List UInt8) (off : Nat) : Nat := lineLoop off (lfPositions bs) 1

/-- specification: number of line feeds in a byte string -/
def countLF : List UInt8 → Nat
  | [] => 0
  | b :: bs => (if b = 10 then 1 else 0) + countLF bs

/-! ## storage slots -/

/-- loop state of `storage_slots_used`: (bits used in the current slot, slots closed so far) -/
def slotsStep (st : Nat × Nat) (size : Nat) : Nat × Nat :=
  if st.1 + size > 256 then (size, st.2 + 1) else (st.1 + size, st.2)

def slotsUsed (sizes : List Nat) : Nat :=
  let st := sizes.foldl slotsStep (0, 0)
  if st.1 > 0 then st.2 + 1 else st.2

/-! ## type sizes -/

/-- `get_type_size(expression)` -/
def typeSize : T → Nat
  | .node .Expression_Type [_, .node tag (.nat n :: _)] => typeSizeOfTag tag n
  | .node .Expression_Type [_, .node tag _] => typeSizeOfTag tag 0
  | _ => typeSizeNonType

/-! ## version regex `\d+\.\d+\.+\d+` -/

def isDigitC (c : Char) : Bool := '0' ≤ c && c ≤ '9'

def spanDigits : List Char → List Char × List Char
  | [] => ([], [])
  | c :: cs => if isDigitC c then let (d, r) := spanDigits cs; (c :: d, r) else ([], c :: cs)

def spanDots : List Char → List Char × List Char
  | [] => ([], [])
  | c :: cs => if c = '.' then let (d, r) := spanDots cs; (c :: d, r) else ([], c :: cs)

/-- a match of the regex anchored at the head of the string: (matched text, rest) -/
def matchVersionAt (s : List Char) : Option (List Char × List Char) :=
  match spanDigits s with
  | ([], _) => none
  | (d1, '.' :: r1) =>
    match spanDigits r1 with
    | ([], _) => none
    | (d2, r2) =>
      match spanDots r2 with
      | ([], _) => none
      | (dots, r3) =>
        match spanDigits r3 with
        | ([], _) => none
        | (d3, r4) => some (d1 ++ '.' :: d2 ++ dots ++ d3, r4)
  | _ => none

/-- leftmost-first, non-overlapping scan keeping the last match (`fuel ≥ s.length` suffices) -/
def lastVersionMatch : Nat → List Char → Option (List Char) → Option (List Char)
  | 0, _, acc => acc
  | _, [], acc => acc
  | fuel + 1, c :: cs, acc =>
    match matchVersionAt (c :: cs) with
    | some (m, rest) => lastVersionMatch fuel rest (some m)
    | none => lastVersionMatch fuel cs acc

/-- Rust's `str::split(".")` on a character list -/
def splitDots : List Char → List (List Char)
  | [] => [[]]
  | c :: cs =>
    match splitDots cs with
    | [] => [[]]
    | h :: t => if c = '.' then [] :: h :: t else (c :: h) :: t

/-- `get_solidity_major_minor_patch_version` -/
def versionPieces (s : List Char) : List (List Char) :=
  match lastVersionMatch s.length s none with
  | some m => splitDots m
  | none => [['0'], ['0'], ['0']]

def digitsVal : List Char → Nat → Nat
  | [], acc => acc
  | c :: cs, acc => digitsVal cs (acc * 10 + (c.toNat - 48))

/-- `str::parse::<i32>()` restricted to the strings the regex can produce (digits only, possibly empty) -/
def parseI32 (s : List Char) : Option Nat :=
  if s.isEmpty then none
  else if s.all isDigitC then
    let v := digitsVal s 0
    if v < 2147483648 then some v else none
  else none

/-- version triple of a pragma value; `none` when a component does not parse or there are not three -/
def versionOfValue (s : List Char) : Option (Nat × Nat × Nat) :=
  match (versionPieces s).map parseI32 with
  | [some a, some b, some c] => some (a, b, c)
  | _ => none

/-! ## AST helpers shared by the detectors -/

def identName : T → Option String
  | .node .S_Identifier [_, .str n] => some n
  | _ => none

/-- `Expression::Variable(Identifier { name, .. })` -/
def varName : T → Option String
  | .node .Expression_Variable [id] => identName id
  | _ => none

def vecItems : T → List T
  | .node .Vec xs => xs
  | _ => []

def optItem : T → Option T
  | .node .Some [x] => some x
  | _ => none

/-- the top-level parts of a source unit -/
def sourceUnitParts : T → List T
  | .node .S_SourceUnit [v] => vecItems v
  | _ => []

/-- the value of a `pragma solidity` directive -/
def solidityPragmaOf : T → Option String
  | .node .SourceUnitPart_PragmaDirective [_, id, .node .S_StringLiteral [_, _, .str v]] =>
    if identName id = some "solidity" then some v else none
  | _ => none

/-- values of the `pragma solidity` directives, in source order -/
def solidityPragmas (su : T) : List String := (extract [.PragmaDirective] su).filterMap solidityPragmaOf

/-- `get_solidity_version_from_source_unit`: the first `pragma solidity` directive decides -/
def versionOf (su : T) : Option (Nat × Nat × Nat) :=
  match solidityPragmas su with
  | v :: _ => versionOfValue v.toList
  | [] => none

def verLt (a b : Nat × Nat × Nat) : Bool :=
  a.1 < b.1 || (a.1 = b.1 && (a.2.1 < b.2.1 || (a.2.1 = b.2.1 && a.2.2 < b.2.2)))

/-- entries of `get_32_byte_storage_variables`: (name, attrs, loc of the type expression), in declaration order -/
def storageVarEntries (ignoreConst ignoreImmut : Bool) (su : T) : List (String × List T × T) :=
  (extract [.ContractDefinition] su).flatMap fun c =>
    match c with
    | .node .SourceUnitPart_ContractDefinition [.node .S_ContractDefinition [_, _, _, _, parts]] =>
      (vecItems parts).filterMap fun part =>
        match part with
        | .node .ContractPart_VariableDefinition [.node .S_VariableDefinition [_, ty, attrs, name, _]] =>
          let as := vecItems attrs
          let isConst := as.any (fun a => a.tag? == some .VariableAttribute_Constant)
          let isImmut := as.any (fun a => a.tag? == some .VariableAttribute_Immutable)
          if (ignoreConst && isConst) || (ignoreImmut && isImmut) then none
          else
            match ty, identName name with
            | .node .Expression_Type [loc, tyv], some n =>
              if tyv.tag? == some .Type_Mapping then none else some (n, as, loc)
            | _, _ => none
        | _ => none
    | _ => []

/-- the `HashMap<String, _>` built from the entries: last insert wins -/
def assocInsert {β : Type} (m : List (String × β)) (k : String) (v : β) : List (String × β) :=
  (m.filter (fun e => e.1 ≠ k)) ++ [(k, v)]

def assocRemove {β : Type} (m : List (String × β)) (k : String) : List (String × β) :=
  m.filter (fun e => e.1 ≠ k)

def assocHas {β : Type} (m : List (String × β)) (k : String) : Bool := m.any (fun e => e.1 = k)

def assocGet {β : Type} (m : List (String × β)) (k : String) : Option β := (m.find? (fun e => e.1 = k)).map (·.2)

def storageVarTable (ignoreConst ignoreImmut : Bool) (su : T) : List (String × List T × T) :=
  (storageVarEntries ignoreConst ignoreImmut su).foldl (fun m e => assocInsert m e.1 e.2) []

end Solstat
