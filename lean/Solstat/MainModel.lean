import Solstat.Main
import Solstat.Dir
/-!
# `main`, assembled: options → three directory analyses → one report

`run` (Solstat/Main.lean) takes the analysis as a parameter.  This file instantiates it with the model of what
`main` actually does: resolve the options, run `analyze_dir` of the three categories on the selected directory,
hand the three maps to `generate_report`.  The per-file analyses `gV gO gQ` (parser + detector + line conversion:
the business of C01–C10) and the directory listing `tree` are parameters.
-/
namespace Solstat

/-- the keys of a map built from a list of patterns: each pattern once -/
def dedupKeys {P : Type} [DecidableEq P] : List P → List P
  | [] => []
  | p :: ps => p :: (dedupKeys ps).filter (fun q => q ≠ p)

/-- a `HashMap<Pattern, Vec<(file, lines)>>`: only patterns with at least one file have an entry -/
def mapOf {P : Type} [DecidableEq P] (ps : List P) (m : FMap P) : Findings P :=
  (dedupKeys ps).filterMap fun p => if (m p).isEmpty then none else some (p, m p)

/-- the analysis part of `main` -/
def analyseAll (gV : List UInt8 → Nat → Gen.Vulnerability → List Nat) (gO : List UInt8 → Nat → Gen.Optimization → List Nat)
    (gQ : List UInt8 → Nat → Gen.QualityAssurance → List Nat) (tree : String → Option (List Entry)) (o : Opts) :
    Except String (List Line) :=
  match tree o.path with
  | none => .error "cannot list the directory"
  | some es =>
    match analyzeDir gV o.vulnerabilities es with
    | .error e => .error e
    | .ok mv =>
      match analyzeDir gO o.optimizations es with
      | .error e => .error e
      | .ok mo =>
        match analyzeDir gQ o.qa es with
        | .error e => .error e
        | .ok mq =>
          .ok (fullReport vulnCategory optCategory qaCategory (mapOf o.vulnerabilities mv) (mapOf o.optimizations mo) (mapOf o.qa mq))

/-- `main` -/
def mainModel (gV : List UInt8 → Nat → Gen.Vulnerability → List Nat) (gO : List UInt8 → Nat → Gen.Optimization → List Nat)
    (gQ : List UInt8 → Nat → Gen.QualityAssurance → List Nat) (tree : String → Option (List Entry))
    (w : World) (cwd : String) (args : CliArgs) (contractsDirExists : Bool) : World × Bool :=
  run (fun _ o => analyseAll gV gO gQ tree o) w cwd args contractsDirExists

end Solstat
