import Solstat.Gen.Schema
/-!
# Generic parse trees

A solang-parser parse tree is represented as a generic term: an enum variant or a struct is a
`node` carrying a tag generated from `pt.rs` (variants qualified by their enum) and its fields in
declaration order; `Vec`, `Option` and tuples are nodes tagged `Vec`, `Some`/`None`, `Tuple`;
`Box` is transparent; strings, integers and booleans are atoms.
-/
namespace Solstat
open Solstat.Gen

inductive T
  | node (tag : Tag) (kids : List T)
  | str (s : String)
  | nat (n : Nat)
  | bool (b : Bool)
deriving Repr, Inhabited

mutual
def T.decEq : (a b : T) → Decidable (a = b)
  | .node t1 k1, .node t2 k2 =>
    if h : t1 = t2 then
      match T.decEqL k1 k2 with
      | isTrue hk => isTrue (by rw [h, hk])
      | isFalse hk => isFalse (by intro h'; cases h'; exact hk rfl)
    else isFalse (by intro h'; cases h'; exact h rfl)
  | .str a, .str b =>
    if h : a = b then isTrue (by rw [h]) else isFalse (by intro h'; cases h'; exact h rfl)
  | .nat a, .nat b =>
    if h : a = b then isTrue (by rw [h]) else isFalse (by intro h'; cases h'; exact h rfl)
  | .bool a, .bool b =>
    if h : a = b then isTrue (by rw [h]) else isFalse (by intro h'; cases h'; exact h rfl)
  | .node .., .str .. => isFalse (by intro h; cases h)
  | .node .., .nat .. => isFalse (by intro h; cases h)
  | .node .., .bool .. => isFalse (by intro h; cases h)
  | .str .., .node .. => isFalse (by intro h; cases h)
  | .str .., .nat .. => isFalse (by intro h; cases h)
  | .str .., .bool .. => isFalse (by intro h; cases h)
  | .nat .., .node .. => isFalse (by intro h; cases h)
  | .nat .., .str .. => isFalse (by intro h; cases h)
  | .nat .., .bool .. => isFalse (by intro h; cases h)
  | .bool .., .node .. => isFalse (by intro h; cases h)
  | .bool .., .str .. => isFalse (by intro h; cases h)
  | .bool .., .nat .. => isFalse (by intro h; cases h)
def T.decEqL : (a b : List T) → Decidable (a = b)
  | [], [] => isTrue rfl
  | a :: as, b :: bs =>
    match T.decEq a b, T.decEqL as bs with
    | isTrue h1, isTrue h2 => isTrue (by rw [h1, h2])
    | isFalse h1, _ => isFalse (by intro h'; cases h'; exact h1 rfl)
    | _, isFalse h2 => isFalse (by intro h'; cases h'; exact h2 rfl)
  | [], _ :: _ => isFalse (by intro h; cases h)
  | _ :: _, [] => isFalse (by intro h; cases h)
end

instance : DecidableEq T := T.decEq

namespace T

def tag? : T → Option Tag
  | .node t _ => some t
  | _ => none

def kids : T → List T
  | .node _ ks => ks
  | _ => []

/-- is this term one of the five kinds of `Node` solstat's walker works on -/
def isNode : T → Bool
  | .node t _ => isNodeTag t
  | _ => false

mutual
/-- all sub-terms, pre-order, fields in declaration order -/
def subtrees : T → List T
  | .node tag ks => .node tag ks :: subtreesL ks
  | t => [t]
def subtreesL : List T → List T
  | [] => []
  | k :: ks => subtrees k ++ subtreesL ks
end

mutual
/-- all sub-terms, pre-order, not descending below an inline-assembly statement -/
def subtreesNoAsm : T → List T
  | .node tag ks =>
    .node tag ks :: (if tag = .Statement_Assembly then [] else subtreesNoAsmL ks)
  | t => [t]
def subtreesNoAsmL : List T → List T
  | [] => []
  | k :: ks => subtreesNoAsm k ++ subtreesNoAsmL ks
end

/-- the nodes of a tree, in source (pre-)order, outside inline assembly -/
def allNodes (root : T) : List T := (subtreesNoAsm root).filter isNode

mutual
def size : T → Nat
  | .node _ ks => 1 + sizeL ks
  | _ => 1
def sizeL : List T → Nat
  | [] => 0
  | k :: ks => size k + sizeL ks
end

end T

/-- a source location `Loc::File(file_no, start, end)`; other `Loc` variants never come out of the parser -/
structure Loc where
  fileNo : Nat
  start : Nat
  stop : Nat
deriving Repr, Inhabited, DecidableEq

def Loc.ofT : T → Option Loc
  | .node .Loc_File [.nat f, .nat s, .nat e] => some ⟨f, s, e⟩
  | _ => none

def Loc.toT (l : Loc) : T := .node .Loc_File [.nat l.fileNo, .nat l.start, .nat l.stop]

end Solstat
