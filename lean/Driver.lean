import Solstat.Check
import Solstat.Analyze
import Solstat.Dir
import Solstat.Report
import Solstat.Opts
open Solstat Solstat.Gen

def splitTabs (s : String) : List String := s.splitOn "\t"

def truncate {α : Type} (n : Nat) (xs : List α) : List α := xs.take n

def handleWalk (st : St) (rid targets impl : String) : Verdict :=
  match lookup st.roots rid with
  | none => { kind := "WALK", agree := "E", detail := s!"unknown root {rid}" }
  | some root =>
    let names := targets.splitOn ","
    let ts := names.filterMap targetOfName
    if ts.length != names.length then { kind := "WALK", agree := "E", detail := "unknown target name" }
    else
      let model := fmtSeq (extract ts root)
      let spec := fmtSeq (specExtract ts root)
      { kind := "WALK", group := (root.tag?.map Tag.name).getD "?",
        agree := if model == impl then "A" else "D",
        oracle := if spec == impl then "ok" else "VIOL",
        detail := if model == impl && spec == impl then "" else s!"model={model}|spec={spec}|impl={impl}" }

def handleLine (hexText off impl : String) : Verdict :=
  let bs := unhex hexText.toList
  match off.toNat? with
  | none => { kind := "LINE", agree := "E" }
  | some o =>
    let model := toString (lineOf bs o)
    let inDomain := o < bs.length && bs[o]? != some 10
    let spec := toString (specLine bs o)
    { kind := "LINE", agree := if model == impl then "A" else "D",
      oracle := if !inDomain then "na" else if spec == impl then "ok" else "VIOL",
      detail := if model == impl then "" else s!"model={model}|spec={spec}|impl={impl}" }

def handleSlots (sizes impl : String) : Verdict :=
  let xs := (sizes.splitOn ",").filterMap String.toNat?
  let model := toString (slotsUsed xs)
  let inDomain := xs.all (fun x => 1 ≤ x && x ≤ 256)
  let spec := toString (slotsOfLayout xs)
  { kind := "SLOTS", agree := if model == impl then "A" else "D",
    oracle := if !inDomain then "na" else if spec == impl then "ok" else "VIOL",
    detail := if model == impl && (spec == impl || !inDomain) then "" else s!"model={model}|spec={spec}|impl={impl}" }

def handleTysz (dbg impl : String) : Verdict :=
  match decodeAs "Expression" dbg with
  | .error e => { kind := "TYSZ", agree := "E", detail := e }
  | .ok t =>
    let model := toString (typeSize t)
    let spec := toString (specTypeSize t)
    { kind := "TYSZ", agree := if model == impl then "A" else "D",
      oracle := if spec == impl then "ok" else "VIOL",
      detail := if model == impl && spec == impl then "" else s!"model={model}|spec={spec}|impl={impl}" }

/-- `op ++ a.b.c` with plain decimal components: the strings the C09 table quantifies over -/
def plainVersion? (s : List Char) : Option (List (List Char)) :=
  let ops : List (List Char) := [">=".toList, "^".toList, "~".toList, "=".toList, ">".toList, []]
  ops.findSome? fun op =>
    if isPrefixC op s then
      let rest := s.drop op.length
      let pieces := splitDots rest
      if pieces.length == 3 && pieces.all (fun p => !p.isEmpty && p.all isDigitC) then some pieces else none
    else none

def handleVer (hexVal impl : String) : Verdict :=
  let bs := unhex hexVal.toList
  let s := (bytesToString bs).toList
  let ascii := bs.all (fun b => b < 128)
  let model := "|".intercalate ((versionPieces s).map String.ofList)
  let oracle :=
    match plainVersion? s with
    | some pieces => if "|".intercalate (pieces.map String.ofList) == impl then "ok" else "VIOL"
    | none => "na"
  { kind := "VER", agree := if !ascii then "na" else if model == impl then "A" else "D", oracle := oracle,
    detail := if model == impl || !ascii then "" else s!"model={model}|impl={impl}" }

/-- the version regex is modelled on ASCII input only (`\\d` of the regex crate also matches other
Unicode decimal digits): a `pragma solidity` value with a non-ASCII character is outside the model -/
def pragmaNonAscii (tree : T) : Bool :=
  (sourceUnitParts tree).any fun p =>
    match p with
    | .node .SourceUnitPart_PragmaDirective [_, _, .node .S_StringLiteral [_, _, .str v]] => v.toList.any (fun c => c.toNat ≥ 128)
    | _ => false

def versionGated : List String :=
  ["safe_math_pre_080_optimization", "safe_math_post_080_optimization", "string_error_optimization", "short_revert_string_optimization"]

def handleDet (st : St) (fid det impl : String) : Verdict :=
  match lookup st.files fid, detectorByName det with
  | some f, some d =>
    let model := fmtLocs (canonLocs (d f.tree))
    if versionGated.contains det && pragmaNonAscii f.tree then
      { kind := "DET", group := det, agree := "na", oracle := if impl == "PANIC" then "VIOL" else "na", detail := "non-ASCII pragma value: outside the model's domain" }
    else
    let (oracle, why) : String × String :=
      if impl == "PANIC" then ("VIOL", "panic")
      else
        match nodeSpecOf det, parseLocs impl with
        | none, some locs =>
          if det == "divide_before_multiply_vulnerability" then
            (match dbmOracleOn f.tree locs with | none => ("ok", "") | some w => ("VIOL", w))
          else if det == "unprotected_selfdestruct_vulnerability" then
            (match selfdestructOracleOn f.tree locs with | none => ("ok", "") | some w => ("VIOL", w))
          else if det == "constant_variable_optimization" || det == "sstore_optimization" then
            if !stateNamesUnique f.tree then ("na", "state-variable names not unique / shadowed")
            else
              let want := canonLocs ((if det == "sstore_optimization" then expectedSstore else expectedConstant) f.tree)
              if want == locs then ("ok", "") else ("VIOL", s!"expected {fmtLocs want}")
          else if det == "immutable_variables_optimization" then
            if !stateNamesUnique f.tree then ("na", "state-variable names not unique / shadowed")
            else
              (match immutableOracle f.tree locs with
               | .ok => ("ok", "")
               | .unsound w => ("VIOL", w)
               | .missedK1 n => ("VIOL", s!"K1: value-typed `{n}` assigned in a constructor only from string/abi.*/bytes(..)-shaped right-hand sides is not suggested")
               | .missed n => ("VIOL", s!"value-typed `{n}` assigned in a constructor and unwritten elsewhere is not suggested"))
          else if det == "pack_storage_variables_optimization" || det == "pack_struct_variables_optimization" then
            (match packOracleOn (det == "pack_struct_variables_optimization") f.tree (locs.map fun (s, e) => ⟨0, s, e⟩) with
             | none => ("ok", "") | some w => ("VIOL", w))
          else if det == "memory_to_calldata_optimization" then
            (match memoryToCalldataOracle f.tree locs with | none => ("ok", "") | some w => ("VIOL", w))
          else if versionGated.contains det then
            (match expectedVersionGated det f.tree with
             | some e =>
               let want := canonLocs e
               if want == locs then ("ok", "") else ("VIOL", s!"expected {fmtLocs want}")
             | none => ("na", "not a single full version"))
          else
            match expectedSetOf det with
            | some e =>
              let want := canonLocs (e f.tree)
              if want == locs then ("ok", "") else ("VIOL", s!"expected {fmtLocs want}")
            | none => ("na", "")
        | some s, some locs =>
          if det == "increment_decrement_optimization" && !incDecLocsDistinct f.tree then ("na", "hypothesis IncDecLocsDistinct fails")
          else
            match nodeSpecOracle s f.tree locs with
            | none => ("ok", "")
            | some w => ("VIOL", w)
        | _, _ => ("na", "")
    { kind := "DET", group := det, agree := if model == impl then "A" else "D",
      oracle := oracle,
      detail := if model == impl && oracle != "VIOL" then (if why == "" then "" else why) else s!"{why}|model={model}|impl={impl}" }
  | _, _ => { kind := "DET", group := det, agree := "E", detail := "unknown file or detector" }

def handleLines (st : St) (fid cat variant impl : String) : Verdict :=
  match lookup st.files fid, dispatchOf cat variant with
  | some f, some det =>
    -- the per-file entry point is checked on the implementation's own detector output (the detectors
    -- themselves are the business of C04-C10): lines = set of lineOf(start) over the flagged locations
    match (st.detImpl.find? (fun e => e.1 == (fid, det))).map (·.2) with
    | some locsText =>
      match parseLocs locsText with
      | some locs =>
        if impl == "PANIC" then { kind := "LINES", group := variant, agree := "D", oracle := "VIOL", detail := "panic: entry point panics although its detector does not" }
        else
          let model := fmtNats (lineSet (locs.map (fun l => lineOf f.src l.1)))
          let spec := fmtNats (canonNats (locs.map (fun l => specLine f.src l.1)))
          { kind := "LINES", group := variant, agree := if model == impl then "A" else "D",
            oracle := if spec == impl then "ok" else "VIOL",
            detail := if model == impl && spec == impl then "" else s!"model={model}|spec={spec}|impl={impl}|locs={locsText}" }
      | none => { kind := "LINES", group := variant, agree := "na", oracle := if impl == "PANIC" then "VIOL" else "na", detail := "panic: detector panics" }
    | none => { kind := "LINES", group := variant, agree := "E", detail := s!"no DET observation for {det}" }
  | _, _ => { kind := "LINES", group := variant, agree := "E", detail := "unknown file or variant" }

def handleDir (cat patterns treeEnc gtab impl : String) : Verdict :=
  let ps := (patterns.splitOn ",").filter (· != "")
  let (entries, _) := parseEntries treeEnc.toList []
  let table := parseGTable gtab
  let anyGPanic := table.any (fun r => r.2.any (fun kv => kv.2.isNone))
  let g : List UInt8 → Nat → String → List Nat := fun bytes _ p =>
    match lookup table (bytesToString bytes) with
    | some row => (match lookup row p with | some (some ls) => ls | _ => [])
    | none => []
  let allNames : List String := match table.head? with
    | some r => r.2.map (·.1)
    | none => ps
  let implMap := if impl == "PANIC" then none else some (parseDirResult impl)
  let model := analyzeDir g ps entries
  let render (m : String → List (String × List Nat)) : String :=
    ",".intercalate ((allNames.filter (fun p => !(m p).isEmpty)).map fun p =>
      p ++ "=" ++ "|".intercalate ((m p).map fun (f, ls) => f ++ ":" ++ fmtNats ls))
  let implFn : String → List (String × List Nat) := fun p => match implMap with
    | some m => (lookup m p).getD []
    | none => []
  let (agree, mtext) : String × String :=
    if anyGPanic then ("na", "per-file analysis panics")
    else
      match model, implMap with
      | .ok m, some _ => (if render m == render implFn then "A" else "D", render m)
      | .error _, none => ("A", "error")
      | .ok m, none => ("D", render m)
      | .error e, some _ => ("D", "error: " ++ e)
  -- oracle (C03, C16): the union of the per-file results over the eligible files, as multisets
  let oracle : String × String :=
    if anyGPanic then ("na", "") else
    match implMap with
    | none =>
      -- a failing run is legitimate only if an eligible file cannot be read
      (match expectedDir (fun b p => g b 0 p) ps entries "" with
       | none => ("ok", "")
       | some _ => ("VIOL", "eligibility: the run fails although every eligible file is readable"))
    | some im =>
      let bad := (allNames ++ im.map (·.1)).filter fun p =>
        match expectedDir (fun b p => g b 0 p) ps entries p with
        | some want => sortPairs want != sortPairs (implFn p)
        | none => true
      -- which clause fails: eligibility (C16) = a reported name that is no eligible file of the tree, or an eligible file
      -- with findings for a selected pattern that is not reported under it at all; otherwise the union itself (C03, C15)
      let eligible := eligibleContentsSpec entries
      let strayName := (im.flatMap fun e => e.2.map (·.1)).find? fun f => !(eligible.any fun e => e.1 == f)
      let unanalysed := eligible.find? fun e =>
        match e.2 with
        | some bytes => ps.any fun p => !(g bytes 0 p).isEmpty && !((implFn p).any fun fl => fl.1 == e.1)
        | none => false
      match bad with
      | [] => ("ok", "")
      | p :: _ =>
        let cls := match strayName, unanalysed with
          | some f, _ => s!"eligibility: `{f}` is reported but is not an eligible file of the tree; "
          | none, some e => s!"eligibility: eligible file `{e.1}` has findings but is not reported; "
          | none, none => "union: "
        ("VIOL", s!"{cls}pattern {p}: expected {repr (expectedDir (fun b p => g b 0 p) ps entries p)} got {repr (implFn p)}")
  { kind := "DIR", group := cat, agree := agree, oracle := oracle.1,
    detail := if agree != "D" && oracle.1 != "VIOL" then "" else s!"{oracle.2}|model={mtext}|impl={impl}" }

/-- the oracle on one category part of a report (C11, C12): entries read back = findings; totals; headings -/
def reportOracle (cat : String) (names : List (String × Files)) (lines : List String) : Option String :=
  let rb := readBack allSignatures lines
  let want : List (String × String × Nat) := names.flatMap fun (p, fs) => fs.flatMap fun (f, ls) => ls.map fun l => (p, f, l)
  let key (t : String × String × Nat) : String := t.1 ++ "\t" ++ t.2.1 ++ "\t" ++ toString t.2.2
  let sortS (xs : List String) : List String := (xs.toArray.qsort (· < ·)).toList
  let withFindings := (names.filter (fun e => e.2.any (fun fl => !fl.2.isEmpty))).map (·.1)
  if !rb.malformed.isEmpty then some s!"malformed list line: {rb.malformed.head!}"
  else if sortS (rb.out.map key) != sortS (want.map key) then some s!"entries read back differ from the findings: {repr rb.out}"
  else if sortS rb.sectionsSeen.eraseDups != sortS withFindings.eraseDups then some s!"sections present {rb.sectionsSeen} but patterns with findings {withFindings}"
  else
    let total := if cat == "opt" then overviewTotal Gen.sec_opt_overview_linePre Gen.sec_opt_overview_linePost lines
                 else if cat == "vuln" then overviewTotal Gen.sec_vuln_overview_linePre Gen.sec_vuln_overview_linePost lines
                 else some (countEntryLines lines)
    if total != some (countEntryLines lines) then some s!"overview total {repr total} but {countEntryLines lines} entries listed"
    else if cat == "vuln" then
      let sevOf (p : String) : Gen.Severity := match vulnOfName p with | some v => severityOf v | none => .Low
      let has (sv : Gen.Severity) : Bool := withFindings.any (fun p => sevOf p == sv)
      let bad := [("## High Risk", Gen.Severity.High), ("## Medium Risk", .Medium), ("## Low Risk", .Low)].filter fun (h, sv) =>
        lines.contains h != has sv
      match bad with
      | [] => none
      | (h, _) :: _ => some s!"heading `{h}` printed iff-mismatch"
    else none

def handleRender (cat enc implHex same : String) : Verdict :=
  if implHex == "PANIC" then { kind := "RENDER", group := cat, agree := "D", oracle := "VIOL", detail := "panic" } else
  let implLines := reportLinesOfHex implHex
  let (modelLines, names) : List String × List (String × Files) :=
    if cat == "opt" then
      let F := decodeFindings optOfName enc
      ((optimizationReport optCategory F).map Line.render, F.map fun e => (e.1.name, e.2))
    else if cat == "vuln" then
      let F := decodeFindings vulnOfName enc
      ((vulnerabilityReport vulnCategory F).map Line.render, F.map fun e => (e.1.name, e.2))
    else
      let F := decodeFindings qaOfName enc
      ((qaReport qaCategory F).map Line.render, F.map fun e => (e.1.name, e.2))
  let orc := reportOracle cat names implLines
  let firstDiff := ((modelLines.zip implLines).find? (fun p => p.1 != p.2)).map (fun p => s!"model `{p.1}` impl `{p.2}`")
  { kind := "RENDER", group := cat, agree := if modelLines == implLines then "A" else "D",
    oracle := if same != "same" then "VIOL" else match orc with | none => "ok" | some _ => "VIOL",
    detail := if same != "same" then "order: the same findings inserted in another order render differently"
              else match orc with
                | some w => w
                | none => if modelLines == implLines then "" else s!"first difference: {firstDiff.getD "length"} ({modelLines.length} vs {implLines.length} lines)" }

def handleFull (v o q implHex : String) : Verdict :=
  if implHex == "PANIC" || implHex == "MISSING" then { kind := "FULLREPORT", agree := "D", oracle := "VIOL", detail := implHex } else
  let implLines := reportLinesOfHex implHex
  let V := decodeFindings vulnOfName v
  let O := decodeFindings optOfName o
  let Q := decodeFindings qaOfName q
  let modelLines := (fullReport vulnCategory optCategory qaCategory V O Q).map Line.render
  -- oracle (C12 part presence, C18 overwrite): a category part is present iff its map is non-empty; nothing of the stale report survives
  let hasV := implLines.any (fun l => l.startsWith Gen.sec_vuln_overview_linePre)
  let hasO := implLines.any (fun l => l.startsWith Gen.sec_opt_overview_linePre)
  let stale := implLines.contains "stale report of a previous run"
  let ok := hasV == !V.isEmpty && hasO == !O.isEmpty && !stale
  { kind := "FULLREPORT", agree := if modelLines == implLines then "A" else "D", oracle := if ok then "ok" else "VIOL",
    detail := if modelLines == implLines && ok then ""
              else if stale then "stale: text of the previous report survives in the new one"
              else s!"render: parts mismatch or model difference ({modelLines.length} vs {implLines.length} lines)" }

def optField (s : String) : Option String := if s == "-" then none else some (bytesToString (unhex s.toList))

def parseTomlEnc (s : String) : Option TomlCfg :=
  if s == "-" then none else
  let kv := (s.splitOn ";").filterMap fun f => match f.splitOn "=" with | [k, v] => some (k, v) | _ => none
  let lst (k : String) : List String := match lookup kv k with
    | some v => if v.isEmpty then [] else (v.splitOn ",").map (fun h => bytesToString (unhex (h.toList.drop 1)))   -- names are sent as `x<hex>` so that an empty name differs from an empty list
    | none => []
  some { path := (lookup kv "path").bind optField, optimizations := lst "opt", vulnerabilities := lst "vuln", qa := lst "qa" }

/-- process-level: command line + configuration ↦ exit status, analysed directory, analysed patterns -/
def handleResolve (cliPath tomlEnc contractsExists implExit implReport : String) : Verdict :=
  let args : CliArgs := { path := optField cliPath, toml := parseTomlEnc tomlEnc }
  match resolve args (contractsExists == "1") with
  | .error e =>
    let ok := implExit != "0" && implReport == "-"
    { kind := "RESOLVE", agree := if ok then "A" else "D", oracle := "na",
      detail := if ok then "" else s!"model: exits with failure ({e}); impl exit={implExit} report={if implReport == "-" then "absent" else "written"}" }
  | .ok o =>
    if implExit != "0" || implReport == "-" then
      { kind := "RESOLVE", agree := "D", oracle := "na", detail := s!"model: analyses {o.path}; impl exit={implExit}" }
    else
      let lines := reportLinesOfHex implReport
      let rb := readBack allSignatures lines
      let sortS (xs : List String) : List String := (xs.toArray.qsort (· < ·)).toList
      let seen := sortS rb.sectionsSeen.eraseDups
      let want := sortS ((o.optimizations.map (·.name)) ++ (o.vulnerabilities.map (·.name)) ++ (o.qa.map (·.name))).eraseDups
      let dirKey := ((o.path.splitOn "/").getLast?.getD "") ++ "_"
      let filesOk := rb.out.all (fun t => t.2.1.startsWith dirKey) && !rb.out.isEmpty
      -- oracle side: the listed names through the REVIEWED name table (not the regenerated one)
      let listed : Option (List String) := args.toml.map fun t => (t.optimizations ++ t.vulnerabilities ++ t.qa).map asciiLower
      let wantReviewed : List String := match listed with
        | some names => sortS (names.filterMap fun n => lookup reviewedNames n).eraseDups
        | none => want
      let ok := seen == want && seen == wantReviewed && (filesOk || want.isEmpty)
      -- the property in its own words: the sections of the report are exactly those of the listed (or default)
      -- patterns, and every entry comes from the selected directory (the fixture has findings for every pattern)
      { kind := "RESOLVE", agree := if ok then "A" else "D", oracle := if ok then "ok" else "VIOL",
        detail := if ok then "" else s!"configured: dir {o.path} patterns {want}; the report has sections {seen}; all entries from the configured dir: {filesOk}" }

def contextDependent : List String :=
  ["constant_variable_optimization", "sstore_optimization", "immutable_variables_optimization"]

def handleCompose (st : St) (idw partsEnc det implW implPs : String) : Verdict :=
  let partIds : List (Nat × String) := (partsEnc.splitOn ",").filterMap fun kv =>
    match kv.splitOn "=" with
    | i :: rest => (i.toNat?).map (·, "=".intercalate rest)
    | _ => none
  match lookup st.files idw, detectorByName det with
  | some fw, some d =>
    let wholeParts := sourceUnitParts fw.tree
    let partFiles := partIds.filterMap fun (i, id) => (lookup st.files id).map (i, ·)
    if partFiles.length != partIds.length then { kind := "COMPOSE", group := det, agree := "E", detail := "part file not registered" } else
    -- assumption about the parser: blanking the other items yields exactly `keep i`
    let shapeOk := partFiles.all fun (i, pf) => sourceUnitParts pf.tree == keepItems i wholeParts
    if !shapeOk then { kind := "COMPOSE", group := det, agree := "E", detail := "blanked file does not parse to keep i of the whole tree" } else
    let modelW := canonLocs (d fw.tree)
    let modelU := canonLocs (partFiles.flatMap fun (_, pf) => d pf.tree)
    let implParts := (implPs.splitOn "|").map parseLocs
    let inScope := det != "safe_math_pre_080_optimization" && det != "safe_math_post_080_optimization"
    let indep := !contextDependent.contains det || (itemsIndependent wholeParts && stateNamesUnique fw.tree)
    let oracle : String × String :=
      match parseLocs implW, implParts.all Option.isSome with
      | some w, true =>
        if !inScope then ("na", "SafeMath detectors are file-wide by design")
        else if !indep then ("na", "items mention each other's state variables")
        else if det == "increment_decrement_optimization" && !incDecLocsDistinct fw.tree then ("na", "hypothesis IncDecLocsDistinct fails")
        else
          let u := canonLocs ((implParts.filterMap id).flatten.map fun (s, e) => ⟨0, s, e⟩)
          if canonLocs (w.map fun (s, e) => ⟨0, s, e⟩) == u then ("ok", "") else ("VIOL", s!"whole={fmtLocs w} union of items={fmtLocs u}")
      | _, _ => ("VIOL", "panic")
    { kind := "COMPOSE", group := det,
      agree := if !inScope || !indep then "na" else if modelW == modelU then "A" else "D",
      oracle := oracle.1,
      detail := if oracle.1 == "VIOL" || (inScope && indep && modelW != modelU) then s!"{oracle.2}|model whole={fmtLocs modelW} model union={fmtLocs modelU}" else oracle.2 }
  | _, _ => { kind := "COMPOSE", group := det, agree := "E", detail := "unknown file or detector" }

/-- C19 on the lines the entry points report: whole file = union over the items -/
def handleComposeLines (st : St) (idw partsEnc cat variant implW implPs : String) : Verdict :=
  let partIds : List (Nat × String) := (partsEnc.splitOn ",").filterMap fun kv =>
    match kv.splitOn "=" with
    | i :: rest => (i.toNat?).map (·, "=".intercalate rest)
    | _ => none
  match lookup st.files idw, (dispatchOf cat variant).bind (fun det => (detectorByName det).map (det, ·)) with
  | some fw, some (det, d) =>
    let wholeParts := sourceUnitParts fw.tree
    let partFiles := partIds.filterMap fun (i, id) => (lookup st.files id).map (i, ·)
    if partFiles.length != partIds.length then { kind := "COMPOSELINES", group := det, agree := "E", detail := "part file not registered" } else
    let linesOf (f : FileRec) : List Nat := lineSet ((d f.tree).map fun l => lineOf f.src l.start)
    let modelW := linesOf fw
    let modelU := lineSet (partFiles.flatMap fun (_, pf) => linesOf pf)
    let inScope := det != "safe_math_pre_080_optimization" && det != "safe_math_post_080_optimization"
    let indep := !contextDependent.contains det || (itemsIndependent wholeParts && stateNamesUnique fw.tree)
    let parseLines (t : String) : Option (List Nat) :=
      if t == "PANIC" then none else some (((t.splitOn ";").filter (· != "")).filterMap String.toNat?)
    let implParts := (implPs.splitOn "|").map parseLines
    let oracle : String × String :=
      match parseLines implW, implParts.all Option.isSome with
      | some w, true =>
        if !inScope then ("na", "SafeMath detectors are file-wide by design")
        else if !indep then ("na", "items mention each other's state variables")
        else if det == "increment_decrement_optimization" && !incDecLocsDistinct fw.tree then ("na", "hypothesis IncDecLocsDistinct fails")
        else
          let u := canonNats (implParts.filterMap id).flatten
          if canonNats w == u then ("ok", "") else ("VIOL", s!"lines of the whole file={fmtNats (canonNats w)} union over its items={fmtNats u}")
      | _, _ => ("VIOL", "panic")
    { kind := "COMPOSELINES", group := det,
      agree := if !inScope || !indep then "na" else if modelW == modelU then "A" else "D",
      oracle := oracle.1,
      detail := if oracle.1 == "VIOL" || (inScope && indep && modelW != modelU) then s!"{oracle.2}|model whole={fmtNats modelW} model union={fmtNats modelU}" else oracle.2 }
  | _, _ => { kind := "COMPOSELINES", group := variant, agree := "E", detail := "unknown file or variant" }

/-- all locations of a tree (the proof-side definition) -/
def locsOfTree (t : T) : List Loc := locsOf t

def dedupLocs (ls : List Loc) : List Loc :=
  let sorted := ls.toArray.qsort (fun a b => a.fileNo < b.fileNo || (a.fileNo == b.fileNo && (a.start < b.start || (a.start == b.start && a.stop < b.stop)))) |>.toList
  sorted.foldr (fun l acc => match acc with | l' :: _ => if l == l' then acc else l :: acc | [] => [l]) []

def handleTokMap (st : St) (id1 id2 enc : String) : St × Option Verdict :=
  let (starts, ends) := parseTokMap enc
  match lookup st.files id1, lookup st.files id2 with
  | some f1, some f2 =>
    let ρ : Loc → Loc := fun l => (relocate starts ends l).getD ⟨l.fileNo, 0, 0⟩
    let unmapped := (locsOfTree f1.tree).filter fun l => (relocate starts ends l).isNone
    let st := { st with tokMaps := truncate 8 (((id1, id2), (starts, ends)) :: st.tokMaps) }
    let distinct := dedupLocs (locsOfTree f1.tree)
    let injective := (dedupLocs (distinct.map ρ)).length == distinct.length
    if !unmapped.isEmpty then (st, some { kind := "TOKMAP", agree := "E", detail := s!"location not at token boundaries: {repr unmapped.head!}" })
    else if !injective then (st, some { kind := "TOKMAP", agree := "E", detail := "the token relocation is not injective on the locations of the tree" })
    else if mapLoc ρ f1.tree == f2.tree then (st, some { kind := "TOKMAP", agree := "A", oracle := "ok" })
    else
      let a := (locsOfTree (mapLoc ρ f1.tree))
      let b := (locsOfTree f2.tree)
      let l1 := locsOfTree f1.tree
      let d := ((l1.zip (a.zip b)).find? (fun p => p.2.1 != p.2.2))
      (st, some { kind := "TOKMAP", agree := "E", detail := s!"re-laid-out file does not parse to the relocated tree: first differing location (original, relocated, re-parsed) = {(d.map fun p => s!"{p.1.start}:{p.1.stop} -> {p.2.1.start}:{p.2.1.stop} vs {p.2.2.start}:{p.2.2.stop}").getD "-"}; counts {a.length} {b.length}" })
  | _, _ => (st, some { kind := "TOKMAP", agree := "E", detail := "unknown file" })

def handleRelay (st : St) (id1 id2 det impl1 impl2 : String) : Verdict :=
  match lookup st.files id1, lookup st.files id2, detectorByName det, lookup (st.tokMaps.map fun e => (e.1.1 ++ "|" ++ e.1.2, e.2)) (id1 ++ "|" ++ id2) with
  | some f1, some f2, some d, some (starts, ends) =>
    let ρ : Loc → Loc := fun l => (relocate starts ends l).getD ⟨l.fileNo, 0, 0⟩
    let m1 := canonLocs ((d f1.tree).map ρ)
    let m2 := canonLocs (d f2.tree)
    let oracle : String × String :=
      match parseLocs impl1, parseLocs impl2 with
      | some a, some b =>
        let a' := canonLocs (a.map fun (s, e) => ρ ⟨0, s, e⟩)
        if a' == b then ("ok", "") else ("VIOL", s!"flagged before (relocated)={fmtLocs a'} after={fmtLocs b}")
      | _, _ => ("VIOL", "panic")
    { kind := "RELAY", group := det, agree := if m1 == m2 then "A" else "D", oracle := oracle.1,
      detail := if m1 == m2 && oracle.1 != "VIOL" then "" else s!"{oracle.2}|model relocated={fmtLocs m1} model after={fmtLocs m2}" }
  | _, _, _, _ => { kind := "RELAY", group := det, agree := "E", detail := "missing file, detector or token map" }

/-- two spacings of the same `pragma solidity` constraint list (value at byte `pos`, lengths `la` / `lb`), the rest of
the file byte-identical: the same constructs are flagged, offsets behind the value shifted by the difference -/
def handlePragmaSp (st : St) (id1 id2 det impl1 impl2 : String) (pos la lb : Nat) : Verdict :=
  match lookup st.files id1, lookup st.files id2, detectorByName det with
  | some f1, some f2, some d =>
    let sh (x : Nat) : Nat := if x ≥ pos + la then x - la + lb else x
    let ρ : Loc → Loc := fun l => ⟨l.fileNo, sh l.start, sh l.stop⟩
    let m1 := canonLocs ((d f1.tree).map ρ)
    let m2 := canonLocs (d f2.tree)
    let oracle : String × String :=
      match parseLocs impl1, parseLocs impl2 with
      | some a, some b =>
        let a' := canonLocs (a.map fun (s, e) => ρ ⟨0, s, e⟩)
        let b' := canonLocs (b.map fun (s, e) => ⟨0, s, e⟩)
        if a' == b' then ("ok", "") else ("VIOL", s!"flagged with one spacing of the pragma (shifted)={fmtLocs a'} with the other={fmtLocs b'}")
      | _, _ => ("VIOL", "panic")
    { kind := "PRAGMASP", group := det, agree := if m1 == m2 then "A" else "D", oracle := oracle.1,
      detail := if m1 == m2 && oracle.1 != "VIOL" then "" else s!"{oracle.2}|model shifted={fmtLocs m1} model other={fmtLocs m2}" }
  | _, _, _ => { kind := "PRAGMASP", group := det, agree := "E", detail := "missing file or detector" }

def handleStrLit (st : St) (id1 id3 det impl1 impl3 : String) : Verdict :=
  match lookup st.files id1, lookup st.files id3, detectorByName det with
  | some f1, some f3, some d =>
    let m1 := canonLocs (d f1.tree)
    let m3 := canonLocs (d f3.tree)
    let agree := m1 == m3
    let oracle := impl1 != "PANIC" && impl1 == impl3
    { kind := "STRLIT", group := det, agree := if agree then "A" else "D", oracle := if oracle then "ok" else "VIOL",
      detail := if agree && oracle then "" else if impl1 == "PANIC" || impl3 == "PANIC" then "panic" else s!"original strings: {impl1}|code-like text inside the strings: {impl3}|model {fmtLocs m1} vs {fmtLocs m3}" }
  | _, _, _ => { kind := "STRLIT", group := det, agree := "E", detail := "missing file or detector" }

def step (st : St) (line : String) : St × Option Verdict :=
  match splitTabs line with
  | ["ROOT", rid, ty, dbg] =>
    match decodeAs ty dbg with
    | .ok t =>
      let st := noteTree st t
      ({ st with roots := truncate 8 ((rid, t) :: st.roots) }, none)
    | .error e => (st, some { kind := "ROOT", agree := "E", detail := e })
  | ["WALK", rid, targets, impl] => (st, some (handleWalk st rid targets impl))
  | ["LINE", hexText, off, impl] => (st, some (handleLine hexText off impl))
  | ["SLOTS", sizes, impl] => (st, some (handleSlots sizes impl))
  | ["TYSZ", dbg, impl] => (st, some (handleTysz dbg impl))
  | ["VER", hexVal, impl] => (st, some (handleVer hexVal impl))
  | ["FILE", fid, hexSrc, dbg] =>
    match decodeAs "SourceUnit" dbg with
    | .ok t =>
      let st := noteTree st t
      let wfStrings := (T.allNodes t).all fun n =>
        match n with
        | .node .Expression_StringLiteral [pieces] => !(vecItems pieces).isEmpty
        | _ => true
      let ok := conforms (.named "SourceUnit") t && wfStrings
      let st := if ok then st else { st with conformFailures := st.conformFailures + 1 }
      ({ st with files := truncate 48 ((fid, { src := unhex hexSrc.toList, tree := t }) :: st.files) },
        if ok then none else some { kind := "FILE", agree := "E", detail := "tree does not conform to the schema" })
    | .error e => (st, some { kind := "FILE", agree := "E", detail := e })
  | ["DET", fid, det, impl] =>
    let st := { st with detImpl := truncate 2000 (((fid, det), impl) :: st.detImpl) }
    (st, some (handleDet st fid det impl))
  | ["LINES", fid, cat, variant, _fileNo, impl] => (st, some (handleLines st fid cat variant impl))
  | ["TOKMAP", id1, id2, enc] => handleTokMap st id1 id2 enc
  | ["RELAY", id1, id2, det, impl1, impl2] => (st, some (handleRelay st id1 id2 det impl1 impl2))
  | ["PRAGMASP", id1, id2, det, impl1, impl2, pos, la, lb] =>
    (st, some (handlePragmaSp st id1 id2 det impl1 impl2 (pos.toNat?.getD 0) (la.toNat?.getD 0) (lb.toNat?.getD 0)))
  | ["STRLIT", id1, id3, det, impl1, impl3] => (st, some (handleStrLit st id1 id3 det impl1 impl3))
  | ["COMPOSE", idw, partsEnc, det, implW, implPs] => (st, some (handleCompose st idw partsEnc det implW implPs))
  | ["COMPOSELINES", idw, partsEnc, cat, variant, implW, implPs] => (st, some (handleComposeLines st idw partsEnc cat variant implW implPs))
  | ["RESOLVE", cliPath, tomlEnc, ce, implExit, implReport] => (st, some (handleResolve cliPath tomlEnc ce implExit implReport))
  | ["RENDER", cat, enc, implHex, same] => (st, some (handleRender cat enc implHex same))
  | ["FULLREPORT", v, o, q, implHex] => (st, some (handleFull v o q implHex))
  | ["DIR", cat, patterns, treeEnc, gtab, impl] => (st, some (handleDir cat patterns treeEnc gtab impl))
  | ["THREADS", calls, mismatches] =>
    (st, some { kind := "THREADS", agree := if mismatches == "0" then "A" else "D", oracle := if mismatches == "0" then "ok" else "VIOL",
                detail := s!"calls={calls} mismatches={mismatches}" })
  | [""] => (st, none)
  | f :: _ => (st, some { kind := f, agree := "E", detail := "unknown request" })
  | [] => (st, none)

def fmtEdges (es : List CtxPath) : String :=
  " ".intercalate (es.map fun e => ">".intercalate (e.map fun (t, i) => s!"{t.name}.{i}"))

partial def loop (h : IO.FS.Stream) (out : IO.FS.Stream) (st : St) (n : Nat) : IO St := do
  let line ← h.getLine
  if line.isEmpty then return st
  let line := if line.endsWith "\n" then (line.dropEnd 1).toString else line
  let (st', v) := step st line
  match v with
  | some v => out.putStrLn s!"{n}\t{v.render}"
  | none => pure ()
  loop h out st' (n + 1)

def main : IO Unit := do
  let stdin ← IO.getStdin
  let stdout ← IO.getStdout
  let st ← loop stdin stdout {} 1
  let missing := allEdges.filter (fun e => !st.edgesSeen.contains e)
  let nodeTagsSeen := nodeTags.filter (fun t => st.tagsSeen.contains t)
  stdout.putStrLn s!"0\tSTATS\t\tna\tna\tedges_total={allEdges.length};edges_covered={allEdges.length - missing.length};node_tags_total={nodeTags.length};node_tags_seen={nodeTagsSeen.length};conform_failures={st.conformFailures};blocked={Gen.blocked.length};missing_edges={fmtEdges missing}"
