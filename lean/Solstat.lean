import Solstat.Tree
import Solstat.Wire
import Solstat.Walk
import Solstat.Utils
import Solstat.Detectors
import Solstat.Spec.Basic
import Solstat.Check
import Solstat.Props.C01
